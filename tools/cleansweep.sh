#!/bin/sh
# usage: tools/cleansweep.sh <tier> <seed>...   — every check on the unchanged tree for several VERIF_SEED values;
# prints one line per (check, seed) that did not exit 0 or printed a VIOLATION line (nothing = all quiet)
cd "$(dirname "$0")/.." || exit 2
[ -x lean/.lake/build/bin/skadriver ] || (cd lean && lake build >/dev/null 2>&1)
TIER=$1; shift
for S in "$@"; do
  for C in C01 C02 C03 C04 C05 C06 C07 C08 C09 C10 C11 C12 C13 C14 C15 C16 C17 C18 C19 C20; do
    out=$(VERIF_SEED=$S ./check $C $TIER 2>&1); rc=$?
    if [ $rc -ne 0 ] || echo "$out" | grep -q "^VIOLATION"; then
      echo "ALARM $C seed=$S tier=$TIER exit=$rc"; echo "$out" | grep -v "^KNOWN-FINDING" | tail -5 | cut -c1-400
      mkdir -p /tmp/sweep_keep; cp replays/${C}_*.json /tmp/sweep_keep/ 2>/dev/null
    fi
  done
  echo "seed $S done"
done
rm -f replays/*.json
