#!/venv/bin/python
"""Regenerates seeded/INDEX.md from the meta.json files."""
import glob
import json
import os

V = os.path.dirname(os.path.dirname(os.path.abspath(__file__)))
rows = []
for d in sorted(os.path.dirname(p) for p in glob.glob(os.path.join(V, "seeded", "*", "meta.json"))):
    m = json.load(open(os.path.join(d, "meta.json")))
    c = m.get("confirmed_by_lead", {})
    checks = c.get("checks", {})
    parts = []
    for k, v in checks.items():
        if isinstance(v, dict):
            n = v.get("violation_lines", 0)
            s = "caught" if n and not v.get("no_failing_input_found") else ("broken tie only (no-failing-input-found)" if n else "not caught")
            parts.append(f"{k}: {s}")
        else:
            parts.append(f"{k}: {v}")
    rows.append((os.path.basename(d), str(m.get("summary", ""))[:200].replace("|", "/").replace("\n", " "),
                 str(m.get("needs", ""))[:200].replace("|", "/").replace("\n", " "),
                 "; ".join(parts)[:400].replace("|", "/"), str(m.get("strengthening", ""))[:300].replace("|", "/")))
with open(os.path.join(V, "seeded", "INDEX.md"), "w") as f:
    f.write("# Seeded changes\n\nEach directory holds `patch.diff` (against /repo HEAD at the time), the demonstration and `meta.json`.\n"
            "`first run` = verdict of the checks when the seed was first confirmed; `strengthening` = what was changed in the checks afterwards.\n\n")
    f.write("| seed | change | needs | first run | strengthening |\n|---|---|---|---|---|\n")
    for r in rows:
        f.write("| " + " | ".join(r) + " |\n")
print(len(rows), "seeds")
