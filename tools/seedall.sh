#!/bin/sh
# usage: tools/seedall.sh <seed-id> <patch.diff> <demo.py>   — runs ALL checks (quick) against the patched tree
set -u
ID=$1; PATCH=$(readlink -f "$2"); DEMO=$(readlink -f "$3")
WT=/tmp/seedall_$ID
cd /verif || exit 2
git -C /repo worktree remove --force $WT >/dev/null 2>&1
git -C /repo worktree add -q --detach $WT HEAD || exit 2
cp $DEMO $WT/_seed_demo.py
(cd $WT && PYTHONPATH=$WT /venv/bin/python -W ignore _seed_demo.py >/dev/null 2>&1; echo "demo exit (clean) = $?")
git -C $WT apply $PATCH || { echo "PATCH DOES NOT APPLY"; git -C /repo worktree remove --force $WT; exit 2; }
(cd $WT && PYTHONPATH=$WT /venv/bin/python -W ignore _seed_demo.py >/dev/null 2>&1; echo "demo exit (patched) = $?")
for C in C01 C02 C03 C04 C05 C06 C07 C08 C09 C10 C11 C12 C13 C14 C15 C16 C17 C18 C19 C20; do
  res=$(SKA_REPO=$WT ./check $C quick 2>&1 | grep -v "^KNOWN-FINDING")
  if echo "$res" | grep -q "^VIOLATION.*no-failing-input-found"; then v="tie-only";
  elif echo "$res" | grep -q "^VIOLATION"; then v="CAUGHT";
  elif echo "$res" | grep -q "HARNESS-ERROR"; then v="HARNESS-ERROR";
  else v="-"; fi
  echo "$C $v | $(echo "$res" | grep 'quick seed' | tail -1 | cut -c1-150)"
done
git -C /repo worktree remove --force $WT
rm -f /verif/replays/*.json
