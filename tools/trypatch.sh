#!/bin/sh
# usage: tools/trypatch.sh <patch.diff> "<check ids>" [tier]   — run checks against a scratch worktree with the patch applied
PATCH=$(readlink -f "$1"); CHECKS=$2; TIER=${3:-quick}
WT=/tmp/trypatch_$$
cd /verif || exit 2
git -C /repo worktree add -q --detach $WT HEAD || exit 2
git -C $WT apply $PATCH || { echo "PATCH DOES NOT APPLY"; git -C /repo worktree remove --force $WT; exit 2; }
for C in $CHECKS; do
  SKA_REPO=$WT ./check $C $TIER 2>&1 | grep -v "^KNOWN-FINDING" | cut -c1-300 | tail -5
done
git -C /repo worktree remove --force $WT
