#!/bin/sh
# Regenerates every evidence/Cxx.json from a QUICK-tier run against /repo (the committed evidence must describe what `quick_cmd` reproduces from a fresh restore).
cd /verif
for p in C01 C02 C03 C04 C05 C06 C07 C08 C09 C10 C11 C12 C13 C14 C15 C16 C17 C18 C19 C20; do ./check $p quick 2>&1 | grep -E "VIOLATION|HARNESS|quick seed" | cut -c1-200; done
echo ALLDONE
