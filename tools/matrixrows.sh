#!/bin/sh
# usage: tools/matrixrows.sh <seed id>...   — re-runs the named seeds and replaces / appends their rows in seeded/MATRIX.md
cd "$(dirname "$0")/.." || exit 2
ROOT=$(pwd)
for id in "$@"; do
  d=seeded/$id
  [ -f $d/meta.json ] || continue
  pid=$(/venv/bin/python -c "import json,sys; print(json.load(open(sys.argv[1]))['property'])" $d/meta.json)
  WT=/tmp/seedmx_$$_$id
  git -C /repo worktree add -q --detach $WT HEAD || continue
  if ! git -C $WT apply $ROOT/$d/patch.diff 2>/dev/null; then
    row="| $id | $pid | patch no longer applies to HEAD | |"
  else
    res=$(SKA_REPO=$WT ./check $pid quick 2>&1 | grep -v "^KNOWN-FINDING")
    summ=$(echo "$res" | grep "quick seed" | tail -1 | cut -c1-160)
    if echo "$res" | grep -q "^VIOLATION.*no-failing-input-found"; then v="tie-only";
    elif echo "$res" | grep -q "^VIOLATION"; then v="caught";
    elif echo "$res" | grep -q "HARNESS-ERROR"; then v="HARNESS-ERROR";
    else v="MISSED"; fi
    row="| $id | $pid | $v | $summ |"
  fi
  git -C /repo worktree remove --force $WT
  /venv/bin/python - "$id" "$row" <<'PY'
import sys
i,row=sys.argv[1],sys.argv[2]
L=open("seeded/MATRIX.md").read().splitlines()
k=[n for n,l in enumerate(L) if l.startswith(f"| {i} |")]
if k: L[k[0]]=row
else: L.append(row)
open("seeded/MATRIX.md","w").write("\n".join(L)+"\n")
PY
  echo "$row"
done
git checkout lean/SkaModel/Gen 2>/dev/null
rm -f replays/*.json
