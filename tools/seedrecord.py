#!/venv/bin/python
"""usage: tools/seedrecord.py <seed-id> <srcdir> <property-id> "<check ids>"
Runs tools/seedrun.sh on <srcdir>/patch.diff + demo_<pid>.py, parses the verdicts and stores
seeded/<seed-id>/{patch.diff, demo_<pid>.py, meta.json}."""
import json
import os
import re
import shutil
import subprocess
import sys

sid, src, pid, checks = sys.argv[1:5]
V = os.path.dirname(os.path.dirname(os.path.abspath(__file__)))
out = subprocess.run([os.path.join(V, "tools", "seedrun.sh"), sid, f"{src}/patch.diff", f"{src}/demo_{pid}.py", checks],
                     cwd=V, stdout=subprocess.PIPE, stderr=subprocess.STDOUT, text=True).stdout
clean = re.search(r"demo exit \(clean\) = (\d+)", out)
patched = re.search(r"demo exit \(patched\) = (\d+)", out)
res = {}
for m in re.finditer(r"== check (C\d+) quick on patched tree\n(.*?)(?=\n== check|\Z)", out, flags=re.S):
    body = m.group(2)
    summ = re.search(r"^(C\d+ quick seed.*)$", body, flags=re.M)
    res[m.group(1)] = dict(
        violation_lines=len(re.findall(r"^VIOLATION", body, flags=re.M)),
        no_failing_input_found="no-failing-input-found" in body,
        harness_error="HARNESS-ERROR" in body,
        broken_ties=[l[:220] for l in re.findall(r"^note: broken tie: (.*)$", body, flags=re.M)][:3],
        summary=summ.group(1) if summ else body[-300:],
    )
d = os.path.join(V, "seeded", sid)
os.makedirs(d, exist_ok=True)
shutil.copy(f"{src}/patch.diff", d + "/patch.diff")
shutil.copy(f"{src}/demo_{pid}.py", d + f"/demo_{pid}.py")
meta = json.load(open(f"{src}/meta.json"))
meta["confirmed_by_lead"] = dict(
    how="tools/seedrun.sh: fresh scratch worktree of /repo HEAD; demo copied into the tree and run there (exit code), patch applied with git apply, "
        "demo again, then the listed checks (quick tier) with SKA_REPO pointing at the patched tree; worktree removed afterwards",
    repo_head=subprocess.check_output(["git", "-C", "/repo", "log", "--format=%h", "-1"], text=True).strip(),
    demo_exit_clean=int(clean.group(1)) if clean else None,
    demo_exit_patched=int(patched.group(1)) if patched else None,
    checks=res,
)
json.dump(meta, open(d + "/meta.json", "w"), indent=1)
print(sid, "demo clean/patched:", meta["confirmed_by_lead"]["demo_exit_clean"], meta["confirmed_by_lead"]["demo_exit_patched"])
for c, r in res.items():
    print("  ", c, "VIOLATION lines:", r["violation_lines"], "(no-input)" if r["no_failing_input_found"] else "", "HARNESS-ERROR" if r["harness_error"] else "", "|", r["summary"][:150])
