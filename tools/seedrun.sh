#!/bin/sh
# usage: tools/seedrun.sh <seed-id> <patch.diff> <demo.py> "<check ids>"
# Confirms a seeded change in a fresh scratch worktree (demo passes without / fails with the patch),
# then runs the given checks (quick tier) against the patched tree via SKA_REPO and prints the verdicts.
set -u
ID=$1; PATCH=$(readlink -f "$2"); DEMO=$(readlink -f "$3"); CHECKS=$4
WT=/tmp/seedrun_$ID
cd /verif || exit 2
git -C /repo worktree remove --force $WT >/dev/null 2>&1
git -C /repo worktree add -q --detach $WT HEAD || exit 2
cp $DEMO $WT/_seed_demo.py   # the script's own directory comes first on sys.path: run it from inside the tree under test
echo "== demo on unchanged tree"; (cd $WT && PYTHONPATH=$WT /venv/bin/python -W ignore _seed_demo.py >/dev/null 2>&1; echo "demo exit (clean) = $?")
git -C $WT apply $PATCH || { echo "PATCH DOES NOT APPLY"; git -C /repo worktree remove --force $WT; exit 2; }
echo "== demo on patched tree"; (cd $WT && PYTHONPATH=$WT /venv/bin/python -W ignore _seed_demo.py >/dev/null 2>&1; echo "demo exit (patched) = $?")
for C in $CHECKS; do
  echo "== check $C quick on patched tree"
  SKA_REPO=$WT ./check $C quick 2>&1 | grep -v "^KNOWN-FINDING" | cut -c1-400 | tail -6
done
git -C /repo worktree remove --force $WT
rm -f /verif/replays/*.json
# evidence files were overwritten by runs against the patched tree: regenerate from /repo
for C in $CHECKS; do ./check $C quick >/dev/null 2>&1; done
