"""Entry point: ./check <Cxx> <quick|thorough> | ./check <Cxx> --replay <file>"""
import importlib
import json
import os
import sys

from . import vlib


def main(argv):
    if len(argv) < 2:
        print(__doc__)
        return 2
    prop = argv[0].upper()
    mod = importlib.import_module(f"harness.props.{prop.lower()}")
    if argv[1] == "--replay":
        payload = json.load(open(argv[2]))
        if payload.get("kind") == "broken-tie":
            print(json.dumps(payload, indent=1)[:4000])
            print("This replay names a theorem / correspondence that no longer checks; re-run the check to see whether it still does.")
            return 1
        return mod.replay(payload)
    tier = argv[1]
    if tier not in ("quick", "thorough"):
        print(__doc__)
        return 2
    tier = os.environ.get("VERIF_TIER", tier) if tier is None else tier
    seed = int(os.environ.get("VERIF_SEED", "0"))
    return vlib.run_check(prop, mod, tier, seed)


if __name__ == "__main__":
    sys.exit(main(sys.argv[1:]))
