"""Index of the *current* skactiveml source tree (parsed with `ast` on every run).

Nothing here imports skactiveml: classes, methods, inheritance and constructor parameters are read
from the source text under `vlib.REPO` (so `SKA_REPO=/scratch/worktree` steers the translator).
"""
import ast
import os


class ClassInfo:
    def __init__(self, name, module, file, node):
        self.name, self.module, self.file, self.node = name, module, file, node
        self.bases = []
        for b in node.bases:
            if isinstance(b, ast.Name):
                self.bases.append(b.id)
            elif isinstance(b, ast.Attribute):
                self.bases.append(b.attr)
        self.methods = {n.name: n for n in node.body if isinstance(n, (ast.FunctionDef, ast.AsyncFunctionDef))}
        self.class_attrs = set()
        for n in node.body:
            if isinstance(n, ast.Assign):
                for t in n.targets:
                    if isinstance(t, ast.Name):
                        self.class_attrs.add(t.id)

    def __repr__(self):
        return f"<class {self.module}.{self.name}>"


class Index:
    def __init__(self, repo):
        self.repo = repo
        self.root = os.path.join(repo, "skactiveml")
        self.modules = {}      # dotted module -> ast.Module
        self.files = {}        # dotted module -> path
        self.classes = {}      # name -> [ClassInfo]
        self.functions = {}    # (module, name) -> FunctionDef
        self.imports = {}      # module -> {local name: (kind, target)}   kind in 'module' | 'from'
        self._mro_cache = {}
        for dirpath, dirnames, filenames in os.walk(self.root):
            dirnames[:] = [d for d in dirnames if d not in ("tests", "__pycache__")]
            for fn in sorted(filenames):
                if not fn.endswith(".py"):
                    continue
                path = os.path.join(dirpath, fn)
                rel = os.path.relpath(path, repo)[:-3].replace(os.sep, ".")
                if rel.endswith(".__init__"):
                    rel = rel[: -len(".__init__")]
                try:
                    tree = ast.parse(open(path).read(), filename=path)
                except SyntaxError:
                    continue
                self.modules[rel] = tree
                self.files[rel] = path
                self._index_module(rel, tree, path, is_pkg=fn == "__init__.py")

    # -------------------------------------------------------------------------------------
    def _index_module(self, mod, tree, path, is_pkg):
        imps = {}
        pkg = mod if is_pkg else mod.rsplit(".", 1)[0]
        for n in tree.body:
            if isinstance(n, ast.ClassDef):
                self.classes.setdefault(n.name, []).append(ClassInfo(n.name, mod, path, n))
            elif isinstance(n, (ast.FunctionDef, ast.AsyncFunctionDef)):
                self.functions[(mod, n.name)] = n
        for n in ast.walk(tree):
            if isinstance(n, ast.Import):
                for a in n.names:
                    imps[a.asname or a.name.split(".")[0]] = ("module", a.name)
            elif isinstance(n, ast.ImportFrom):
                if n.level:
                    base = pkg.split(".")
                    base = base[: len(base) - (n.level - 1)]
                    src = ".".join(base + ([n.module] if n.module else []))
                else:
                    src = n.module or ""
                for a in n.names:
                    imps[a.asname or a.name] = ("from", (src, a.name))
        self.imports[mod] = imps

    # -------------------------------------------------------------------------------------
    def get_class(self, name, from_module=None):
        lst = self.classes.get(name, [])
        if not lst:
            return None
        if from_module is not None:
            for c in lst:
                if c.module == from_module:
                    return c
            imp = self.imports.get(from_module, {}).get(name)
            if imp and imp[0] == "from":
                r = self.resolve_name(imp[1][0], imp[1][1])
                if r and r[0] == "class":
                    return r[1]
        return lst[0]

    def resolve_name(self, module, name, depth=0):
        """Follow `from .x import name` chains inside skactiveml. Returns ('class', ClassInfo) |
        ('func', (module, FunctionDef)) | None."""
        if depth > 6:
            return None
        if (module, name) in self.functions:
            return ("func", (module, self.functions[(module, name)]))
        for c in self.classes.get(name, []):
            if c.module == module:
                return ("class", c)
        imp = self.imports.get(module, {}).get(name)
        if imp and imp[0] == "from" and imp[1][0].startswith("skactiveml"):
            return self.resolve_name(imp[1][0], imp[1][1], depth + 1)
        return None

    def external_origin(self, module, name):
        """Dotted origin of a name imported from outside skactiveml, e.g. 'sklearn.cluster.KMeans'."""
        imp = self.imports.get(module, {}).get(name)
        if not imp:
            return None
        if imp[0] == "module":
            return imp[1]
        src, orig = imp[1]
        if src.startswith("skactiveml"):
            r = self.resolve_name(src, orig)
            if r is None:
                # re-exported external name
                return self.external_origin(src, orig)
            return None
        return f"{src}.{orig}"

    def mro(self, cls):
        """C3 linearisation restricted to classes defined in the repo."""
        if cls.name in self._mro_cache:
            return self._mro_cache[cls.name]

        def merge(seqs):
            res = []
            seqs = [list(s) for s in seqs if s]
            while seqs:
                for s in seqs:
                    cand = s[0]
                    if not any(cand.name in [x.name for x in t[1:]] for t in seqs):
                        break
                else:
                    cand = seqs[0][0]   # inconsistent hierarchy: fall back to first
                res.append(cand)
                seqs = [[x for x in s if x.name != cand.name] for s in seqs]
                seqs = [s for s in seqs if s]
            return res

        bases = [self.get_class(b, cls.module) for b in cls.bases]
        bases = [b for b in bases if b is not None and b.name != cls.name]
        out = [cls] + merge([self.mro(b) for b in bases] + [bases])
        self._mro_cache[cls.name] = out
        return out

    def resolve_method(self, cls, name, after=None):
        """First definition of `name` in the MRO of `cls` (after class `after` if given)."""
        chain = self.mro(cls)
        if after is not None:
            names = [c.name for c in chain]
            if after.name in names:
                chain = chain[names.index(after.name) + 1:]
        for c in chain:
            if name in c.methods:
                return c, c.methods[name]
        return None

    def ctor_params(self, cls):
        """Constructor parameter names: the signature of the first `__init__` in the MRO; a
        `**kwargs` that is forwarded to `super().__init__` pulls in the next one as well."""
        out = []
        after = None
        for _ in range(6):
            r = self.resolve_method(cls, "__init__", after=after)
            if r is None:
                break
            owner, fn = r
            a = fn.args
            names = [x.arg for x in a.posonlyargs + a.args][1:] + [x.arg for x in a.kwonlyargs]
            out += [n for n in names if n not in out]
            if a.kwarg is None:
                break
            after = owner
        return out

    def ctor_attrs(self, cls):
        """Attributes assigned by the constructors along the MRO (`self.x = ...` in any `__init__`):
        state established by the constructor, whether or not `get_params` reports it."""
        out = []
        for c in self.mro(cls):
            fn = c.methods.get("__init__")
            if fn is None:
                continue
            for n in ast.walk(fn):
                tg = []
                if isinstance(n, ast.Assign):
                    tg = n.targets
                elif isinstance(n, (ast.AugAssign, ast.AnnAssign)):
                    tg = [n.target]
                for t in tg:
                    if isinstance(t, ast.Attribute) and isinstance(t.value, ast.Name) and t.value.id == "self" and t.attr not in out:
                        out.append(t.attr)
        return out

    def ctor_defaults(self, cls):
        """name -> default AST node (for parameters that have one) plus the defining module."""
        res = {}
        r = self.resolve_method(cls, "__init__")
        if r is None:
            return res
        owner, fn = r
        a = fn.args
        pos = a.posonlyargs + a.args
        for arg, d in zip(pos[len(pos) - len(a.defaults):], a.defaults):
            res[arg.arg] = (d, owner.module)
        for arg, d in zip(a.kwonlyargs, a.kw_defaults):
            if d is not None:
                res[arg.arg] = (d, owner.module)
        return res

    def public_methods(self, cls):
        """Public methods (defined anywhere in the repo part of the MRO), without constructor /
        sklearn plumbing."""
        skip = {"get_params", "set_params", "score", "get_metadata_routing"}
        names = []
        for c in self.mro(cls):
            for n, fn in c.methods.items():
                if n.startswith("_") or n in skip or n in names:
                    continue
                if any(isinstance(d, ast.Name) and d.id in ("staticmethod", "classmethod", "property") for d in fn.decorator_list):
                    continue
                names.append(n)
        return names

    def exported(self, package):
        """Class names in `__all__` of a package `skactiveml.xyz`."""
        tree = self.modules.get(package)
        if tree is None:
            return []
        names = []
        for n in tree.body:
            if isinstance(n, ast.Assign) and any(isinstance(t, ast.Name) and t.id == "__all__" for t in n.targets):
                try:
                    names = list(ast.literal_eval(n.value))
                except Exception:
                    names = []
        out = []
        for nm in names:
            r = self.resolve_name(package, nm)
            if r and r[0] == "class":
                out.append(r[1])
        return out
