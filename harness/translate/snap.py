"""Deep before/after snapshots of real objects (the dynamic side of the effect properties)."""
import hashlib
import pickle
import types
from collections import deque

import numpy as np


def h(b):
    return hashlib.sha1(b).hexdigest()[:16]


def digest_array(a):
    a = np.asarray(a)
    if a.dtype == object:
        return ("objarr", a.shape, tuple(canon(x) for x in a.ravel().tolist()))
    return ("arr", str(a.dtype), a.shape, h(np.ascontiguousarray(a).tobytes()))


def canon(x, depth=0, seen=None):
    """Canonical, comparable description of a value: arrays by bytes, callables by identity, dicts /
    lists recursively, estimators by their own get_params and `__dict__`."""
    if seen is None:
        seen = set()
    if depth > 8:
        return ("deep",)
    if x is None or isinstance(x, (bool, int, str, bytes)):
        return x
    if isinstance(x, float):
        return ("nan",) if x != x else x
    if isinstance(x, (np.integer, np.bool_)):
        return int(x)
    if isinstance(x, np.floating):
        return canon(float(x))
    if isinstance(x, np.ndarray):
        return digest_array(x)
    if isinstance(x, np.random.RandomState):
        st = x.get_state()
        return ("RandomState", h(np.asarray(st[1]).tobytes()), int(st[2]), int(st[3]), float(st[4]))
    if isinstance(x, np.random.Generator):
        return ("Generator", h(pickle.dumps(x.bit_generator.state)))
    if id(x) in seen:
        return ("cycle",)
    if isinstance(x, dict):
        seen = seen | {id(x)}
        return ("dict", tuple(sorted(((repr(k), canon(v, depth + 1, seen)) for k, v in x.items()), key=lambda t: t[0])))
    if isinstance(x, (list, tuple, deque)):
        seen = seen | {id(x)}
        return (type(x).__name__, tuple(canon(v, depth + 1, seen) for v in x))
    if isinstance(x, (set, frozenset)):
        return ("set", tuple(sorted(repr(canon(v, depth + 1, seen)) for v in x)))
    if isinstance(x, type):
        return ("type", x.__module__, x.__qualname__)
    if isinstance(x, (types.FunctionType, types.BuiltinFunctionType, types.MethodType, np.ufunc)) or (callable(x) and not hasattr(x, "get_params")):
        return ("callable", id(x))
    if hasattr(x, "get_params") and (hasattr(x, "query") or hasattr(x, "query_by_utility")):
        # an inner query strategy / budget manager: it may update its own fitted attributes; its
        # parameters appear as separate `a__b` entries of get_params(deep=True)
        try:
            ps = x.get_params(deep=False)
        except Exception:
            ps = {}
        return ("strategy", type(x).__name__, canon(ps, depth + 1, seen | {id(x)}))
    if hasattr(x, "get_params") and hasattr(x, "__dict__"):
        seen = seen | {id(x)}
        try:
            ps = x.get_params(deep=False)
        except Exception:
            ps = {}
        return ("estimator", type(x).__name__, canon(ps, depth + 1, seen), canon(dict(vars(x)), depth + 1, seen))
    if hasattr(x, "__dict__"):
        seen = seen | {id(x)}
        return ("object", type(x).__name__, canon(dict(vars(x)), depth + 1, seen))
    try:
        return ("pickle", type(x).__name__, h(pickle.dumps(x)))
    except Exception:
        return ("repr", repr(x)[:80])


def params_snapshot(obj):
    """name -> canonical value for get_params(deep=True) (nested estimators contribute their own
    entries `a__b`; dict-valued parameters are compared by content)."""
    return {k: canon(v) for k, v in obj.get_params(deep=True).items()}


def state_snapshot(obj):
    """name -> canonical value for every instance attribute (parameters and fitted attributes)."""
    return {k: canon(v) for k, v in vars(obj).items()}


def diff_keys(a, b):
    ks = []
    for k in sorted(set(a) | set(b)):
        if k not in a or k not in b or a[k] != b[k]:
            ks.append(k)
    return ks


def arrays_in(kw):
    """The ndarray arguments of a call (name -> array)."""
    return {k: v for k, v in kw.items() if isinstance(v, np.ndarray)}


def arrays_snapshot(kw):
    return {k: digest_array(v) for k, v in arrays_in(kw).items()}


def out_canon(out):
    """Canonical form of a query / predict result for equality of twins."""
    return canon(out)


def pickles(obj):
    try:
        pickle.dumps(obj)
        return None
    except Exception as e:
        return f"{type(e).__name__}: {str(e)[:120]}"
