"""AST translator: current skactiveml source -> effect summaries -> `lean/SkaModel/Gen/*.lean`.

Modules
-------
pyindex.py    index of the source tree under `vlib.REPO` (classes, C3 MRO, constructor parameters incl.
              inherited ones and attributes assigned by constructors, public methods, import chains)
summarize.py  one method -> IR of `SkaModel/Core/Effects.lean` (+ RNG draw-site table)
abscheck.py   Python mirror of Lean's `check` / `histCheck` (ownership inference, predicted truth value of
              every obligation, leads); Lean's `decide` re-checks every prediction
gen.py        emits Gen/EffectsC05.lean, Gen/EffectsC13.lean, Gen/RngC06.lean; compares with expected.json
expected.json obligations that do not hold on the reference tree, each classified `finding: <key>` /
              `imprecise: <why>`; everything else is expected to hold (a flip = broken tie).
              `python -m harness.translate.gen --accept` rewrites it from the current tree.
zoo.py        how to construct and call every exported class (configurations incl. lazily resolved Nones)
snap.py, oracles.py   deep snapshots and the dynamic oracles shared by props/c05.py, c13.py, c06.py

What the summariser understands
-------------------------------
* assignments to `self.<attr>` (direct, augmented, `setattr`/`delattr` with a literal name, tuple targets),
  classified against the constructor-parameter list of the class (signature of the first `__init__` in the
  MRO, following `**kwargs` to `super().__init__`, plus every attribute a constructor assigns);
* aliases: locals / attributes bound without copy (`x = self.p`, `self.a_ = self.p`, tuple unpacking,
  `for x in it`, `enumerate`/`zip`/`.items()`, comprehensions, conditional expressions, `a or b`), shallow
  copies (`.copy()`, `dict()`, `list()`, `np.array`, `copy.copy`), deep copies (`clone`, `deepcopy`), newly
  built containers capturing references (`{...}`, `[...]`, constructor calls), subscript / attribute loads;
* in-place mutation through any such path: subscript store, attribute store on another object, augmented
  assignment, `out=`, `.update/.pop/.append/.extend/.insert/.remove/.clear/.setdefault/.sort/.fill/...`;
  `.fit/.partial_fit/.set_params/.fit_predict/.fit_transform` and `query/update/query_by_utility` receivers
  (a call on `self.<constructor parameter>` of a strategy method is `callInner`, everything else `callFit`);
* control flow: `if` (constant folding over string/bool/None constants that flow through inlined calls, so
  `_fit("fit", ...)` and `_fit("partial_fit", ...)` are told apart), early `return` (continuation re-nested),
  `raise` (`abort`: the path contributes nothing to later joins but must leave owned attributes owned),
  `for`/`while` (two nested iterations), `try/except` (body-or-nothing, handlers as alternatives), `with`,
  nested function definitions that are called directly;
* calls to methods of `self` (MRO-resolved, `super()`), static methods, module-level functions of the same
  module and functions imported from other skactiveml modules except `skactiveml.utils` validators, inlined
  with argument binding to depth 6 (recursion guarded);
* reads of non-parameter attributes (`self.a_`, `hasattr/getattr(self, "a_")`, sklearn's
  `check_n_features(self, X, reset=...)`), for history-freeness of `fit`; the idiom
  `if not hasattr(self, "a_"): self.a_ = <default>` is a conditional write, `if hasattr(...): X else: X` is X;
* RNG sites: `<gen>.<draw>(...)`, `random_state=<expr>` / `seed=<expr>` arguments, `np.random.*`, third-party
  classes that accept `random_state` (looked up in the installed package) constructed without it — also
  through a class-valued constructor parameter such as `self.cluster_algo(**cluster_algo_dict)` —, methods
  obtained by `getattr(obj, <parameter>)` and called without `random_state`, and public methods of helper
  objects of repo classes constructed in the method (their own tables are spliced in).

What it does not understand (over-approximated, dropped, or assumed)
---------------------------------------------------------------------
* numpy aliasing: slices/views vs copies are not distinguished; values known to be numeric (results of
  `np.*`, arithmetic, reductions) are treated as unable to hold references;
* results of prediction-like methods (`predict*`, `query`, `transform`, ...) and of unknown functions without
  reference arguments are new objects; unknown functions with reference arguments return a new object that
  may hold those references; a short list of functions may return their argument (`np.asarray`,
  `check_array`, `reshape`, ...);
* a value failing an `isinstance` test on a local / non-parameter attribute is treated as immutable;
* dynamic attribute names (`setattr(self, name, v)` is treated as a write to the first parameter),
  `exec`/`eval`, metaclasses, descriptors, properties defined outside the repo (reads of never-assigned
  attributes without trailing underscore are ignored), generators (`yield`), `global`/`nonlocal` state,
  mutation inside third-party callees of objects reachable from their arguments (only the receiver of
  fit-like calls is considered mutated), closures that capture `self` and are called later by third-party
  code, `return` inside loops (code after the loop is still summarised), more than two loop iterations
  (sound only when the abstract state is stable after the first iteration, which holds for the bit lattice
  whenever the second pass reports nothing new — not re-checked in Lean).
"""
