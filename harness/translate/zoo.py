"""Instance zoo: how to construct and call every class exported by
`skactiveml.pool` (+ `.multiannotator`), `skactiveml.stream` (+ `.budgetmanager`),
`skactiveml.classifier` (+ `.multiannotator`) and `skactiveml.regressor`.

Every entry of `CASES` is a `Case` (see the class docstring).  All callables
create NEW objects on every call (twins), except that `query_kwargs` /
`fit_kwargs` deliberately put the very arrays of `data` into the kwargs so a
caller can compare them byte-wise before/after a call.

Run `python -m harness.translate.zoo` for the self test.

Deliberately skipped classes
----------------------------
* `EstimatedBudgetZliobaite` is an abstract base class (`query_by_utility` is
  abstract, `inspect.isabstract` is True): it cannot be instantiated.
* Nothing exported by the four packages needs torch/skorch.

Placement note: `IntervalEstimationAnnotModel` is exported by
`skactiveml.pool.multiannotator` but is an estimator (fit /
predict_annotator_perf), so it is filed under family 'classifier_ma'.

Configurations that crash inside the library on the unchanged repo are listed
in `EXCLUDED` (with the exact exception) instead of `CASES`.
"""

import copy
import inspect
import sys
import time
from dataclasses import dataclass
from typing import Callable, Optional

import numpy as np

from sklearn.ensemble import BaggingClassifier, BaggingRegressor
from sklearn.gaussian_process import GaussianProcessRegressor
from sklearn.linear_model import (
    BayesianRidge,
    LinearRegression,
    LogisticRegression,
    SGDRegressor,
)
from sklearn.metrics import mean_absolute_error
from sklearn.metrics.pairwise import pairwise_distances
from sklearn.mixture import BayesianGaussianMixture, GaussianMixture
from sklearn.naive_bayes import GaussianNB
from sklearn.tree import DecisionTreeRegressor

import skactiveml.pool as _pool
import skactiveml.pool.multiannotator as _pool_ma
import skactiveml.stream as _stream
import skactiveml.stream.budgetmanager as _bm
from skactiveml.classifier import (
    MixtureModelClassifier,
    ParzenWindowClassifier,
    SklearnClassifier,
    SlidingWindowClassifier,
)
from skactiveml.classifier.multiannotator import (
    AnnotatorEnsembleClassifier,
    AnnotatorLogisticRegression,
)
from skactiveml.regressor import (
    NICKernelRegressor,
    NadarayaWatsonRegressor,
    SklearnNormalRegressor,
    SklearnRegressor,
)

NAN = np.nan
CLASSES = [0, 1]
FAMILIES = (
    "pool",
    "pool_ma",
    "stream",
    "budget",
    "classifier",
    "classifier_ma",
    "regressor",
)


@dataclass
class Case:
    """One way of constructing + calling one exported class.

    family, cls_name, config, build, lazy_none: see module docstring / task.
    pool / pool_ma : models(), data(seed), cand_modes,
                     query_kwargs(data, models, cand_mode)
    stream         : models(), data(seed), query_kwargs(data, models, chunk),
                     update_kwargs(data, models, chunk, queried_indices,
                                   utilities=None)
                     If `update_needs_utilities` is True the budget manager's
                     update needs the utilities returned by the preceding
                     query (BalancedIncrementalQuantileFilter): pass them as
                     the optional 5th argument.
    budget         : data(seed), query_kwargs(data, chunk),
                     update_kwargs(data, chunk, queried_indices)
    estimators     : data(seed), fit_kwargs(data, which),
                     partial_fit_kwargs(data, which) or None,
                     predict_methods, dist_methods
    """

    family: str
    cls_name: str
    config: str
    build: Callable
    lazy_none: tuple = ()
    models: Optional[Callable] = None
    data: Optional[Callable] = None
    cand_modes: tuple = ()
    query_kwargs: Optional[Callable] = None
    update_kwargs: Optional[Callable] = None
    update_needs_utilities: bool = False
    fit_kwargs: Optional[Callable] = None
    partial_fit_kwargs: Optional[Callable] = None
    predict_methods: tuple = ()
    dist_methods: tuple = ()
    note: str = ""

    @property
    def key(self):
        return f"{self.family}/{self.cls_name}/{self.config}"


CASES = []
# (family, cls_name, config, reason) of configurations consciously left out.
EXCLUDED = []


def _add(**kw):
    c = Case(**kw)
    for o in CASES:
        if o.key == c.key:
            raise ValueError(f"duplicate case {c.key}")
    CASES.append(c)
    return c


# --------------------------------------------------------------------------
# tiny deterministic data
# --------------------------------------------------------------------------
def _q(a):
    """Round to multiples of 1/8 (dyadic), C-contiguous float64."""
    return np.ascontiguousarray(np.round(np.asarray(a, dtype=float) * 8) / 8)


def _distinct(rng, centers, scale, forbid=None):
    """(len(centers), 2) dyadic points, pairwise distinct rows (and distinct
    from the rows of `forbid`)."""
    centers = np.asarray(centers, dtype=float)
    seen = set() if forbid is None else {tuple(r) for r in forbid}
    rows = []
    for c in centers:
        while True:
            p = tuple(_q(c + scale * rng.randn(2)))
            if p not in seen:
                seen.add(p)
                rows.append(p)
                break
    return np.ascontiguousarray(np.array(rows, dtype=float))


_CENTERS = np.array([[-1.0, -1.0], [1.0, 1.0]])


def _pool_base(seed):
    rng = np.random.RandomState(seed)
    n = 14
    cls = np.array([0, 1] * (n // 2))
    X = _distinct(rng, _CENTERS[cls], 0.75)
    lab = np.concatenate(
        [
            rng.choice(np.where(cls == 0)[0], 3, replace=False),
            rng.choice(np.where(cls == 1)[0], 4, replace=False),
        ]
    )
    unl = np.setdiff1d(np.arange(n), lab)
    cand_idx = np.ascontiguousarray(rng.permutation(unl)[:5].astype(int))
    cand_arr = _distinct(rng, _CENTERS[[0, 1, 0, 1, 0]], 1.0, forbid=X)
    X_eval = _distinct(
        rng, _CENTERS[[0, 1, 0, 1]], 1.0, forbid=np.vstack([X, cand_arr])
    )
    d = {
        "X": X,
        "cls_true": cls.astype(float),
        "labeled_idx": np.sort(lab),
        "cand_idx": cand_idx,
        "cand_arr": cand_arr,
        "X_eval": X_eval,
        "sample_weight": np.ones(n),
        "sample_weight_cand": np.ones(len(cand_arr)),
        "sample_weight_eval": np.ones(len(X_eval)),
        "utility_weight": np.ones(n),
        "utility_weight_cand": np.ones(len(cand_arr)),
        # for SubSamplingWrapper with array candidates (sub-sample sizes 1, 4)
        "utility_weight_sub1": np.ones(1),
        "utility_weight_sub4": np.ones(4),
    }
    return rng, d


def pool_clf_data(seed):
    """14 samples, 2 features, 7 labeled (3x class 0, 4x class 1), 7 missing."""
    rng, d = _pool_base(seed)
    y = np.full(len(d["X"]), NAN)
    y[d["labeled_idx"]] = d["cls_true"][d["labeled_idx"]]
    d["y"] = y
    return d


def pool_reg_data(seed):
    """Same X as `pool_clf_data`, dyadic real targets on the 7 labeled rows."""
    rng, d = _pool_base(seed)
    X = d["X"]
    y_true = _q(X[:, 0] - 0.5 * X[:, 1] + 0.25 * rng.randn(len(X)))
    y = np.full(len(X), NAN)
    y[d["labeled_idx"]] = y_true[d["labeled_idx"]]
    d["y_true"] = y_true
    d["y"] = y
    return d


def pool_ma_data(seed):
    """Multi-annotator variant: y has shape (14, 3). Labeled rows: annotator 0
    always correct, annotator 1 partly wrong, annotator 2 labels only some
    rows.  The 7 unlabeled rows are missing for all annotators."""
    rng, d = _pool_base(seed)
    n = len(d["X"])
    lab = d["labeled_idx"]
    t = d["cls_true"]
    y = np.full((n, 3), NAN)
    y[lab, 0] = t[lab]
    y[lab, 1] = t[lab]
    y[lab[::3], 1] = 1 - t[lab[::3]]
    y[lab[1::2], 2] = t[lab[1::2]]
    d["y"] = np.ascontiguousarray(y)
    d["sample_weight"] = np.ones((n, 3))
    d["A_perf"] = np.array([0.75, 0.5, 0.25])
    return d


def stream_data(seed, sizes=(1, 3, 2, 4)):
    rng = np.random.RandomState(seed)
    cls = np.array([0, 1] * 5)
    X_train = _distinct(rng, _CENTERS[cls], 0.75)
    chunks, forbid = [], X_train
    for m in sizes:
        c = _distinct(rng, _CENTERS[rng.randint(0, 2, size=m)], 1.0, forbid)
        forbid = np.vstack([forbid, c])
        chunks.append(c)
    return {
        "X_train": X_train,
        "y_train": cls.astype(float),
        "sample_weight": np.ones(len(X_train)),
        "chunks": chunks,
        "utility_weights": [np.ones(len(c)) for c in chunks],
    }


def stream_data_single(seed):
    """Five chunks of ONE candidate each (see EXCLUDED: CognitiveDual*)."""
    return stream_data(seed, sizes=(1, 1, 1, 1, 1))


def budget_data(seed):
    rng = np.random.RandomState(seed)
    sizes = [1, 3, 2, 4, 1]
    return {"utility_chunks": [_q(rng.rand(m)) for m in sizes]}


def _est_X(rng):
    cls = np.array([0, 1] * 6)
    X1 = _distinct(rng, _CENTERS[cls], 0.5)
    # second set: mirrored class positions and different spread
    X2 = _distinct(rng, (-1.5 * _CENTERS)[cls] + [0.5, 0.0], 0.75, forbid=X1)
    X_test = _distinct(
        rng, [[-1, -1], [1, 1], [0, 0], [-1.5, 1], [1, -0.5]], 0.25,
        forbid=np.vstack([X1, X2]),
    )
    sw1 = rng.choice([0.5, 1.0, 2.0], size=len(X1))
    sw2 = rng.choice([0.5, 1.0, 2.0], size=len(X2))
    return cls.astype(float), X1, X2, X_test, sw1, sw2


def clf_data(seed):
    """Two different training sets (12 samples each, labels {0,1}, 3 missing
    each) and 5 test samples."""
    rng = np.random.RandomState(seed)
    cls, X1, X2, X_test, sw1, sw2 = _est_X(rng)
    y1, y2 = cls.copy(), cls.copy()
    y1[[2, 7, 10]] = NAN
    y2[[1, 4, 9]] = NAN
    return {
        "X1": X1, "y1": y1, "sw1": sw1,
        "X2": X2, "y2": y2, "sw2": sw2,
        "X_test": X_test,
    }


def clf_ma_data(seed):
    rng = np.random.RandomState(seed)
    cls, X1, X2, X_test, sw1, sw2 = _est_X(rng)

    def annot(t, miss_rows, flip_rows, sparse_start):
        y = np.full((len(t), 3), NAN)
        y[:, 0] = t
        y[:, 1] = t
        y[flip_rows, 1] = 1 - t[flip_rows]
        y[sparse_start::2, 2] = t[sparse_start::2]
        y[miss_rows, :] = NAN
        return np.ascontiguousarray(y)

    return {
        "X1": X1, "y1": annot(cls, [2, 7], [0, 5, 9], 0),
        "sw1": np.ascontiguousarray(np.tile(sw1[:, None], (1, 3))),
        "X2": X2, "y2": annot(cls, [1, 4], [3, 6, 8, 11], 1),
        "sw2": np.ascontiguousarray(np.tile(sw2[:, None], (1, 3))),
        "X_test": X_test,
    }


def clf_ma_data_rows_labeled(seed):
    """Like `clf_ma_data`, but every row carries at least one annotation
    (only single annotator entries are missing)."""
    rng = np.random.RandomState(seed)
    cls, X1, X2, X_test, sw1, sw2 = _est_X(rng)

    def annot(t, flip_rows, sparse_start):
        y = np.full((len(t), 3), NAN)
        y[:, 0] = t
        y[:, 1] = t
        y[flip_rows, 1] = 1 - t[flip_rows]
        y[sparse_start::2, 2] = t[sparse_start::2]
        y[sparse_start + 1::4, 0] = NAN
        return np.ascontiguousarray(y)

    return {
        "X1": X1, "y1": annot(cls, [0, 5, 9], 0),
        "sw1": np.ascontiguousarray(np.tile(sw1[:, None], (1, 3))),
        "X2": X2, "y2": annot(cls, [3, 6, 8, 11], 1),
        "sw2": np.ascontiguousarray(np.tile(sw2[:, None], (1, 3))),
        "X_test": X_test,
    }


def reg_data(seed):
    rng = np.random.RandomState(seed)
    _, X1, X2, X_test, sw1, sw2 = _est_X(rng)
    y1 = _q(X1[:, 0] + 0.5 * X1[:, 1] + 0.125 * rng.randn(len(X1)))
    y2 = _q(3.0 - 2.0 * X2[:, 0] + 0.125 * rng.randn(len(X2)))
    y1[[2, 7, 10]] = NAN
    y2[[1, 4, 9]] = NAN
    return {
        "X1": X1, "y1": y1, "sw1": sw1,
        "X2": X2, "y2": y2, "sw2": sw2,
        "X_test": X_test,
    }


# --------------------------------------------------------------------------
# light models (always new objects)
# --------------------------------------------------------------------------
def pwc(**kw):
    kw.setdefault("classes", list(CLASSES))
    kw.setdefault("random_state", 0)
    return ParzenWindowClassifier(**kw)


def sk_lr(**kw):
    kw.setdefault("classes", list(CLASSES))
    kw.setdefault("random_state", 0)
    return SklearnClassifier(LogisticRegression(max_iter=50), **kw)


def sk_gnb(**kw):
    kw.setdefault("classes", list(CLASSES))
    kw.setdefault("random_state", 0)
    return SklearnClassifier(GaussianNB(), **kw)


def sk_bagging_clf():
    return SklearnClassifier(
        BaggingClassifier(GaussianNB(), n_estimators=3, random_state=0),
        classes=list(CLASSES),
        random_state=0,
    )


def sk_linreg():
    return SklearnRegressor(LinearRegression(), random_state=0)


def sk_tree_reg():
    return SklearnRegressor(
        DecisionTreeRegressor(min_samples_leaf=2, random_state=0),
        random_state=0,
    )


def sk_tree_reg3():
    return SklearnRegressor(
        DecisionTreeRegressor(min_samples_leaf=3, random_state=0),
        random_state=0,
    )


def sk_bagging_reg():
    return SklearnRegressor(
        BaggingRegressor(LinearRegression(), n_estimators=3, random_state=0),
        random_state=0,
    )


def nic(**kw):
    kw.setdefault("random_state", 0)
    return NICKernelRegressor(**kw)


def mmc_gmm():
    return MixtureModelClassifier(
        mixture_model=GaussianMixture(n_components=2, random_state=0),
        classes=list(CLASSES),
        random_state=0,
    )


def annot_lr():
    return AnnotatorLogisticRegression(
        classes=list(CLASSES), max_iter=20, random_state=0
    )


def annot_ens():
    return AnnotatorEnsembleClassifier(
        estimators=[(f"pwc{i}", pwc()) for i in range(3)],
        classes=list(CLASSES),
        voting="soft",
        random_state=0,
    )


def poly_feature_map(X):
    X = np.asarray(X, dtype=float)
    return np.hstack([X, X * X])


def abs_loss(y_a, y_b):
    return mean_absolute_error(y_a, y_b)


def first_annotator(y):
    """y_aggregate callable for SingleAnnotatorWrapper."""
    return np.asarray(y)[:, 0].copy()


def manhattan_dist(X, Y=None, **kw):
    return pairwise_distances(X, Y, metric="manhattan")


# --------------------------------------------------------------------------
# pool / pool_ma helpers
# --------------------------------------------------------------------------
ALL_MODES = ("none", "idx", "arr")
MAPPED = ("none", "idx")  # strategies using enforce_mapping=True reject 'arr'


def _cands(data, cand_mode):
    if cand_mode == "none":
        return None
    if cand_mode == "idx":
        return data["cand_idx"]
    if cand_mode == "arr":
        return data["cand_arr"]
    raise ValueError(cand_mode)


def pool_qk(cls, batch_size=2, sw=True, sw_arr=True, uw=True, extra=None):
    """Generic query_kwargs builder driven by the signature of `cls.query`."""
    sig = set(inspect.signature(cls.query).parameters)

    def query_kwargs(data, models, cand_mode):
        kw = {"X": data["X"], "y": data["y"]}
        kw["candidates"] = _cands(data, cand_mode)
        kw.update(models)
        for flag in ("fit_clf", "fit_reg", "fit_ensemble"):
            if flag in sig:
                kw[flag] = True
        if sw and "sample_weight" in sig and (sw_arr or cand_mode != "arr"):
            kw["sample_weight"] = data["sample_weight"]
            if "sample_weight_candidates" in sig and cand_mode == "arr":
                kw["sample_weight_candidates"] = data["sample_weight_cand"]
        if uw and "utility_weight" in sig:
            kw["utility_weight"] = (
                data["utility_weight_cand"]
                if cand_mode == "arr"
                else data["utility_weight"]
            )
        kw["batch_size"] = batch_size
        kw["return_utilities"] = True
        if extra is not None:
            kw.update(extra(data, models, cand_mode))
        return kw

    return query_kwargs


def _mk(cls, **params):
    """build() factory: params values that are callables tagged with
    `_fresh` are called on every build so that mutable arguments (dicts,
    estimators, budget managers) are never shared between twins."""

    def build():
        p = {
            k: (v() if getattr(v, "_fresh", False) else copy.deepcopy(v))
            for k, v in params.items()
        }
        return cls(**p)

    return build


def fresh(fn):
    """Mark a zero-arg callable: evaluate it anew on every build()."""

    def g():
        return fn()

    g._fresh = True
    return g


def _rs(cls, params):
    if "random_state" in inspect.signature(cls.__init__).parameters:
        params.setdefault("random_state", 0)
    return params


# These strategies raise "If `sample_weight` is not `None` a mapping between
# candidates and the training dataset must exist." -> for cand_mode 'arr' the
# kwargs contain no sample_weight.
_NO_SW_WITH_ARRAY_CANDIDATES = {
    "ExpectedModelOutputChange",
    "ExpectedModelVarianceReduction",
    "KLDivergenceMaximization",
}


def pool_case(
    cls,
    config,
    params=None,
    models=None,
    data=pool_clf_data,
    modes=ALL_MODES,
    lazy_none=(),
    family="pool",
    note="",
    **qk,
):
    params = _rs(cls, dict(params or {}))
    if cls.__name__ in _NO_SW_WITH_ARRAY_CANDIDATES:
        qk.setdefault("sw_arr", False)
    return _add(
        family=family,
        cls_name=cls.__name__,
        config=config,
        build=_mk(cls, **params),
        lazy_none=tuple(lazy_none),
        models=(models if models is not None else (lambda: {})),
        data=data,
        cand_modes=tuple(modes),
        query_kwargs=pool_qk(cls, **qk),
        note=note,
    )


def M(**factories):
    """models() factory: M(clf=pwc) -> lambda: {'clf': pwc()}"""
    return lambda: {k: f() for k, f in factories.items()}


P = _pool

# --------------------------------------------------------------------------
# pool cases
# --------------------------------------------------------------------------
COST = fresh(lambda: np.array([[0.0, 1.0], [2.0, 0.0]]))
SEEDED = fresh(lambda: {"random_state": 0})
SEEDED_N1 = fresh(lambda: {"random_state": 0, "n_init": 1})

# RandomSampling ------------------------------------------------------------
pool_case(P.RandomSampling, "default")
pool_case(P.RandomSampling, "reg-targets", data=pool_reg_data)

# ProbabilisticAL -----------------------------------------------------------
pool_case(P.ProbabilisticAL, "default", models=M(clf=pwc),
          lazy_none=("metric", "metric_dict"))
pool_case(P.ProbabilisticAL, "metric-rbf", {"metric": "rbf"},
          models=M(clf=pwc), lazy_none=("metric_dict",))
pool_case(P.ProbabilisticAL, "metric-rbf-gamma-mean",
          {"metric": "rbf", "metric_dict": fresh(lambda: {"gamma": "mean"})},
          models=M(clf=pwc))
pool_case(P.ProbabilisticAL, "metric-rbf-gamma-0.5",
          {"metric": "rbf", "metric_dict": fresh(lambda: {"gamma": 0.5})},
          models=M(clf=pwc))
pool_case(P.ProbabilisticAL, "metric-rbf-clf-lr", {"metric": "rbf"},
          models=M(clf=sk_lr), lazy_none=("metric_dict",))
pool_case(P.ProbabilisticAL, "prior-0.5-m_max-2", {"prior": 0.5, "m_max": 2},
          models=M(clf=pwc), lazy_none=("metric", "metric_dict"))

# UncertaintySampling -------------------------------------------------------
pool_case(P.UncertaintySampling, "default", models=M(clf=pwc),
          lazy_none=("cost_matrix",))
for _m in ("margin_sampling", "entropy", "expected_average_precision"):
    pool_case(P.UncertaintySampling, f"method-{_m}", {"method": _m},
              models=M(clf=pwc), lazy_none=("cost_matrix",))
for _m in ("least_confident", "margin_sampling"):
    pool_case(P.UncertaintySampling, f"method-{_m}-cost",
              {"method": _m, "cost_matrix": COST}, models=M(clf=pwc))
pool_case(P.UncertaintySampling, "clf-lr", models=M(clf=sk_lr),
          lazy_none=("cost_matrix",))
pool_case(P.UncertaintySampling, "clf-gnb", models=M(clf=sk_gnb),
          lazy_none=("cost_matrix",))
pool_case(P.UncertaintySampling, "method-entropy-clf-lr",
          {"method": "entropy"}, models=M(clf=sk_lr),
          lazy_none=("cost_matrix",))

# EpistemicUncertaintySampling ---------------------------------------------
pool_case(P.EpistemicUncertaintySampling, "default", models=M(clf=pwc))
pool_case(P.EpistemicUncertaintySampling, "precompute", {"precompute": True},
          models=M(clf=pwc))
pool_case(P.EpistemicUncertaintySampling, "clf-lr", models=M(clf=sk_lr))

# MonteCarloEER --------------------------------------------------------------
pool_case(P.MonteCarloEER, "default", models=M(clf=pwc),
          lazy_none=("cost_matrix",))
pool_case(P.MonteCarloEER, "method-log_loss", {"method": "log_loss"},
          models=M(clf=pwc), lazy_none=("cost_matrix",))
pool_case(P.MonteCarloEER, "cost_matrix", {"cost_matrix": COST},
          models=M(clf=pwc))
pool_case(P.MonteCarloEER, "subtract_current", {"subtract_current": True},
          models=M(clf=pwc), lazy_none=("cost_matrix",))
pool_case(P.MonteCarloEER, "clf-gnb-partial_fit", models=M(clf=sk_gnb),
          lazy_none=("cost_matrix",),
          extra=lambda d, m, c: {"ignore_partial_fit": False})
pool_case(P.MonteCarloEER, "X_eval", models=M(clf=pwc),
          lazy_none=("cost_matrix",),
          extra=lambda d, m, c: {"X_eval": d["X_eval"],
                                 "sample_weight_eval": d["sample_weight_eval"]})

# ValueOfInformationEER ----------------------------------------------------
pool_case(P.ValueOfInformationEER, "default", models=M(clf=pwc),
          modes=MAPPED, lazy_none=("cost_matrix",))
pool_case(P.ValueOfInformationEER, "cost_matrix", {"cost_matrix": COST},
          models=M(clf=pwc), modes=MAPPED)
for _k, _v in (("consider_unlabeled", False), ("consider_labeled", False),
               ("candidate_to_labeled", False), ("subtract_current", True),
               ("normalize", True)):
    pool_case(P.ValueOfInformationEER, f"{_k}-{_v}", {_k: _v},
              models=M(clf=pwc), modes=MAPPED, lazy_none=("cost_matrix",))
pool_case(P.ValueOfInformationEER, "clf-gnb-partial_fit", models=M(clf=sk_gnb),
          modes=MAPPED, lazy_none=("cost_matrix",),
          extra=lambda d, m, c: {"ignore_partial_fit": False})

# QueryByCommittee ------------------------------------------------------------
_QBC_LAZY = ("sample_predictions_method_name", "sample_predictions_dict")
_clf_list = lambda: [pwc(), sk_gnb(), sk_lr()]  # noqa: E731
_reg_list = lambda: [sk_linreg(), nic(), sk_tree_reg()]  # noqa: E731
pool_case(P.QueryByCommittee, "default", models=M(ensemble=_clf_list),
          lazy_none=_QBC_LAZY)
for _m in ("vote_entropy", "variation_ratios"):
    pool_case(P.QueryByCommittee, f"method-{_m}", {"method": _m},
              models=M(ensemble=_clf_list), lazy_none=_QBC_LAZY)
for _m in ("KL_divergence", "vote_entropy", "variation_ratios"):
    pool_case(P.QueryByCommittee, f"bagging-{_m}", {"method": _m},
              models=M(ensemble=sk_bagging_clf), lazy_none=_QBC_LAZY)
# 'seeded' / 'unseeded': whether the sampling call itself gets a random_state
# (the strategies do not forward their own random_state to `sample_proba` /
# `sample_y`, so the unseeded variants are not reproducible).
_SP_SEEDED = fresh(lambda: {"n_samples": 4, "random_state": 0})
_SP_UNSEEDED = fresh(lambda: {"n_samples": 4})
pool_case(P.QueryByCommittee, "sample_proba-seeded",
          {"sample_predictions_method_name": "sample_proba",
           "sample_predictions_dict": _SP_SEEDED},
          models=M(ensemble=pwc))
pool_case(P.QueryByCommittee, "sample_proba-unseeded",
          {"sample_predictions_method_name": "sample_proba",
           "sample_predictions_dict": _SP_UNSEEDED},
          models=M(ensemble=pwc))
# a committee of kernel classifiers with their own generators (members break prediction ties randomly; seed R7C06)
_pwc_list = lambda: [pwc(random_state=k, metric_dict={"gamma": g}) for k, g in ((1, 0.5), (2, 1.0), (3, 2.0), (4, 4.0))]  # noqa: E731
for _m in ("vote_entropy", "variation_ratios"):
    pool_case(P.QueryByCommittee, f"pwc-committee-{_m}", {"method": _m},
              models=M(ensemble=_pwc_list), lazy_none=_QBC_LAZY)
pool_case(P.QueryByCommittee, "reg-list", models=M(ensemble=_reg_list),
          data=pool_reg_data, lazy_none=_QBC_LAZY)
pool_case(P.QueryByCommittee, "reg-bagging", models=M(ensemble=sk_bagging_reg),
          data=pool_reg_data, lazy_none=_QBC_LAZY)
pool_case(P.QueryByCommittee, "reg-sample_y-seeded",
          {"sample_predictions_method_name": "sample_y",
           "sample_predictions_dict": _SP_SEEDED},
          models=M(ensemble=nic), data=pool_reg_data)
pool_case(P.QueryByCommittee, "reg-sample_y-unseeded",
          {"sample_predictions_method_name": "sample_y",
           "sample_predictions_dict": _SP_UNSEEDED},
          models=M(ensemble=nic), data=pool_reg_data)

# BatchBALD / GreedyBALD -----------------------------------------------------
for _C in (P.BatchBALD, P.GreedyBALD):
    _lz = ("n_MC_samples",) + _QBC_LAZY
    pool_case(_C, "default", models=M(ensemble=_clf_list), lazy_none=_lz)
    pool_case(_C, "bagging", models=M(ensemble=sk_bagging_clf), lazy_none=_lz)
    pool_case(_C, "n_MC_samples-3", {"n_MC_samples": 3},
              models=M(ensemble=_clf_list), lazy_none=_QBC_LAZY)
    pool_case(_C, "sample_proba-seeded",
              {"sample_predictions_method_name": "sample_proba",
               "sample_predictions_dict": _SP_SEEDED},
              models=M(ensemble=pwc), lazy_none=("n_MC_samples",))
    pool_case(_C, "sample_proba-unseeded",
              {"sample_predictions_method_name": "sample_proba",
               "sample_predictions_dict": _SP_UNSEEDED},
              models=M(ensemble=pwc), lazy_none=("n_MC_samples",))

# Quire ---------------------------------------------------------------------
pool_case(P.Quire, "default", {"classes": CLASSES}, modes=MAPPED,
          lazy_none=("metric_dict",))
pool_case(P.Quire, "gamma-0.5",
          {"classes": CLASSES, "metric_dict": fresh(lambda: {"gamma": 0.5})},
          modes=MAPPED)
pool_case(P.Quire, "lmbda-0.5-linear",
          {"classes": CLASSES, "lmbda": 0.5, "metric": "linear"},
          modes=MAPPED, lazy_none=("metric_dict",))



def pool_kernel_data(seed):
    """`pool_clf_data` with X replaced by its (float64, C-contiguous) RBF kernel matrix: `metric='precomputed'`."""
    from sklearn.metrics.pairwise import rbf_kernel

    d = pool_clf_data(seed)
    d["X"] = np.ascontiguousarray(rbf_kernel(d["X"], d["X"], gamma=0.5), dtype=float)
    return d


pool_case(P.Quire, "precomputed-kernel",
          {"classes": CLASSES, "metric": "precomputed"},
          data=pool_kernel_data, modes=MAPPED, lazy_none=("metric_dict",))

# FourDs --------------------------------------------------------------------
pool_case(P.FourDs, "default", models=M(clf=mmc_gmm), lazy_none=("lmbda",))
pool_case(P.FourDs, "lmbda-0.5", {"lmbda": 0.5}, models=M(clf=mmc_gmm))
pool_case(P.FourDs, "clf-mixture-None",
          models=M(clf=lambda: MixtureModelClassifier(classes=list(CLASSES),
                                                      random_state=0)),
          lazy_none=("lmbda",))

# CostEmbeddingAL -------------------------------------------------------------
_CE_LAZY = ("base_regressor", "cost_matrix", "embed_dim", "mds_params",
            "nn_params")
pool_case(P.CostEmbeddingAL, "default", {"classes": CLASSES},
          lazy_none=_CE_LAZY)
pool_case(P.CostEmbeddingAL, "cost_matrix",
          {"classes": CLASSES, "cost_matrix": COST},
          lazy_none=tuple(x for x in _CE_LAZY if x != "cost_matrix"))
pool_case(P.CostEmbeddingAL, "explicit-all",
          {"classes": CLASSES, "cost_matrix": COST, "embed_dim": 2,
           "base_regressor": fresh(lambda: LinearRegression()),
           "mds_params": fresh(lambda: {"n_init": 1, "max_iter": 30}),
           "nn_params": fresh(lambda: {"algorithm": "brute"})})

# DiscriminativeAL -----------------------------------------------------------
pool_case(P.DiscriminativeAL, "default",
          models=M(discriminator=lambda: pwc(classes=None)), modes=MAPPED)
pool_case(P.DiscriminativeAL, "greedy", {"greedy_selection": True},
          models=M(discriminator=lambda: pwc(classes=None)), modes=MAPPED)
pool_case(P.DiscriminativeAL, "discriminator-lr",
          models=M(discriminator=lambda: sk_lr(classes=None)), modes=MAPPED)

# Clue / DropQuery / TypiClust / ProbCover (KMeans inside) --------------------
pool_case(P.Clue, "seeded", {"cluster_algo_dict": SEEDED},
          models=M(clf=pwc), modes=MAPPED)
pool_case(P.Clue, "unseeded", models=M(clf=pwc), modes=MAPPED,
          lazy_none=("cluster_algo_dict",))
for _m in ("least_confident", "margin_sampling"):
    pool_case(P.Clue, f"seeded-method-{_m}",
              {"cluster_algo_dict": SEEDED_N1, "method": _m},
              models=M(clf=pwc), modes=MAPPED)
pool_case(P.Clue, "seeded-clf-lr", {"cluster_algo_dict": SEEDED},
          models=M(clf=sk_lr), modes=MAPPED)

# a caller-owned clustering dict without `random_state`: the strategy has to add its per-call seed to a copy (seed R9C06)
_NINIT = fresh(lambda: {"n_init": 1})
pool_case(P.Clue, "dict-without-seed", {"cluster_algo_dict": _NINIT}, models=M(clf=pwc), modes=MAPPED)
pool_case(P.TypiClust, "dict-without-seed", {"cluster_algo_dict": _NINIT}, modes=MAPPED)
pool_case(P.ProbCover, "dict-without-seed", {"cluster_algo_dict": _NINIT}, modes=MAPPED, lazy_none=("n_classes", "deltas"))
pool_case(P.DropQuery, "dict-without-seed", {"cluster_algo_dict": _NINIT}, models=M(clf=pwc), modes=MAPPED)
pool_case(P.DropQuery, "seeded", {"cluster_algo_dict": SEEDED},
          models=M(clf=pwc), modes=MAPPED)
pool_case(P.DropQuery, "unseeded", models=M(clf=pwc), modes=MAPPED,
          lazy_none=("cluster_algo_dict",))
pool_case(P.DropQuery, "seeded-rate-0.5-n-3",
          {"cluster_algo_dict": SEEDED_N1, "dropout_rate": 0.5,
           "n_dropout_samples": 3},
          models=M(clf=sk_lr), modes=MAPPED)

pool_case(P.TypiClust, "seeded", {"cluster_algo_dict": SEEDED}, modes=MAPPED)
pool_case(P.TypiClust, "unseeded", modes=MAPPED,
          lazy_none=("cluster_algo_dict",))
pool_case(P.TypiClust, "seeded-k-2",
          {"cluster_algo_dict": SEEDED_N1, "k": 2}, modes=MAPPED)
pool_case(P.TypiClust, "seeded-reg-targets", {"cluster_algo_dict": SEEDED},
          data=pool_reg_data, modes=MAPPED)

_PC_LAZY = ("n_classes", "deltas")
pool_case(P.ProbCover, "seeded", {"cluster_algo_dict": SEEDED}, modes=MAPPED,
          lazy_none=_PC_LAZY)
pool_case(P.ProbCover, "unseeded", modes=MAPPED,
          lazy_none=_PC_LAZY + ("cluster_algo_dict",))
pool_case(P.ProbCover, "seeded-n_classes-2-deltas",
          {"cluster_algo_dict": SEEDED_N1, "n_classes": 2,
           "deltas": fresh(lambda: [0.5, 1.0, 1.5]), "alpha": 0.75},
          modes=MAPPED)
# array-valued constructor parameter handed over as a caller-owned float64 ndarray in no particular order (seed R7C05)
pool_case(P.ProbCover, "seeded-deltas-ndarray",
          {"cluster_algo_dict": SEEDED_N1, "n_classes": 2,
           "deltas": fresh(lambda: np.array([1.5, 0.5, 1.25, 1.0])), "alpha": 0.75},
          modes=MAPPED)
pool_case(P.ProbCover, "seeded-update", {"cluster_algo_dict": SEEDED},
          modes=MAPPED, lazy_none=_PC_LAZY,
          extra=lambda d, m, c: {"update": True})

# CoreSet / Badge / Falcun / ContrastiveAL -----------------------------------
pool_case(P.CoreSet, "default")
pool_case(P.Badge, "default", models=M(clf=sk_lr),
          lazy_none=("clf_embedding_flag_name",))
pool_case(P.Badge, "clf-pwc", models=M(clf=pwc),
          lazy_none=("clf_embedding_flag_name",))
pool_case(P.Falcun, "default", models=M(clf=pwc))
pool_case(P.Falcun, "gamma-1-clf-lr", {"gamma": 1}, models=M(clf=sk_lr))
pool_case(P.ContrastiveAL, "default", models=M(clf=pwc),
          lazy_none=("nearest_neighbors_dict", "clf_embedding_flag_name"))
pool_case(P.ContrastiveAL, "nn-explicit",
          {"nearest_neighbors_dict": fresh(lambda: {"n_neighbors": 2})},
          models=M(clf=pwc), lazy_none=("clf_embedding_flag_name",))
pool_case(P.ContrastiveAL, "nn-explicit-clf-lr",
          {"nearest_neighbors_dict": fresh(lambda: {"n_neighbors": 3})},
          models=M(clf=sk_lr), lazy_none=("clf_embedding_flag_name",))

# regression strategies --------------------------------------------------------
RD = pool_reg_data
pool_case(P.ExpectedModelChangeMaximization, "default", models=M(reg=sk_linreg),
          data=RD, lazy_none=("feature_map",))
pool_case(P.ExpectedModelChangeMaximization, "feature_map-explicit",
          {"feature_map": poly_feature_map}, models=M(reg=sk_linreg), data=RD)
EXCLUDED.append((
    "pool", "ExpectedModelChangeMaximization", "n_train-5 (documented int)",
    "ValueError: `n_train` has value `<class 'int'>`, but must have a value "
    "between zero and one ... (operator precedence in _bootstrap_estimators: "
    "every int n_train > 1 is rejected)"))
pool_case(P.ExpectedModelChangeMaximization, "ord-1-bootstrap-2-n_train-0.25",
          {"ord": 1, "bootstrap_size": 2, "n_train": 0.25},
          models=M(reg=nic), data=RD, lazy_none=("feature_map",))

_INT_Q = fresh(lambda: {"method": "quantile", "quantile_method": "trapezoid",
                        "n_integration_samples": 3})
_INT_GH = fresh(lambda: {"method": "gauss_hermite",
                         "n_integration_samples": 3})
_INT_MC = fresh(lambda: {"method": "monte_carlo", "n_integration_samples": 3})
_INT_LIN = fresh(lambda: {"method": "assume_linear"})

pool_case(P.ExpectedModelOutputChange, "default", models=M(reg=nic), data=RD,
          lazy_none=("integration_dict", "loss"))
pool_case(P.ExpectedModelOutputChange, "integration-explicit",
          {"integration_dict": _INT_GH}, models=M(reg=nic), data=RD,
          lazy_none=("loss",))
pool_case(P.ExpectedModelOutputChange, "loss-explicit", {"loss": abs_loss},
          models=M(reg=nic), data=RD, lazy_none=("integration_dict",))
pool_case(P.ExpectedModelOutputChange, "integration-monte_carlo-loss-explicit",
          {"integration_dict": _INT_MC, "loss": abs_loss},
          models=M(reg=nic), data=RD)
pool_case(P.ExpectedModelOutputChange, "X_eval", models=M(reg=nic), data=RD,
          lazy_none=("integration_dict", "loss"),
          extra=lambda d, m, c: {"X_eval": d["X_eval"]})

pool_case(P.ExpectedModelVarianceReduction, "default", models=M(reg=nic),
          data=RD, lazy_none=("integration_dict",))
pool_case(P.ExpectedModelVarianceReduction, "integration-explicit",
          {"integration_dict": _INT_GH}, models=M(reg=nic), data=RD)
pool_case(P.ExpectedModelVarianceReduction, "integration-quantile",
          {"integration_dict": _INT_Q}, models=M(reg=nic), data=RD)
pool_case(P.ExpectedModelVarianceReduction, "X_eval", models=M(reg=nic),
          data=RD, lazy_none=("integration_dict",),
          extra=lambda d, m, c: {"X_eval": d["X_eval"]})

_KL_LAZY = ("integration_dict_target_val", "integration_dict_cross_entropy")
pool_case(P.KLDivergenceMaximization, "default", models=M(reg=nic), data=RD,
          lazy_none=_KL_LAZY)
pool_case(P.KLDivergenceMaximization, "integration-explicit",
          {"integration_dict_target_val": _INT_LIN,
           "integration_dict_cross_entropy": _INT_GH},
          models=M(reg=nic), data=RD)
pool_case(P.KLDivergenceMaximization, "target_val-explicit",
          {"integration_dict_target_val": _INT_GH},
          models=M(reg=nic), data=RD,
          lazy_none=("integration_dict_cross_entropy",))
pool_case(P.KLDivergenceMaximization, "cross_entropy-explicit",
          {"integration_dict_cross_entropy": _INT_GH},
          models=M(reg=nic), data=RD,
          lazy_none=("integration_dict_target_val",))

pool_case(P.GreedySamplingX, "default", data=RD,
          lazy_none=("metric", "metric_dict"))
pool_case(P.GreedySamplingX, "clf-labels", lazy_none=("metric", "metric_dict"))
pool_case(P.GreedySamplingX, "metric-manhattan", {"metric": "manhattan"},
          data=RD, lazy_none=("metric_dict",))
pool_case(P.GreedySamplingX, "metric-cosine-dict-explicit",
          {"metric": "cosine", "metric_dict": fresh(lambda: {})}, data=RD)

_GS_LAZY = ("x_metric", "y_metric", "x_metric_dict", "y_metric_dict")
pool_case(P.GreedySamplingTarget, "default", models=M(reg=nic), data=RD,
          lazy_none=_GS_LAZY + ("method",))
pool_case(P.GreedySamplingTarget, "method-GSy", {"method": "GSy"},
          models=M(reg=nic), data=RD, lazy_none=_GS_LAZY)
pool_case(P.GreedySamplingTarget, "method-GSi", {"method": "GSi"},
          models=M(reg=nic), data=RD, lazy_none=_GS_LAZY)
pool_case(P.GreedySamplingTarget, "method-GSi-metrics-linreg",
          {"method": "GSi", "x_metric": "manhattan", "y_metric": "euclidean",
           "x_metric_dict": fresh(lambda: {}),
           "y_metric_dict": fresh(lambda: {}), "n_GSx_samples": 2},
          models=M(reg=sk_linreg), data=RD)

pool_case(P.RegressionTreeBasedAL, "default", models=M(reg=sk_tree_reg),
          data=RD)
pool_case(P.RegressionTreeBasedAL, "method-diversity", {"method": "diversity"},
          models=M(reg=sk_tree_reg), data=RD)
EXCLUDED.append((
    "pool", "RegressionTreeBasedAL", "method='representativity' (data dependent)",
    "ValueError: n_samples=1 should be >= n_clusters=2. (a leaf is assigned "
    "more clusters than it holds candidates; seen for seeds 1, 20, 39 with "
    "cand_mode 'idx' and seeds 18, 20, 24, ... with 'arr'; never with "
    "candidates=None on this data; seed 0 is fine in all modes)"))
_RT_NOTE = ("data dependent library crash for some seeds with 5 explicit "
            "candidates, see EXCLUDED; candidates=None is robust")
pool_case(P.RegressionTreeBasedAL, "method-representativity",
          {"method": "representativity"}, models=M(reg=sk_tree_reg3), data=RD,
          note=_RT_NOTE)
pool_case(P.RegressionTreeBasedAL, "method-representativity-iter-2",
          {"method": "representativity", "max_iter_representativity": 2},
          models=M(reg=sk_tree_reg3), data=RD, note=_RT_NOTE)

# wrappers ------------------------------------------------------------------
_US = fresh(lambda: P.UncertaintySampling(random_state=0))
_RS = fresh(lambda: P.RandomSampling(random_state=0))


def _sub_extra(max_cand, sw=True):
    """kwargs forwarded to the wrapped UncertaintySampling.  `utility_weight`
    has to match what the wrapped strategy sees: len(X) for index candidates,
    the sub-sample size for array candidates."""

    def extra(data, models, cand_mode):
        kw = {"fit_clf": True}
        if sw:
            kw["sample_weight"] = data["sample_weight"]
        if cand_mode != "arr":
            kw["utility_weight"] = data["utility_weight"]
        elif max_cand is not None:
            kw["utility_weight"] = data[f"utility_weight_sub{max_cand}"]
        return kw

    return extra


pool_case(P.SubSamplingWrapper, "default", {"query_strategy": _US},
          models=M(clf=pwc), batch_size=1, extra=_sub_extra(1),
          note="default max_candidates=0.1 -> sub-sample of 1 candidate, "
               "therefore batch_size=1")
pool_case(P.SubSamplingWrapper, "us-max-4",
          {"query_strategy": _US, "max_candidates": 4},
          models=M(clf=pwc), extra=_sub_extra(4))
pool_case(P.SubSamplingWrapper, "us-max-0.5-exclude",
          {"query_strategy": _US, "max_candidates": 0.5,
           "exclude_non_subsample": True},
          models=M(clf=pwc),
          extra=lambda d, m, c: {"fit_clf": True},
          note="exclude_non_subsample shrinks X for the wrapped strategy: "
               "no sample_weight / utility_weight can be forwarded")
pool_case(P.SubSamplingWrapper, "random-max-4",
          {"query_strategy": _RS, "max_candidates": 4})
pool_case(P.SubSamplingWrapper, "random-max-3-exclude",
          {"query_strategy": _RS, "max_candidates": 3,
           "exclude_non_subsample": True})

# the wrapper is seeded, the wrapped strategy is not (its `random_state=None` is a constructor parameter of a nested
# object: a query must leave it alone; seed R11H04).  Not a C06 case: the premise "random_state given" fails for the inner.
_RS_NONE = fresh(lambda: P.RandomSampling(random_state=None))
pool_case(P.SubSamplingWrapper, "random-max-4-inner-rs-none",
          {"query_strategy": _RS_NONE, "max_candidates": 4})
pool_case(P.ParallelUtilityEstimationWrapper, "random-njobs1-inner-rs-none",
          {"query_strategy": _RS_NONE, "n_jobs": 1}, batch_size=1,
          lazy_none=("parallel_dict",))

_par_extra = lambda d, m, c: {"fit_clf": True,  # noqa: E731
                              "sample_weight": d["sample_weight"]}
pool_case(P.ParallelUtilityEstimationWrapper, "default",
          {"query_strategy": _US, "n_jobs": 1}, models=M(clf=pwc),
          batch_size=1, extra=_par_extra, lazy_none=("parallel_dict",),
          note="n_jobs=1 instead of the default -1 (crashes on small pools / "
               "spawns one process per core); only batch_size=1 is supported; "
               "utility_weight cannot be forwarded (chunks of candidates)")
pool_case(P.ParallelUtilityEstimationWrapper, "us-njobs2-threading",
          {"query_strategy": _US, "n_jobs": 2,
           "parallel_dict": fresh(lambda: {"backend": "threading"})},
          models=M(clf=pwc), batch_size=1, extra=_par_extra)
pool_case(P.ParallelUtilityEstimationWrapper, "random-njobs1",
          {"query_strategy": _RS, "n_jobs": 1}, batch_size=1,
          lazy_none=("parallel_dict",))
pool_case(P.ParallelUtilityEstimationWrapper, "random-njobs2-threading",
          {"query_strategy": _RS, "n_jobs": 2,
           "parallel_dict": fresh(lambda: {"backend": "threading"})},
          batch_size=1)

# --------------------------------------------------------------------------
# pool_ma cases
# --------------------------------------------------------------------------
PM = _pool_ma
EXCLUDED.append((
    "pool_ma", "IntervalEstimationThreshold",
    "clf=AnnotatorLogisticRegression with sample_weight",
    "ValueError: Found input variables with inconsistent numbers of samples: "
    "[7, 14] (AnnotatorLogisticRegression.fit drops fully unlabeled rows from "
    "X, y but not from sample_weight; a pool always has such rows)"))
# Observed: IntervalEstimationThreshold.query is NOT reproducible even with
# random_state=0 (all four configs): it builds its internal
# IntervalEstimationAnnotModel without a random_state, so majority-vote ties
# are broken by the global numpy RNG and the returned utilities differ from
# call to call.
_IET_NOTE = ("no sample_weight: AnnotatorLogisticRegression.fit crashes with "
             "sample_weight when rows are fully unlabeled (see EXCLUDED)")
pool_case(PM.IntervalEstimationThreshold, "default", models=M(clf=annot_lr),
          data=pool_ma_data, family="pool_ma", sw=False, note=_IET_NOTE)
pool_case(PM.IntervalEstimationThreshold, "adaptive", models=M(clf=annot_lr),
          data=pool_ma_data, family="pool_ma", batch_size="adaptive",
          sw=False, note=_IET_NOTE)
pool_case(PM.IntervalEstimationThreshold, "clf-ensemble",
          models=M(clf=annot_ens), data=pool_ma_data, family="pool_ma")
pool_case(PM.IntervalEstimationThreshold, "eps-0.5-alpha-0.25-clf-ensemble",
          {"epsilon": 0.5, "alpha": 0.25}, models=M(clf=annot_ens),
          data=pool_ma_data, family="pool_ma")

_saw_us = lambda d, m, c: {"fit_clf": True,  # noqa: E731
                           "sample_weight": d["utility_weight"]}
pool_case(PM.SingleAnnotatorWrapper, "default", {"strategy": _US},
          models=M(clf=pwc), data=pool_ma_data, family="pool_ma",
          lazy_none=("y_aggregate",), extra=_saw_us,
          note="sample_weight forwarded to the wrapped strategy is 1-d "
               "(the wrapped classifier sees the aggregated 1-d labels)")
pool_case(PM.SingleAnnotatorWrapper, "random", {"strategy": _RS},
          data=pool_ma_data, family="pool_ma", lazy_none=("y_aggregate",))
pool_case(PM.SingleAnnotatorWrapper, "us-A_perf-2-per-sample",
          {"strategy": _US}, models=M(clf=pwc), data=pool_ma_data,
          family="pool_ma", lazy_none=("y_aggregate",), batch_size=3,
          extra=lambda d, m, c: {"fit_clf": True, "A_perf": d["A_perf"],
                                 "n_annotators_per_sample": 2})
pool_case(PM.SingleAnnotatorWrapper, "random-y_aggregate-explicit",
          {"strategy": _RS, "y_aggregate": first_annotator},
          data=pool_ma_data, family="pool_ma")


# --------------------------------------------------------------------------
# stream cases
# --------------------------------------------------------------------------
S = _stream
B = _bm


def _chunk_uw(data, chunk):
    for c, w in zip(data["chunks"], data["utility_weights"]):
        if c is chunk:
            return w
    return np.ones(len(chunk))


def stream_qk(cls):
    sig = set(inspect.signature(cls.query).parameters)

    def query_kwargs(data, models, chunk):
        kw = {"candidates": chunk}
        kw.update(models)
        if "X" in sig:
            kw["X"] = data["X_train"]
            kw["y"] = data["y_train"]
        if "sample_weight" in sig:
            kw["sample_weight"] = data["sample_weight"]
        if "fit_clf" in sig:
            kw["fit_clf"] = True
        if "utility_weight" in sig:
            kw["utility_weight"] = _chunk_uw(data, chunk)
        kw["return_utilities"] = True
        return kw

    return query_kwargs


def stream_uk(needs_utilities):
    def update_kwargs(data, models, chunk, queried_indices, utilities=None):
        kw = {"candidates": chunk, "queried_indices": queried_indices}
        if needs_utilities:
            if utilities is None:
                raise ValueError(
                    "this case's budget manager needs the utilities returned "
                    "by query(): pass them as 5th argument"
                )
            kw["budget_manager_param_dict"] = {"utilities": utilities}
        return kw

    return update_kwargs


def stream_case(cls, config, params=None, models=None, lazy_none=(),
                needs_utilities=False, note="", data=stream_data):
    params = _rs(cls, dict(params or {}))
    return _add(
        family="stream",
        cls_name=cls.__name__,
        config=config,
        build=_mk(cls, **params),
        lazy_none=tuple(lazy_none),
        models=(models if models is not None else (lambda: {})),
        data=data,
        query_kwargs=stream_qk(cls),
        update_kwargs=stream_uk(needs_utilities),
        update_needs_utilities=needs_utilities,
        note=note,
    )


_BL = ("budget_manager", "budget")

stream_case(S.StreamRandomSampling, "default", lazy_none=("budget",))
stream_case(S.StreamRandomSampling, "budget-0.25-no-exceed",
            {"budget": 0.25, "allow_exceeding_budget": False})
stream_case(S.PeriodicSampling, "default", lazy_none=("budget",))
stream_case(S.PeriodicSampling, "budget-0.5", {"budget": 0.5})

stream_case(S.FixedUncertainty, "default", {"classes": CLASSES},
            models=M(clf=pwc), lazy_none=_BL)
stream_case(S.FixedUncertainty, "bm-explicit",
            {"classes": CLASSES, "budget_manager": fresh(
                lambda: B.FixedUncertaintyBudgetManager(
                    classes=list(CLASSES), w=4, budget=0.25))},
            models=M(clf=sk_gnb), lazy_none=("budget",))
stream_case(S.FixedUncertainty, "budget-0.5",
            {"classes": CLASSES, "budget": 0.5},
            models=M(clf=pwc), lazy_none=("budget_manager",))

stream_case(S.VariableUncertainty, "default", models=M(clf=pwc),
            lazy_none=_BL)
stream_case(S.VariableUncertainty, "bm-explicit",
            {"budget_manager": fresh(
                lambda: B.VariableUncertaintyBudgetManager(
                    w=4, budget=0.25, s=0.125))},
            models=M(clf=sk_gnb), lazy_none=("budget",))

stream_case(S.RandomVariableUncertainty, "default", models=M(clf=pwc),
            lazy_none=_BL)
stream_case(S.RandomVariableUncertainty, "bm-explicit",
            {"budget_manager": fresh(
                lambda: B.RandomVariableUncertaintyBudgetManager(
                    w=4, budget=0.25, random_state=0))},
            models=M(clf=sk_gnb), lazy_none=("budget",))

stream_case(S.Split, "default", models=M(clf=pwc), lazy_none=_BL)
stream_case(S.Split, "bm-explicit",
            {"budget_manager": fresh(
                lambda: B.SplitBudgetManager(
                    w=4, budget=0.25, v=0.5, random_state=0))},
            models=M(clf=sk_gnb), lazy_none=("budget",))

_BIQF = fresh(lambda: B.BalancedIncrementalQuantileFilter(
    w=4, w_tol=2, budget=0.25))
stream_case(S.StreamProbabilisticAL, "default", models=M(clf=pwc),
            lazy_none=("metric", "metric_dict") + _BL, needs_utilities=True)
stream_case(S.StreamProbabilisticAL, "metric-rbf", {"metric": "rbf"},
            models=M(clf=pwc), lazy_none=("metric_dict",) + _BL,
            needs_utilities=True)
stream_case(S.StreamProbabilisticAL, "metric-rbf-gamma-mean",
            {"metric": "rbf",
             "metric_dict": fresh(lambda: {"gamma": "mean"})},
            models=M(clf=pwc), lazy_none=_BL, needs_utilities=True)
stream_case(S.StreamProbabilisticAL, "metric-rbf-gamma-0.5",
            {"metric": "rbf", "metric_dict": fresh(lambda: {"gamma": 0.5})},
            models=M(clf=pwc), lazy_none=_BL, needs_utilities=True)
stream_case(S.StreamProbabilisticAL, "metric-rbf-clf-gnb", {"metric": "rbf"},
            models=M(clf=sk_gnb), lazy_none=("metric_dict",) + _BL,
            needs_utilities=True)
stream_case(S.StreamProbabilisticAL, "bm-explicit",
            {"budget_manager": _BIQF}, models=M(clf=pwc),
            lazy_none=("metric", "metric_dict", "budget"),
            needs_utilities=True)
stream_case(S.StreamProbabilisticAL, "bm-explicit-split",
            {"budget_manager": fresh(lambda: B.SplitBudgetManager(
                w=4, budget=0.25, random_state=0))},
            models=M(clf=pwc), lazy_none=("metric", "metric_dict", "budget"))

_DL = ("dist_func", "dist_func_dict")
stream_case(S.StreamDensityBasedAL, "default", models=M(clf=pwc),
            lazy_none=_DL + _BL)
stream_case(S.StreamDensityBasedAL, "bm-explicit",
            {"budget_manager": fresh(lambda: B.DensityBasedSplitBudgetManager(
                budget=0.25, random_state=0))},
            models=M(clf=sk_gnb), lazy_none=_DL + ("budget",))
stream_case(S.StreamDensityBasedAL, "window-4-dist-explicit",
            {"window_size": 4, "dist_func": manhattan_dist,
             "dist_func_dict": fresh(lambda: {}), "budget": 0.5},
            models=M(clf=pwc), lazy_none=("budget_manager",))

EXCLUDED.append((
    "stream", "CognitiveDualQueryStrategy* (all five classes)",
    "force_full_budget=False (default) with chunks of more than one candidate",
    "IndexError: index 1 is out of bounds for axis 0 with size 1 "
    "(CognitiveDualQueryStrategy.update drops low-density candidates from the "
    "list handed to budget_manager_.update but passes queried_indices that "
    "index the full chunk; data dependent)"))
_CD_NOTE = ("force_full_budget=False: single-candidate chunks "
            "(stream_data_single), multi-candidate chunks crash, see EXCLUDED")
stream_case(S.CognitiveDualQueryStrategy, "default", models=M(clf=pwc),
            lazy_none=_DL + _BL, data=stream_data_single, note=_CD_NOTE)
stream_case(S.CognitiveDualQueryStrategy, "bm-explicit",
            {"budget_manager": fresh(lambda: B.VariableUncertaintyBudgetManager(
                w=4, budget=0.25))},
            models=M(clf=sk_gnb), lazy_none=_DL + ("budget",),
            data=stream_data_single, note=_CD_NOTE)
stream_case(S.CognitiveDualQueryStrategy, "force_full_budget-bm-explicit",
            {"force_full_budget": True, "cognition_window_size": 3,
             "budget_manager": fresh(lambda: B.SplitBudgetManager(
                 w=4, budget=0.5, random_state=0))},
            models=M(clf=pwc), lazy_none=_DL + ("budget",))
for _C in (S.CognitiveDualQueryStrategyRan,
           S.CognitiveDualQueryStrategyRanVarUn,
           S.CognitiveDualQueryStrategyVarUn,
           S.CognitiveDualQueryStrategyFixUn):
    _p = {"classes": CLASSES} if _C is S.CognitiveDualQueryStrategyFixUn else {}
    stream_case(_C, "default", dict(_p), models=M(clf=pwc),
                lazy_none=_DL + ("budget",), data=stream_data_single,
                note=_CD_NOTE)
    stream_case(_C, "force_full_budget-window-3",
                dict(_p, force_full_budget=True, cognition_window_size=3,
                     density_threshold=1, budget=0.5,
                     dist_func=manhattan_dist,
                     dist_func_dict=fresh(lambda: {})),
                models=M(clf=sk_gnb))


# --------------------------------------------------------------------------
# budget manager cases
# --------------------------------------------------------------------------
def budget_case(cls, config, params=None, lazy_none=(), note=""):
    params = _rs(cls, dict(params or {}))
    usig = set(inspect.signature(cls.update).parameters)

    def query_kwargs(data, chunk):
        return {"utilities": chunk}

    def update_kwargs(data, chunk, queried_indices):
        kw = {"candidates": chunk, "queried_indices": queried_indices}
        if "utilities" in usig:
            kw["utilities"] = chunk
        return kw

    return _add(
        family="budget",
        cls_name=cls.__name__,
        config=config,
        build=_mk(cls, **params),
        lazy_none=tuple(lazy_none),
        data=budget_data,
        query_kwargs=query_kwargs,
        update_kwargs=update_kwargs,
        note=note,
    )


# EstimatedBudgetZliobaite: abstract base class -> skipped (see module doc).
for _C, _p in (
    (B.FixedUncertaintyBudgetManager, {"classes": CLASSES}),
    (B.VariableUncertaintyBudgetManager, {}),
    (B.SplitBudgetManager, {}),
    (B.BalancedIncrementalQuantileFilter, {}),
    (B.RandomVariableUncertaintyBudgetManager, {}),
    (B.DensityBasedSplitBudgetManager, {}),
    (B.RandomBudgetManager, {}),
):
    budget_case(_C, "default", dict(_p), lazy_none=("budget",))
    _small = dict(_p, budget=0.25)
    if "w" in inspect.signature(_C.__init__).parameters:
        _small["w"] = 4
    if "w_tol" in inspect.signature(_C.__init__).parameters:
        _small["w_tol"] = 2
    budget_case(_C, "w4-budget-0.25" if "w" in _small else "budget-0.25",
                _small)
budget_case(B.VariableUncertaintyBudgetManager, "theta-0.5-s-0.125",
            {"theta": 0.5, "s": 0.125, "w": 4, "budget": 0.5})
budget_case(B.SplitBudgetManager, "v-0.5", {"v": 0.5, "w": 4, "budget": 0.5})
budget_case(B.RandomVariableUncertaintyBudgetManager, "delta-0.5",
            {"delta": 0.5, "w": 4, "budget": 0.5})
budget_case(B.DensityBasedSplitBudgetManager, "delta-0.5-s-0.125",
            {"delta": 0.5, "s": 0.125, "budget": 0.5})


# --------------------------------------------------------------------------
# estimator cases (classifier / classifier_ma / regressor)
# --------------------------------------------------------------------------
def est_case(family, cls, config, params=None, data=None, sw=True,
             partial=False, predict=("predict",), dist=(), lazy_none=(),
             note=""):
    params = _rs(cls, dict(params or {}))

    def fit_kwargs(d, which):
        kw = {"X": d[f"X{which}"], "y": d[f"y{which}"]}
        if sw:
            kw["sample_weight"] = d[f"sw{which}"]
        return kw

    return _add(
        family=family,
        cls_name=cls.__name__,
        config=config,
        build=_mk(cls, **params),
        lazy_none=tuple(lazy_none),
        data=data,
        fit_kwargs=fit_kwargs,
        partial_fit_kwargs=(fit_kwargs if partial else None),
        predict_methods=tuple(predict),
        dist_methods=tuple(dist),
        note=note,
    )


PPF = ("predict", "predict_proba", "predict_freq")
PP = ("predict", "predict_proba")


def clf_case(cls, config, params=None, **kw):
    kw.setdefault("data", clf_data)
    return est_case("classifier", cls, config, params, **kw)


# ParzenWindowClassifier
_PL = ("n_neighbors", "metric_dict", "classes", "cost_matrix")
clf_case(ParzenWindowClassifier, "default", predict=PPF, lazy_none=_PL)
clf_case(ParzenWindowClassifier, "default-no-sw", sw=False, predict=PPF,
         lazy_none=_PL)
clf_case(ParzenWindowClassifier, "classes", {"classes": CLASSES}, predict=PPF,
         lazy_none=("n_neighbors", "metric_dict", "cost_matrix"))
clf_case(ParzenWindowClassifier, "rbf-gamma-mean",
         {"metric": "rbf", "metric_dict": fresh(lambda: {"gamma": "mean"}),
          "classes": CLASSES}, predict=PPF)
clf_case(ParzenWindowClassifier, "rbf-gamma-0.5",
         {"metric": "rbf", "metric_dict": fresh(lambda: {"gamma": 0.5}),
          "classes": CLASSES}, predict=PPF)
clf_case(ParzenWindowClassifier, "n_neighbors-2",
         {"n_neighbors": 2, "classes": CLASSES}, predict=PPF,
         lazy_none=("metric_dict",))
clf_case(ParzenWindowClassifier, "array-class_prior",
         {"classes": CLASSES, "class_prior": fresh(lambda: np.array([0.5, 1.0]))},
         predict=PPF, lazy_none=("n_neighbors", "metric_dict", "cost_matrix"),
         note="constructor parameter given as a caller-owned float64 array")
clf_case(ParzenWindowClassifier, "cost_matrix-class_prior",
         {"classes": CLASSES, "cost_matrix": COST, "class_prior": 0.5},
         predict=PPF, lazy_none=("metric_dict",))
clf_case(ParzenWindowClassifier, "metric-linear",
         {"metric": "linear", "classes": CLASSES}, predict=PPF,
         lazy_none=("metric_dict",))

# MixtureModelClassifier
clf_case(MixtureModelClassifier, "default", predict=PPF,
         lazy_none=("mixture_model", "classes", "cost_matrix"))
clf_case(MixtureModelClassifier, "default-no-sw", sw=False, predict=PPF,
         lazy_none=("mixture_model", "classes", "cost_matrix"))
clf_case(MixtureModelClassifier, "gmm",
         {"mixture_model": fresh(lambda: GaussianMixture(
             n_components=2, random_state=0)), "classes": CLASSES},
         predict=PPF)
clf_case(MixtureModelClassifier, "bgmm-similarities",
         {"mixture_model": fresh(lambda: BayesianGaussianMixture(
             n_components=2, random_state=0)),
          "weight_mode": "similarities", "classes": CLASSES,
          "cost_matrix": COST, "class_prior": 0.5},
         predict=PPF)

# SklearnClassifier
_GNB = fresh(lambda: GaussianNB())
_LR = fresh(lambda: LogisticRegression(max_iter=50))
clf_case(SklearnClassifier, "default", {"estimator": _GNB}, partial=True,
         predict=PP, lazy_none=("classes", "cost_matrix"),
         note="estimator=GaussianNB (mandatory argument)")
clf_case(SklearnClassifier, "gnb-no-sw", {"estimator": _GNB}, sw=False,
         partial=True, predict=PP, lazy_none=("classes", "cost_matrix"))
clf_case(SklearnClassifier, "gnb-classes",
         {"estimator": _GNB, "classes": CLASSES}, partial=True, predict=PP,
         lazy_none=("cost_matrix",))
clf_case(SklearnClassifier, "gnb-classes-cost_matrix",
         {"estimator": _GNB, "classes": CLASSES, "cost_matrix": COST},
         partial=True, predict=PP)
# an estimator whose fit takes more (defaulted) arguments than most: `DecisionTreeClassifier.fit(X, y, sample_weight, check_input)`
_TREE = fresh(lambda: __import__("sklearn.tree", fromlist=["DecisionTreeClassifier"]).DecisionTreeClassifier(random_state=0))
clf_case(SklearnClassifier, "tree-classes", {"estimator": _TREE, "classes": CLASSES}, predict=PP,
         lazy_none=("cost_matrix",))
clf_case(SklearnClassifier, "lr", {"estimator": _LR}, predict=PP,
         lazy_none=("classes", "cost_matrix"))
clf_case(SklearnClassifier, "lr-no-sw", {"estimator": _LR}, sw=False,
         predict=PP, lazy_none=("classes", "cost_matrix"))
clf_case(SklearnClassifier, "lr-classes",
         {"estimator": _LR, "classes": CLASSES}, predict=PP,
         lazy_none=("cost_matrix",))
clf_case(SklearnClassifier, "lr-classes-cost_matrix",
         {"estimator": _LR, "classes": CLASSES, "cost_matrix": COST},
         predict=PP)

# SlidingWindowClassifier
_SW_GNB = fresh(lambda: SklearnClassifier(GaussianNB(), classes=list(CLASSES),
                                          random_state=0))
_SW_PWC = fresh(lambda: pwc())
clf_case(SlidingWindowClassifier, "default",
         {"estimator": _SW_GNB, "classes": CLASSES}, partial=True, predict=PP,
         lazy_none=("cost_matrix", "window_size"),
         note="estimator=SklearnClassifier(GaussianNB) (mandatory argument)")
clf_case(SlidingWindowClassifier, "gnb-no-sw",
         {"estimator": _SW_GNB, "classes": CLASSES}, sw=False, partial=True,
         predict=PP, lazy_none=("cost_matrix", "window_size"))
clf_case(SlidingWindowClassifier, "gnb-window-8",
         {"estimator": _SW_GNB, "classes": CLASSES, "window_size": 8},
         partial=True, predict=PP, lazy_none=("cost_matrix",))
clf_case(SlidingWindowClassifier, "gnb-window-8-only_labeled",
         {"estimator": _SW_GNB, "classes": CLASSES, "window_size": 8,
          "only_labeled": True},
         partial=True, predict=PP, lazy_none=("cost_matrix",))
clf_case(SlidingWindowClassifier, "pwc",
         {"estimator": _SW_PWC, "classes": CLASSES}, partial=True,
         predict=PPF, lazy_none=("cost_matrix", "window_size"))
clf_case(SlidingWindowClassifier, "pwc-window-6-only_labeled",
         {"estimator": _SW_PWC, "classes": CLASSES, "window_size": 6,
          "only_labeled": True},
         partial=True, predict=PPF, lazy_none=("cost_matrix",))


def clf_ma_case(cls, config, params=None, **kw):
    kw.setdefault("data", clf_ma_data)
    return est_case("classifier_ma", cls, config, params, **kw)


PPA = ("predict", "predict_proba", "predict_annotator_perf")
_AL = ("n_annotators", "solver_dict", "classes", "cost_matrix")
EXCLUDED.append((
    "classifier_ma", "AnnotatorLogisticRegression",
    "fit(X, y, sample_weight) where some rows of y are fully unlabeled",
    "ValueError: Found input variables with inconsistent numbers of samples: "
    "[10, 12] (rows without any label are removed from X, y but not from "
    "sample_weight before compute_vote_vectors)"))
_ALR_SW_NOTE = ("sample_weight configs use clf_ma_data_rows_labeled (every "
                "row has >= 1 annotation), see EXCLUDED; max_iter=20 instead "
                "of 100 for speed")
clf_ma_case(AnnotatorLogisticRegression, "default", {"max_iter": 20},
            predict=PPA, lazy_none=_AL, data=clf_ma_data_rows_labeled,
            note=_ALR_SW_NOTE)
clf_ma_case(AnnotatorLogisticRegression, "default-no-sw", {"max_iter": 20},
            sw=False, predict=PPA, lazy_none=_AL)
clf_ma_case(AnnotatorLogisticRegression, "classes-n_annotators-3",
            {"max_iter": 20, "classes": CLASSES, "n_annotators": 3,
             "annot_prior_full": 2, "annot_prior_diag": 1},
            predict=PPA, lazy_none=("solver_dict", "cost_matrix"),
            data=clf_ma_data_rows_labeled, note=_ALR_SW_NOTE)
clf_ma_case(AnnotatorLogisticRegression, "array-priors",
            {"max_iter": 20, "classes": CLASSES, "n_annotators": 3,
             "annot_prior_full": fresh(lambda: np.array([2.0, 2.0, 1.0])),
             "annot_prior_diag": fresh(lambda: np.array([1.0, 1.0, 0.0]))},
            predict=PPA, lazy_none=("solver_dict", "cost_matrix"),
            data=clf_ma_data_rows_labeled,
            note="constructor parameters given as caller-owned float64 arrays")
clf_ma_case(AnnotatorLogisticRegression, "cost_matrix-no-intercept",
            {"max_iter": 20, "classes": CLASSES, "cost_matrix": COST,
             "fit_intercept": False,
             "solver_dict": fresh(lambda: {"maxiter": 5})},
            predict=PPA, lazy_none=("n_annotators",),
            data=clf_ma_data_rows_labeled, note=_ALR_SW_NOTE)

_EST_LIST = fresh(lambda: [(f"pwc{i}", pwc()) for i in range(3)])
clf_ma_case(AnnotatorEnsembleClassifier, "default",
            {"estimators": _EST_LIST, "classes": CLASSES}, predict=PP,
            lazy_none=("cost_matrix",),
            note="estimators=[(name, PWC)]*3 (mandatory), voting='hard'")
clf_ma_case(AnnotatorEnsembleClassifier, "default-no-sw",
            {"estimators": _EST_LIST, "classes": CLASSES}, sw=False,
            predict=PP, lazy_none=("cost_matrix",))
clf_ma_case(AnnotatorEnsembleClassifier, "soft",
            {"estimators": _EST_LIST, "classes": CLASSES, "voting": "soft"},
            predict=PP, lazy_none=("cost_matrix",))
clf_ma_case(AnnotatorEnsembleClassifier, "soft-gnb-cost_matrix",
            {"estimators": fresh(lambda: [(f"g{i}", sk_gnb())
                                          for i in range(3)]),
             "classes": CLASSES, "voting": "soft", "cost_matrix": COST},
            predict=PP)

# IntervalEstimationAnnotModel (exported by skactiveml.pool.multiannotator)
_IEAM = PM.IntervalEstimationAnnotModel
clf_ma_case(_IEAM, "default", predict=("predict_annotator_perf",),
            lazy_none=("classes",))
clf_ma_case(_IEAM, "default-no-sw", sw=False,
            predict=("predict_annotator_perf",), lazy_none=("classes",))
for _m in ("lower", "mean"):
    clf_ma_case(_IEAM, f"mode-{_m}-classes",
                {"mode": _m, "classes": CLASSES, "alpha": 0.25},
                predict=("predict_annotator_perf",))


def reg_case(cls, config, params=None, **kw):
    kw.setdefault("data", reg_data)
    return est_case("regressor", cls, config, params, **kw)


_D = ("predict_target_distribution",)
for _C in (NICKernelRegressor, NadarayaWatsonRegressor):
    reg_case(_C, "default", dist=_D, lazy_none=("metric_dict",))
    reg_case(_C, "default-no-sw", sw=False, dist=_D,
             lazy_none=("metric_dict",))
    reg_case(_C, "gamma-0.5",
             {"metric_dict": fresh(lambda: {"gamma": 0.5})}, dist=_D)
reg_case(NICKernelRegressor, "priors",
         {"mu_0": 1, "kappa_0": 0.5, "sigma_sq_0": 2.0, "nu_0": 3.0},
         dist=_D, lazy_none=("metric_dict",))

reg_case(SklearnRegressor, "default",
         {"estimator": fresh(lambda: LinearRegression())},
         note="estimator=LinearRegression (mandatory argument)")
reg_case(SklearnRegressor, "linreg-no-sw",
         {"estimator": fresh(lambda: LinearRegression())}, sw=False)
reg_case(SklearnRegressor, "tree",
         {"estimator": fresh(lambda: DecisionTreeRegressor(
             max_depth=2, random_state=0))})
reg_case(SklearnRegressor, "sgd-partial_fit",
         {"estimator": fresh(lambda: SGDRegressor(
             max_iter=20, tol=None, random_state=0))}, partial=True)

reg_case(SklearnNormalRegressor, "default",
         {"estimator": fresh(lambda: GaussianProcessRegressor(
             alpha=0.125, optimizer=None, random_state=0))},
         sw=False, dist=_D,
         note="estimator=GaussianProcessRegressor (mandatory); GPR.fit takes "
              "no sample_weight")
reg_case(SklearnNormalRegressor, "bayesian-ridge",
         {"estimator": fresh(lambda: BayesianRidge(max_iter=20))}, dist=_D)
reg_case(SklearnNormalRegressor, "bayesian-ridge-no-sw",
         {"estimator": fresh(lambda: BayesianRidge(max_iter=20))}, sw=False,
         dist=_D)


# --------------------------------------------------------------------------
# public helpers
# --------------------------------------------------------------------------
def cases(family=None, cls_name=None):
    out = []
    for c in CASES:
        if family is not None and c.family != family:
            continue
        if cls_name is not None and c.cls_name != cls_name:
            continue
        out.append(c)
    return out


def run_pool(case, cand_mode, seed=0):
    """Build everything fresh and run one query; returns (qs, kwargs, out)."""
    qs = case.build()
    data = case.data(seed)
    models = case.models()
    kw = case.query_kwargs(data, models, cand_mode)
    out = qs.query(**kw)
    return qs, kw, out


def run_stream(case, seed=0):
    qs = case.build()
    data = case.data(seed)
    models = case.models()
    outs = []
    for chunk in data["chunks"]:
        kw = case.query_kwargs(data, models, chunk)
        queried, utilities = qs.query(**kw)
        ukw = case.update_kwargs(data, models, chunk, queried, utilities)
        qs.update(**ukw)
        outs.append((queried, utilities))
    return qs, outs


def run_budget(case, seed=0):
    bm = case.build()
    data = case.data(seed)
    outs = []
    for chunk in data["utility_chunks"]:
        queried = bm.query_by_utility(**case.query_kwargs(data, chunk))
        bm.update(**case.update_kwargs(data, chunk, queried))
        outs.append(queried)
    return bm, outs


def run_estimator(case, seed=0):
    est = case.build()
    data = case.data(seed)
    res = {}
    est.fit(**case.fit_kwargs(data, 1))
    for m in case.predict_methods + case.dist_methods:
        res[m] = getattr(est, m)(data["X_test"])
    if case.partial_fit_kwargs is not None:
        est.partial_fit(**case.partial_fit_kwargs(data, 2))
        est2 = case.build()
        est2.partial_fit(**case.partial_fit_kwargs(data, 1))
    est.fit(**case.fit_kwargs(data, 2))
    for m in case.predict_methods:
        res[m + "#2"] = getattr(est, m)(data["X_test"])
    return est, res


def _check_exports():
    """Every exported class must be covered by a case or be explicitly
    skipped."""
    import skactiveml.classifier as _c
    import skactiveml.classifier.multiannotator as _cm
    import skactiveml.regressor as _r

    skipped = {"EstimatedBudgetZliobaite"}
    have = {c.cls_name for c in CASES}
    missing = []
    for mod in (_pool, _pool_ma, _stream, _bm, _c, _cm, _r):
        for name in mod.__all__:
            obj = getattr(mod, name, None)
            if inspect.isclass(obj) and name not in have | skipped:
                missing.append(f"{mod.__name__}.{name}")
    return missing


def selftest(all_modes=False, only=None):
    t_all = time.time()
    n_ok = n_fail = 0
    slow = []
    for c in CASES:
        if only and only not in c.key:
            continue
        if c.family in ("pool", "pool_ma"):
            modes = ALL_MODES if all_modes else c.cand_modes
            runs = [(m, (lambda m=m: run_pool(c, m))) for m in modes]
        elif c.family == "stream":
            runs = [("chunks", lambda: run_stream(c))]
        elif c.family == "budget":
            runs = [("chunks", lambda: run_budget(c))]
        else:
            runs = [("fit", lambda: run_estimator(c))]
        for mode, fn in runs:
            t0 = time.time()
            try:
                fn()
                dt = time.time() - t0
                tag = "ok"
                if all_modes and c.cand_modes and mode not in c.cand_modes:
                    tag = "ok(UNLISTED-MODE)"
                print(f"{c.family} {c.cls_name} {c.config} {mode} {tag} "
                      f"{dt:.3f}")
                n_ok += 1
                if dt > 0.3:
                    slow.append((c.key, mode, dt))
            except Exception as e:  # noqa: BLE001
                dt = time.time() - t0
                msg = " ".join(f"{type(e).__name__}: {e}".split())[:300]
                print(f"{c.family} {c.cls_name} {c.config} {mode} FAIL {msg}")
                n_fail += 1
    missing = _check_exports()
    if missing:
        print("UNCOVERED EXPORTS:", missing)
    per_family = {f: len(cases(f)) for f in FAMILIES}
    print(f"cases per family: {per_family}; excluded: {len(EXCLUDED)}")
    for k, m, dt in slow:
        print(f"slow: {k} {m} {dt:.2f}s")
    print(f"total: {n_ok} ok, {n_fail} FAIL, {time.time() - t_all:.1f} s")
    return n_fail


if __name__ == "__main__":
    _all = "--all-modes" in sys.argv
    _only = None
    for a in sys.argv[1:]:
        if not a.startswith("--"):
            _only = a
    sys.exit(1 if selftest(all_modes=_all, only=_only) else 0)
