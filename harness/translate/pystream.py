"""Python -> Lean translator for the stream budget managers and the baseline stream strategies.

`generate()` re-reads `skactiveml/stream/budgetmanager/*.py` and `skactiveml/stream/_stream_baselines.py`
under `vlib.REPO` and writes `lean/SkaModel/Gen/StreamBM.lean`: one Lean definition per translated method
(`query_by_utility` / `query`, `update`) and one per loop body.  The translation is *literal*: statements
become `let` bindings that shadow, `if` statements join the variables they assign, `for` loops become a
`List.foldl` over the loop-carried variables, attribute writes rebind `self`, generator calls move the cursor
`self.rng` into the explicit draw streams `nrm` / `uni`.  `SkaModel/Props/StreamGen.lean` proves that every
generated definition equals the hand-written model of `Core/Budget.lean` / `Core/Stream.lean` on every input,
so the theorems of C03 / C04 / C10 are re-checked against what the source says now; the driver executes the
generated definitions on the same streams as the real classes (bit-exact comparison), which checks the
translator itself.

What is translated is a small, typed subset of Python.  Anything outside it raises `Unsupported`, which the
checks report as a broken tie (the last generated file is left in place).

Types: F (double known not to be NaN: parameters and state), OF (double that may be NaN: utilities), B, N,
LOF / LF / LB / LN (lists), and the object `self` (a Lean structure per class family, declared in FIELDS).
"""
import ast
import os

from .. import vlib


class Unsupported(Exception):
    pass


# ---------------------------------------------------------------------------------------------------------
# tables: what the translator is told about the classes (trusted; validated by the bit-exact runs)

ZF = dict(w="F", budget_="F", s="F", v="F", delta="F", theta="F", u_t_="F", theta_="F")
DF = dict(budget_="F", s="F", delta="F", theta="F", u_="N", t_="N", theta_="F")
CF = dict(budget_="F", allow_exceeding_budget="B", observed_samples_="N", queried_samples_="N")
QF = dict(w="N", w_tol="F", budget_="F", observed_samples_="N", queried_samples_="N", history_sorted_="DQ")

OBJS = {
    # structure name -> (fields in declaration order incl. the extra ones, python attribute -> type)
    "ZObj": (["w", "budget_", "s", "v", "delta", "theta", "nclasses", "u_t_", "theta_", "rng"], dict(ZF, nclasses="F", rng="N")),
    "DObj": (["budget_", "s", "delta", "theta", "u_", "t_", "theta_", "rng"], dict(DF, rng="N")),
    "CObj": (["budget_", "allow_exceeding_budget", "observed_samples_", "queried_samples_", "rng"], dict(CF, rng="N")),
    "QObj": (["w", "w_tol", "budget_", "observed_samples_", "queried_samples_", "history_sorted_"], dict(QF)),
}

BM = "skactiveml/stream/budgetmanager/"
CLASSES = [
    # (class, file, object structure, methods, parent whose `update` is reached by super())
    ("EstimatedBudgetZliobaite", BM + "_estimated_budget_zliobaite.py", "ZObj", ["update"], None),
    ("FixedUncertaintyBudgetManager", BM + "_estimated_budget_zliobaite.py", "ZObj", ["query_by_utility", "update"], "EstimatedBudgetZliobaite"),
    ("VariableUncertaintyBudgetManager", BM + "_estimated_budget_zliobaite.py", "ZObj", ["query_by_utility", "update"], "EstimatedBudgetZliobaite"),
    ("RandomVariableUncertaintyBudgetManager", BM + "_estimated_budget_zliobaite.py", "ZObj", ["query_by_utility", "update"], "EstimatedBudgetZliobaite"),
    ("SplitBudgetManager", BM + "_estimated_budget_zliobaite.py", "ZObj", ["query_by_utility", "update"], "EstimatedBudgetZliobaite"),
    ("RandomBudgetManager", BM + "_estimated_budget_zliobaite.py", "ZObj", ["query_by_utility", "update"], "EstimatedBudgetZliobaite"),
    ("DensityBasedSplitBudgetManager", BM + "_threshold_budget.py", "DObj", ["query_by_utility", "update"], None),
    ("BalancedIncrementalQuantileFilter", BM + "_balanced_incremental_quantile_filter.py", "QObj", ["query_by_utility", "update"], None),
    ("StreamRandomSampling", "skactiveml/stream/_stream_baselines.py", "CObj", ["query", "update"], None),
    ("PeriodicSampling", "skactiveml/stream/_stream_baselines.py", "CObj", ["query", "update"], None),
]

LEAN_TY = dict(F="α", OF="Option α", B="Bool", N="Nat", LOF="List (Option α)", LF="List α", LB="List Bool", LN="List Nat",
               DQ="List (Option α)")

# lazily initialised attributes: `if not hasattr(self, a): self.a = <init>` inside the _validate_* helpers.
# The generated `init` definitions are compared with these (a changed initial value is a changed model).
VALIDATE_OK_CALLS = {"check_scalar", "check_classes", "check_random_state", "deepcopy", "deque", "check_budget_manager"}


def lean_ident(name):
    return name


class Fn:
    """One generated Lean definition."""

    def __init__(self, name, params, ret, body):
        self.name, self.params, self.ret, self.body = name, params, ret, body

    def text(self):
        ps = " ".join(f"({n} : {t})" for n, t in self.params)
        return f"def {self.name} (nrm uni : Nat → α) (qf : List (Option α) → Option α) {ps} :\n    {self.ret} :=\n{self.body}\n"


class MethodTranslator:
    def __init__(self, tr, cls, obj, parent, fdef):
        self.tr, self.cls, self.obj, self.parent, self.fdef = tr, cls, obj, parent, fdef
        self.attrs = OBJS[obj][1]
        self.loops = 0
        self.fresh = 0
        self.fails = False          # does the method (transitively) evaluate `queried[queried_indices] = 1`?
        self.aux = []               # loop-body definitions, emitted before the method

    # ---- helpers ------------------------------------------------------------------------------------
    def bad(self, node, why):
        raise Unsupported(f"{self.cls}.{self.fdef.name} line {getattr(node, 'lineno', '?')}: {why}: {ast.unparse(node)[:80]}")

    def is_self_attr(self, node, name=None):
        return (isinstance(node, ast.Attribute) and isinstance(node.value, ast.Name) and node.value.id == "self"
                and (name is None or node.attr == name))

    def is_rs_call(self, node, meth=None):
        return (isinstance(node, ast.Call) and isinstance(node.func, ast.Attribute) and self.is_self_attr(node.func.value, "random_state_")
                and (meth is None or node.func.attr == meth))

    def tmp(self, base):
        self.fresh += 1
        return f"{base}_{self.fresh}"

    # ---- expressions --------------------------------------------------------------------------------
    # returns (text, type, pre) where pre is a list of `let` lines to be placed before the statement
    def lit(self, node, want):
        v = node.value
        if isinstance(v, bool):
            return ("true" if v else "false"), "B"
        if isinstance(v, int):
            if want == "F":
                return f"({v} : α)", "F"
            if want == "B":  # `queried[i] = 1`
                return ("true" if v else "false"), "B"
            return f"({v} : Nat)", "N"
        self.bad(node, "literal")

    def coerce(self, text, ty, want, node):
        if ty == want:
            return text
        if ty == "N" and want == "F":
            return f"(({text} : Nat) : α)"
        if ty == "B" and want == "F":
            return f"b2f {par(text)}"
        if ty == "B" and want == "N":
            return f"b2n {par(text)}"
        if ty == "F" and want == "OF":
            return f"some {par(text)}"
        self.bad(node, f"cannot use a value of type {ty} as {want}")

    def expr(self, node, env, pre, want=None):
        if isinstance(node, ast.Constant):
            return self.lit(node, want)
        if isinstance(node, ast.Name):
            if node.id not in env:
                self.bad(node, "unknown name")
            return node.id, env[node.id]
        if isinstance(node, ast.Attribute):
            if self.is_self_attr(node):
                if node.attr not in self.attrs:
                    self.bad(node, "attribute not in the typing table")
                return f"self.{node.attr}", self.attrs[node.attr]
            # candidates.shape[0] is handled under Subscript
            self.bad(node, "attribute")
        if isinstance(node, ast.Subscript):
            # candidates.shape[0]
            if (isinstance(node.value, ast.Attribute) and node.value.attr == "shape" and isinstance(node.value.value, ast.Name)
                    and env.get(node.value.value.id) == "CANDS" and isinstance(node.slice, ast.Constant) and node.slice.value == 0):
                return node.value.value.id, "N"
            # np.where(queried)[0]
            if (isinstance(node.value, ast.Call) and ast.unparse(node.value.func) == "np.where" and isinstance(node.slice, ast.Constant)
                    and node.slice.value == 0):
                t, ty = self.expr(node.value.args[0], env, pre)
                if ty != "LB":
                    self.bad(node, "np.where on a non-Boolean list")
                return f"idxOf {par(t)} 0", "LN"
            t, ty = self.expr(node.value, env, pre)
            if isinstance(node.slice, ast.UnaryOp) and isinstance(node.slice.op, ast.USub) and ast.unparse(node.slice) == "-1":
                if ty == "LB":
                    return f"lastB {par(t)}", "B"
                self.bad(node, "x[-1] on a non-Boolean list")
            i, ity = self.expr(node.slice, env, pre)
            if ity != "N":
                self.bad(node, "index is not a natural number")
            if ty == "LB":
                return f"{par(t)}.getD {par(i)} false", "B"
            if ty == "LOF":
                return f"{par(t)}.getD {par(i)} none", "OF"
            self.bad(node, "subscript")
        if isinstance(node, ast.UnaryOp) and isinstance(node.op, ast.Not):
            t, ty = self.expr(node.operand, env, pre)
            if ty != "B":
                self.bad(node, "not on a non-Boolean")
            return f"!{par(t)}", "B"
        if isinstance(node, ast.BoolOp):
            parts = []
            for v in node.values:
                t, ty = self.expr(v, env, pre)
                if ty != "B":
                    self.bad(node, "and/or on a non-Boolean")
                parts.append(par(t))
            return (" && " if isinstance(node.op, ast.And) else " || ").join(parts), "B"
        if isinstance(node, ast.IfExp):
            c, cty = self.expr(node.test, env, pre)
            a, aty = self.expr(node.body, env, pre)
            b, bty = self.expr(node.orelse, env, pre, want=aty)
            if cty != "B" or aty != bty:
                self.bad(node, "conditional expression")
            return f"if {c} then {a} else {b}", aty
        if isinstance(node, ast.BinOp):
            return self.binop(node, env, pre, want)
        if isinstance(node, ast.Compare):
            return self.compare(node, env, pre)
        if isinstance(node, ast.Call):
            return self.call(node, env, pre)
        if isinstance(node, ast.List) and len(node.elts) == 1 and isinstance(node.elts[0], ast.Name) and env.get(node.elts[0].id) == "CAND":
            return "(1 : Nat)", "CANDS"          # `[x_t]`: a candidate matrix with one row
        if isinstance(node, ast.List) and all(isinstance(e, ast.Constant) and isinstance(e.value, int) for e in node.elts):
            return "[" + ", ".join(str(e.value) for e in node.elts) + "]", "LN"
        self.bad(node, "expression")

    def binop(self, node, env, pre, want):
        op = {ast.Add: "+", ast.Sub: "-", ast.Mult: "*", ast.Div: "/"}.get(type(node.op))
        if op is None:
            self.bad(node, "operator")
        lc, rc = isinstance(node.left, ast.Constant), isinstance(node.right, ast.Constant)
        if lc and not rc:
            r, rty = self.expr(node.right, env, pre)
            if rty == "LOF" and op == "-" and node.left.value == 1:
                return f"{par(r)}.map conf", "LOF"
            if rty == "OF" and op == "-" and node.left.value == 1:
                return f"conf {par(r)}", "OF"
            lt_ = "F" if (rty in ("F", "B") or op == "/") else rty
            l, lty = self.lit(node.left, lt_)
        elif rc and not lc:
            l, lty = self.expr(node.left, env, pre)
            r, rty = self.lit(node.right, "F" if (lty == "F" or op == "/") else lty)
        else:
            l, lty = self.expr(node.left, env, pre)
            r, rty = self.expr(node.right, env, pre)
        tys = {lty, rty}
        if "OF" in tys and op in ("-", "*") and tys <= {"OF", "F"}:
            l = self.coerce(l, lty, "OF", node)
            r = self.coerce(r, rty, "OF", node)
            return f"{'subO' if op == '-' else 'mulO'} {par(l)} {par(r)}", "OF"
        if op == "/":
            res = "F"
        elif tys <= {"N"} or tys == {"N", "B"} and lty == "N":
            res = "N"
            if op == "-":
                self.bad(node, "subtraction of naturals")
        elif tys <= {"F", "N", "B"}:
            res = "F"
        else:
            self.bad(node, f"arithmetic on {lty}, {rty}")
        l = self.coerce(l, lty, res, node)
        r = self.coerce(r, rty, res, node)
        return f"{par(l)} {op} {par(r)}", res

    def compare(self, node, env, pre):
        if len(node.ops) != 1:
            self.bad(node, "chained comparison")
        op = type(node.ops[0])
        ln, rn = node.left, node.comparators[0]
        if isinstance(rn, ast.Constant):
            l, lty = self.expr(ln, env, pre)
            r, rty = self.lit(rn, "F" if lty in ("F", "OF", "LF", "LOF") else lty)
        elif isinstance(ln, ast.Constant):
            r, rty = self.expr(rn, env, pre)
            l, lty = self.lit(ln, "F" if rty in ("F", "OF") else rty)
        else:
            l, lty = self.expr(ln, env, pre)
            r, rty = self.expr(rn, env, pre)
        if op in (ast.Gt, ast.GtE):      # a > b  is  b < a
            l, lty, r, rty = r, rty, l, lty
            op = ast.Lt if op is ast.Gt else ast.LtE
        if lty == "N" and rty == "F":
            l, lty = self.coerce(l, "N", "F", node), "F"
        if rty == "N" and lty == "F":
            r, rty = self.coerce(r, "N", "F", node), "F"
        if op is ast.Lt:
            if (lty, rty) == ("F", "F"):
                return f"decide ({l} < {r})", "B"
            if (lty, rty) == ("OF", "F"):
                return f"ltO {par(l)} {par(r)}", "B"
        if op is ast.LtE:
            if (lty, rty) == ("F", "F"):
                return f"leB {par(l)} {par(r)}", "B"
            if (lty, rty) == ("OF", "F"):
                return f"leO {par(l)} {par(r)}", "B"
            if (lty, rty) == ("LOF", "F"):
                return f"{par(l)}.map (fun c => leO c {par(r)})", "LB"
            if (lty, rty) == ("LF", "F"):
                return f"{par(l)}.map (fun c => leB c {par(r)})", "LB"
            if (lty, rty) == ("OF", "OF"):
                return f"leOO {par(l)} {par(r)}", "B"
        self.bad(node, f"comparison of {lty} and {rty}")

    def draw(self, kind, n, pre):
        """consume draws from the generator: rebinding of `self` goes into `pre`."""
        if n is None:
            v = self.tmp("draw")
            pre.append(f"let {v} := {kind} self.rng")
            pre.append("let self := { self with rng := self.rng + 1 }")
            return v, "F"
        v = self.tmp("draws")
        pre.append(f"let {v} := (List.range {par(n)}).map (fun k => {kind} (self.rng + k))")
        pre.append(f"let self := {{ self with rng := self.rng + {par(n)} }}")
        return v, "LF"

    def call(self, node, env, pre):
        f = ast.unparse(node.func)
        if f == "len" and len(node.args) == 1:
            a = node.args[0]
            if self.is_self_attr(a, "classes"):
                return "self.nclasses", "F"
            t, ty = self.expr(a, env, pre)
            if ty == "CANDS":
                return t, "N"
            if ty in ("LOF", "LF", "LB", "LN", "DQ"):
                return f"{par(t)}.length", "N"
            self.bad(node, "len")
        if f == "np.array" and len(node.args) == 1:
            return self.expr(node.args[0], env, pre)
        if f == "copy" and len(node.args) == 1:
            return self.expr(node.args[0], env, pre)      # values are immutable in the model
        if f == "np.isnan" and len(node.args) == 1:
            t, ty = self.expr(node.args[0], env, pre)
            if ty != "OF":
                self.bad(node, "np.isnan on a value that cannot be NaN in the model")
            return f"{par(t)}.isNone", "B"
        if f == "np.sum" and len(node.args) == 1:
            t, ty = self.expr(node.args[0], env, pre)
            if ty != "LB":
                self.bad(node, "np.sum")
            return f"countTrue {par(t)}", "N"
        if f == "np.full" and len(node.args) == 2 and isinstance(node.args[1], ast.Constant) and node.args[1].value is False:
            n, nty = self.expr(node.args[0], env, pre)
            if nty != "N":
                self.bad(node, "np.full length")
            return f"List.replicate {par(n)} false", "LB"
        if f == "np.zeros" and len(node.args) == 1:
            n, nty = self.expr(node.args[0], env, pre)
            if nty != "N":
                self.bad(node, "np.zeros length")
            return f"List.replicate {par(n)} (0 : α)", "LF"
        if f == "np.quantile" and len(node.args) == 2 and ast.unparse(node.args[1]) == "1 - self.budget_":
            t, ty = self.expr(node.args[0], env, pre)
            if ty != "DQ":
                self.bad(node, "np.quantile")
            return f"qf {par(t)}", "OF"
        if f in ("np.min", "np.max") and len(node.args) == 1:
            t, ty = self.expr(node.args[0], env, pre)
            if ty != "DQ":
                self.bad(node, f)
            return f"{'minO' if f == 'np.min' else 'maxO'} {par(t)}", "OF"
        if self.is_rs_call(node, "get_state") and not node.args:
            return "self.rng", "N"
        if self.is_rs_call(node, "normal"):
            if len(node.args) != 2 or ast.unparse(node.args[0]) != "1" or ast.unparse(node.args[1]) != "self.delta":
                self.bad(node, "normal(...) with other arguments than (1, self.delta)")
            return self.draw("nrm", None, pre)
        if self.is_rs_call(node, "random_sample"):
            if not node.args:
                return self.draw("uni", None, pre)
            n, nty = self.expr(node.args[0], env, pre)
            if nty != "N":
                self.bad(node, "random_sample size")
            return self.draw("uni", n, pre)
        self.bad(node, "call")

    # ---- statements ---------------------------------------------------------------------------------
    def assigned(self, stmts):
        """names (and 'self') assigned anywhere in the statements"""
        out = []

        def add(n):
            if n not in out:
                out.append(n)

        def tgt(t):
            if isinstance(t, ast.Name):
                add(t.id)
            elif isinstance(t, ast.Attribute) and self.is_self_attr(t):
                add("self")
            elif isinstance(t, ast.Subscript) and isinstance(t.value, ast.Name):
                add(t.value.id)
            elif isinstance(t, ast.Tuple):
                for e in t.elts:
                    tgt(e)

        for s in stmts:
            for n in ast.walk(s):
                if isinstance(n, ast.Assign):
                    for t in n.targets:
                        tgt(t)
                elif isinstance(n, ast.AugAssign):
                    tgt(n.target)
                elif isinstance(n, ast.For):
                    tgt(n.target)
                elif isinstance(n, ast.Call):
                    if isinstance(n.func, ast.Attribute) and n.func.attr in ("append", "extend") and isinstance(n.func.value, ast.Name):
                        add(n.func.value.id)
                    if self.is_rs_call(n) and n.func.attr != "get_state":
                        add("self")
                    if isinstance(n.func, ast.Attribute) and isinstance(n.func.value, ast.Call) and ast.unparse(n.func.value) == "super()":
                        add("self")
                    if isinstance(n.func, ast.Attribute) and n.func.attr in ("append", "extend") and self.is_self_attr(n.func.value):
                        add("self")
        return out

    def loaded(self, stmts):
        out = set()
        for s in stmts:
            for n in ast.walk(s):
                if isinstance(n, ast.Name):
                    out.add(n.id)
        return out

    def tuple_of(self, names):
        return names[0] if len(names) == 1 else "(" + ", ".join(names) + ")"

    def block(self, stmts, env, ind, final):
        """Lean lines for the statements followed by `final(env)` (a list of lines at indentation `ind`)."""
        pad = " " * ind
        if not stmts:
            return [pad + l for l in final(env, None)]
        s, rest = stmts[0], stmts[1:]
        cont = lambda e: self.block(rest, e, ind, final)  # noqa: E731
        env = dict(env)
        # docstring / bare validation calls ---------------------------------------------------------
        if isinstance(s, ast.Expr) and isinstance(s.value, ast.Constant):
            return cont(env)
        if isinstance(s, ast.Expr) and isinstance(s.value, ast.Call):
            c = s.value
            f = ast.unparse(c.func)
            if f == "self._validate_data":
                return cont(env)
            if f in ("check_scalar", "check_type", "check_classes", "warnings.warn"):
                return cont(env)       # parameter validation / warnings: raise or print, compute nothing
            if isinstance(c.func, ast.Attribute) and c.func.attr == "append" and isinstance(c.func.value, ast.Name):
                name = c.func.value.id
                pre = []
                if env.get(name) == "DQ":
                    v, vty = self.expr(c.args[0], env, pre)
                    if vty != "OF":
                        self.bad(s, "append to the window")
                    return [pad + p for p in pre] + [pad + f"let {name} := pushW self.w {name} {par(v)}"] + cont(env)
                v, vty = self.expr(c.args[0], env, pre)
                lty = env.get(name)
                if lty == "L?":
                    lty = {"N": "LN", "B": "LB", "F": "LF", "OF": "LOF"}[vty]
                    env[name] = lty
                if lty != {"N": "LN", "B": "LB", "F": "LF", "OF": "LOF"}.get(vty):
                    self.bad(s, f"append of {vty} to {lty}")
                return [pad + p for p in pre] + [pad + f"let {name} := {name} ++ [{v}]"] + cont(env)
            if (isinstance(c.func, ast.Attribute) and c.func.attr == "extend" and self.is_self_attr(c.func.value)
                    and self.attrs.get(c.func.value.attr) == "DQ"):
                pre = []
                v, vty = self.expr(c.args[0], env, pre)
                if vty != "LOF":
                    self.bad(s, "extend")
                a = c.func.value.attr
                return [pad + f"let self := {{ self with {a} := {par(v)}.foldl (pushW self.w) self.{a} }}"] + cont(env)
            if self.is_rs_call(c, "set_state") and len(c.args) == 1:
                pre = []
                v, vty = self.expr(c.args[0], env, pre)
                if vty != "N":
                    self.bad(s, "set_state")
                return [pad + f"let self := {{ self with rng := {v} }}"] + cont(env)
            if self.is_rs_call(c, "random_sample") and len(c.args) == 1:
                pre = []
                n, nty = self.expr(c.args[0], env, pre)
                if nty != "N":
                    self.bad(s, "random_sample size")
                return [pad + f"let self := {{ self with rng := self.rng + {par(n)} }}"] + cont(env)
            if f == "super().update":
                return self.super_update(c, env, ind, cont)
            self.bad(s, "statement")
        # assignments ---------------------------------------------------------------------------------
        if isinstance(s, ast.Assign) and len(s.targets) == 1:
            t, v = s.targets[0], s.value
            # x = self._validate_data(x) ; (a, b) = self._validate_data(a, b)
            if isinstance(v, ast.Call) and ast.unparse(v.func) == "self._validate_data":
                if ast.unparse(t) != ", ".join(ast.unparse(a) for a in v.args) and ast.unparse(t) != "(" + ", ".join(ast.unparse(a) for a in v.args) + ")":
                    self.bad(s, "_validate_data must rebind its own arguments")
                return cont(env)
            # queried = np.zeros(len(candidates)) ; queried[queried_indices] = 1
            if (isinstance(v, ast.Call) and ast.unparse(v.func) == "np.zeros" and rest and isinstance(rest[0], ast.Assign)
                    and isinstance(rest[0].targets[0], ast.Subscript) and isinstance(t, ast.Name)
                    and ast.unparse(rest[0].targets[0].value) == t.id and ast.unparse(rest[0].value) == "1"):
                pre = []
                n, nty = self.expr(v.args[0], env, pre)
                idx, ity = self.expr(rest[0].targets[0].slice, env, pre)
                if nty != "N" or ity != "LN":
                    self.bad(s, "scatter idiom")
                self.fails = True
                env[t.id] = "LB"
                inner = self.block(rest[1:], env, ind + 2, final)
                return [pad + f"match bitsOf {par(n)} {par(idx)} with", pad + "| .error e => .error e", pad + f"| .ok {t.id} =>"] + inner
            if isinstance(t, ast.Name):
                if isinstance(v, ast.List) and not v.elts:
                    env[t.id] = "L?"
                    # the element type is fixed by the first append; find it
                    ety = self.first_append_type(t.id, rest, env)
                    env[t.id] = ety
                    return [pad + f"let {t.id} : {LEAN_TY[ety]} := []"] + cont(env)
                pre = []
                x, xty = self.expr(v, env, pre, want=env.get(t.id) if env.get(t.id) in ("F", "N", "B") else None)
                env[t.id] = xty
                return [pad + p for p in pre] + [pad + f"let {t.id} := {x}"] + cont(env)
            if self.is_self_attr(t):
                pre = []
                want = self.attrs.get(t.attr)
                if want is None:
                    self.bad(s, "attribute not in the typing table")
                x, xty = self.expr(v, env, pre, want=want)
                x = self.coerce(x, xty, want, s)
                return [pad + p for p in pre] + [pad + f"let self := {{ self with {t.attr} := {x} }}"] + cont(env)
            if isinstance(t, ast.Subscript) and isinstance(t.value, ast.Name) and env.get(t.value.id) in ("LB", "LF"):
                pre = []
                lty = env[t.value.id]
                i, ity = self.expr(t.slice, env, pre)
                x, xty = self.expr(v, env, pre, want="B" if lty == "LB" else "F")
                if ity != "N" or xty != ("B" if lty == "LB" else "F"):
                    self.bad(s, "element assignment")
                return [pad + p for p in pre] + [pad + f"let {t.value.id} := {t.value.id}.set {par(i)} {par(x)}"] + cont(env)
            self.bad(s, "assignment target")
        if isinstance(s, ast.AugAssign):
            op = {ast.Add: ast.Add, ast.Mult: ast.Mult}.get(type(s.op))
            if op is None:
                self.bad(s, "augmented operator")
            plain = ast.Assign(targets=[s.target], value=ast.BinOp(left=_load(s.target), op=s.op, right=s.value), lineno=s.lineno)
            ast.fix_missing_locations(plain)
            return self.block([plain] + rest, env, ind, final)
        # if ------------------------------------------------------------------------------------------
        if isinstance(s, ast.If):
            # `if return_utilities: return (a, b) else: return a`  ->  always (a, b)
            if (ast.unparse(s.test) == "return_utilities" and len(s.body) == 1 and isinstance(s.body[0], ast.Return)
                    and len(s.orelse) == 1 and isinstance(s.orelse[0], ast.Return) and isinstance(s.body[0].value, ast.Tuple)
                    and ast.unparse(s.body[0].value.elts[0]) == ast.unparse(s.orelse[0].value)):
                return self.block([s.body[0]] + rest, env, ind, final)
            pre = []
            c, cty = self.expr(s.test, env, pre)
            if cty in ("N", "F") and isinstance(s.test, ast.Name):
                self.bad(s, "truthiness of a number")
            if cty != "B":
                self.bad(s, "condition is not Boolean")
            w_then, w_else = self.assigned(s.body), self.assigned(s.orelse)
            joined = [n for n in dict.fromkeys(w_then + w_else) if n in env or n == "self" or (n in w_then and n in w_else)]
            if not joined:
                self.bad(s, "if without effect")
            envs = []

            def fin(e, value=None):
                if value is not None:
                    self.bad(s, "return inside a branch")
                envs.append(e)
                for n in joined:
                    if n != "self" and n not in e:
                        self.bad(s, f"{n} is not bound on every path")
                return [self.tuple_of(joined)]

            a = self.block(s.body, env, ind + 4, fin)
            b = self.block(s.orelse, env, ind + 4, fin)
            for n in joined:
                if n == "self":
                    continue
                tys = {e[n] for e in envs}
                if len(tys) != 1:
                    self.bad(s, f"{n} has different types on the two paths: {tys}")
                env[n] = tys.pop()
            lines = [pad + p for p in pre]
            lines += [pad + f"let {self.tuple_of(joined)} :=", pad + f"  if {c} then"] + a + [pad + "  else"] + b
            return lines + cont(env)
        # for -----------------------------------------------------------------------------------------
        if isinstance(s, ast.For) and not s.orelse:
            return self.for_loop(s, env, ind, cont)
        if isinstance(s, ast.Return):
            if rest:
                self.bad(s, "statements after return")
            return [pad + l for l in final(env, s.value)]
        self.bad(s, "statement")

    def first_append_type(self, name, stmts, env):
        for st in stmts:
            for n in ast.walk(st):
                if (isinstance(n, ast.Call) and isinstance(n.func, ast.Attribute) and n.func.attr == "append"
                        and isinstance(n.func.value, ast.Name) and n.func.value.id == name):
                    a = n.args[0]
                    if isinstance(a, ast.Compare):
                        return "LB"
                    if isinstance(a, ast.Name):
                        return "LN"   # only enumerate indices are appended by name in this subset
        self.bad(stmts[0] if stmts else self.fdef, f"cannot type the empty list {name}")

    def super_update(self, c, env, ind, cont):
        pad = " " * ind
        if self.parent is None or len(c.args) != 2:
            self.bad(c, "super().update")
        pre = []
        a, aty = self.expr(c.args[0], env, pre)
        b, bty = self.expr(c.args[1], env, pre)
        if aty != "CANDS" or bty != "LN":
            self.bad(c, "super().update arguments")
        self.fails = True
        inner = cont(env)
        inner = [("  " + l) for l in inner]
        return [pad + f"match {self.parent}.update nrm uni qf self {par(a)} {par(b)} with", pad + "| .error e => .error e", pad + "| .ok self =>"] + inner

    def for_loop(self, s, env, ind, cont):
        pad = " " * ind
        self.loops += 1
        lname = f"{self.cls}.{self.fdef.name}.loop{self.loops}"
        # iteration source
        it = s.iter
        pre = []
        binds = {}
        if isinstance(it, ast.Call) and ast.unparse(it.func) == "enumerate" and isinstance(s.target, ast.Tuple) and len(s.target.elts) == 2:
            src, sty = self.expr(it.args[0], env, pre)
            elem = {"LOF": "OF", "LB": "B", "LF": "F", "CANDS": "CAND"}.get(sty)
            if elem is None:
                self.bad(s, "enumerate source")
            ivar, xvar = s.target.elts[0].id, s.target.elts[1].id
            if sty == "CANDS":
                xs, xty = f"(List.replicate {par(src)} ()).zipIdx", "Unit × Nat"
            else:
                xs, xty = f"{par(src)}.zipIdx", f"{LEAN_TY[elem]} × Nat"
            binds = {xvar: elem, ivar: "N"}
            unpack = f"let {xvar} := it_.1\n let {ivar} := it_.2"
        elif isinstance(it, ast.Call) and ast.unparse(it.func) == "zip" and len(it.args) == 2 and isinstance(s.target, ast.Tuple):
            a, aty = self.expr(it.args[0], env, pre)
            b, bty = self.expr(it.args[1], env, pre)
            if aty != "CANDS" or bty != "LB":
                self.bad(s, "zip source")
            xs, xty = par(b), "Bool"
            binds = {s.target.elts[0].id: "CAND", s.target.elts[1].id: "B"}
            unpack = f"let {s.target.elts[1].id} := it_"
        elif isinstance(s.target, ast.Name):
            src, sty = self.expr(it, env, pre)
            elem = {"LOF": "OF", "LB": "B", "LF": "F"}.get(sty)
            if elem is None:
                self.bad(s, "loop source")
            xs, xty = par(src), LEAN_TY[elem]
            binds = {s.target.id: elem}
            unpack = f"let {s.target.id} := it_"
        else:
            self.bad(s, "for loop")
        carried = [n for n in self.assigned(s.body) if (n in env or n == "self") and n not in binds]
        if not carried:
            self.bad(s, "loop without carried state")
        used = self.loaded(s.body)
        captured = [n for n in env if n in used and n not in carried and n not in binds and env[n] not in ("CAND",)]
        if "self" not in carried and "self" in used:
            captured = ["self"] + [n for n in captured if n != "self"]
        benv = dict(env)
        benv.update(binds)
        # a failing body (super().update inside the loop) makes the loop a foldlM in Except
        was = self.fails
        self.fails = False
        body = self.block(s.body, benv, 2, lambda e, v=None: [self.tuple_of(carried)])
        body_fails = self.fails
        self.fails = was or body_fails
        if body_fails:
            body = self.block(s.body, benv, 2, lambda e, v=None: [".ok " + self.tuple_of(carried)])

        def ty(n):
            return f"{self.obj} α" if n == "self" else LEAN_TY[{"CANDS": "N"}.get(env[n], env[n])]

        st_ty = " × ".join(ty(n) for n in carried)
        params = [(n, ty(n)) for n in captured] + [("st", st_ty), ("it_", xty)]
        lines = []
        if len(carried) == 1:
            lines.append(f"  let {carried[0]} := st")
        else:
            lines.append(f"  let {self.tuple_of(carried)} := st")
        for u in unpack.split("\n"):
            u = u.strip()
            # unused loop variables (`x_t`, the index) are still bound: harmless
            lines.append("  " + u)
        ret = f"Except BErr ({st_ty})" if body_fails else st_ty
        self.aux.append(Fn(lname, params, ret, "\n".join(lines + body)))
        callargs = " ".join(["nrm uni qf"] + captured)
        out = [pad + p for p in pre]
        if body_fails:
            out += [pad + f"match {xs}.foldlM ({lname} {callargs}) {self.tuple_of(carried)} with", pad + "| .error e => .error e",
                    pad + f"| .ok {self.tuple_of(carried)} =>"]
            return out + [("  " + l) for l in cont(env)]
        out.append(pad + f"let {self.tuple_of(carried)} := {xs}.foldl ({lname} {callargs}) {self.tuple_of(carried)}")
        return out + cont(env)

    # ---- the method -------------------------------------------------------------------------------
    def translate(self):
        f = self.fdef
        args = [a.arg for a in f.args.args][1:]
        env, params = {}, [("self", f"{self.obj} α")]
        for a in args:
            if a in ("utilities",):
                env[a] = "LOF"
                params.append((a, "List (Option α)"))
            elif a == "candidates":
                env[a] = "CANDS"
                params.append((a, "Nat"))
            elif a == "queried_indices":
                env[a] = "LN"
                params.append((a, "List Nat"))
            elif a == "return_utilities":
                env[a] = "B"
            else:
                self.bad(f, f"parameter {a}")
        env["self"] = "OBJ"
        is_update = f.name == "update"
        kinds = {}

        def final(e, value=None):
            if is_update:
                if value is None or ast.unparse(value) != "self":
                    self.bad(f, "update must return self")
                kinds["ret"] = f"{self.obj} α"
                return ["RET self"]
            pre = []
            if isinstance(value, ast.Tuple):
                parts = [self.expr(v, e, pre) for v in value.elts]
                kinds["ret"] = "(" + " × ".join(LEAN_TY[t] for _, t in parts) + f") × {self.obj} α"
                return [f"RET (({', '.join(p for p, _ in parts)}), self)"]
            t, ty = self.expr(value, e, pre)
            kinds["ret"] = f"{LEAN_TY[ty]} × {self.obj} α"
            return [f"RET ({t}, self)"]

        body = self.block(f.body, env, 2, final)
        wrap = ".ok " if self.fails else ""
        body = [l.replace("RET ", wrap) for l in body]
        ret = kinds["ret"]
        if self.fails:
            ret = f"Except BErr ({ret})"
        return self.aux + [Fn(f"{self.cls}.{f.name}", params, ret, "\n".join(body))]


def _load(t):
    import copy

    t = copy.deepcopy(t)
    for n in ast.walk(t):
        if hasattr(n, "ctx"):
            n.ctx = ast.Load()
    return t


def par(t):
    t = t.strip()
    if t.startswith("(") and _balanced(t):
        return t
    if all(ch.isalnum() or ch in "_.'" for ch in t):
        return t
    return f"({t})"


def _balanced(t):
    d = 0
    for i, ch in enumerate(t):
        if ch == "(":
            d += 1
        elif ch == ")":
            d -= 1
            if d == 0 and i != len(t) - 1:
                return False
    return d == 0


# ---------------------------------------------------------------------------------------------------------
# lazily initialised attributes


def collect_inits(classes, cls, seen=None):
    """`if not hasattr(self, a): self.a = <expr>` reachable from `cls._validate_data` (own helpers and super chain)."""
    inits, order = {}, []

    def visit_fn(cname, fname, depth=0):
        c = classes.get(cname)
        if c is None:
            return
        fn = next((b for b in c.body if isinstance(b, ast.FunctionDef) and b.name == fname), None)
        if fn is None:
            for base in c.bases:
                visit_fn(ast.unparse(base), fname, depth)
            return
        for st in fn.body:
            if isinstance(st, ast.Expr) and isinstance(st.value, ast.Constant):
                continue
            if isinstance(st, ast.Return):
                continue
            if isinstance(st, ast.If) and isinstance(st.test, ast.UnaryOp) and isinstance(st.test.op, ast.Not) \
                    and isinstance(st.test.operand, ast.Call) and ast.unparse(st.test.operand.func) == "hasattr" and not st.orelse \
                    and len(st.body) == 1 and isinstance(st.body[0], ast.Assign):
                a = st.test.operand.args[1].value
                tgt = st.body[0].targets[0]
                if ast.unparse(tgt) != f"self.{a}":
                    raise Unsupported(f"{cname}.{fname}: hasattr idiom assigns something else: {ast.unparse(st)[:80]}")
                if a not in inits:
                    inits[a] = ast.unparse(st.body[0].value)
                    order.append(a)
                continue
            calls = [n for n in ast.walk(st) if isinstance(n, ast.Call)]
            if isinstance(st, (ast.Expr, ast.Assign)) and calls:
                top = st.value
                f = ast.unparse(top.func) if isinstance(top, ast.Call) else None
                if f and f.startswith("super()."):
                    for base in c.bases:
                        visit_fn(ast.unparse(base), f.split(".", 1)[1], depth + 1)
                    continue
                if f and f.startswith("self._validate"):
                    visit_fn(cls, f.split(".", 1)[1], depth + 1)
                    continue
                if f in VALIDATE_OK_CALLS or (f and f.split(".")[-1] in VALIDATE_OK_CALLS):
                    # `self.random_state_ = check_random_state(self.random_state_)` and plain checks
                    if isinstance(st, ast.Assign) and ast.unparse(st.targets[0]) not in ("self.random_state_",):
                        raise Unsupported(f"{cname}.{fname}: validation assigns {ast.unparse(st.targets[0])}")
                    continue
            raise Unsupported(f"{cname}.{fname}: statement outside the validation idioms: {ast.unparse(st)[:90]}")

    visit_fn(cls, "_validate_data")
    return {a: inits[a] for a in order}


EXPECTED_INITS = {
    "EstimatedBudgetZliobaite": {"u_t_": "0"},
    "FixedUncertaintyBudgetManager": {"u_t_": "0"},
    "VariableUncertaintyBudgetManager": {"u_t_": "0", "theta_": "self.theta"},
    "RandomVariableUncertaintyBudgetManager": {"u_t_": "0", "theta_": "self.theta", "random_state_": "deepcopy(self.random_state)"},
    "SplitBudgetManager": {"u_t_": "0", "theta_": "self.theta", "random_state_": "deepcopy(self.random_state)"},
    "RandomBudgetManager": {"u_t_": "0", "random_state_": "deepcopy(self.random_state)"},
    "DensityBasedSplitBudgetManager": {"theta_": "self.theta", "u_": "0", "t_": "0", "random_state_": "deepcopy(self.random_state)"},
    "BalancedIncrementalQuantileFilter": {"observed_samples_": "0", "queried_samples_": "0", "history_sorted_": "deque(maxlen=self.w)"},
}


# ---------------------------------------------------------------------------------------------------------

HEADER = """import SkaModel.Core.Budget
import SkaModel.Core.Stream
import SkaModel.Core.PyRt

/-! GENERATED by harness/translate/pystream.py from the current source of
`skactiveml/stream/budgetmanager/*.py` and `skactiveml/stream/_stream_baselines.py` — do not edit.
One definition per translated method and per loop body; `SkaModel/Props/StreamGen.lean` proves them equal to
the hand-written models. `nrm` / `uni` are the streams of `normal(1, delta)` / `random_sample()` draws, `qf` is
`np.quantile(window, 1 - budget)`; `self.rng` is the generator's cursor. -/

set_option linter.unusedVariables false

namespace Ska.Gen.BM
open Ska Ska.Budget Ska.PyRt

variable {α : Type} [Add α] [Sub α] [Mul α] [Div α] [LT α] [DecidableLT α] [OfNat α 0] [OfNat α 1] [NatCast α]

"""


def parse_classes(repo):
    out = {}
    for _, path, _, _, _ in CLASSES:
        full = os.path.join(repo, path)
        if path in out:
            continue
        tree = ast.parse(open(full).read())
        out[path] = {n.name: n for n in tree.body if isinstance(n, ast.ClassDef)}
    return out


def translate_all(repo=None):
    """Returns (lean_text, report). Raises Unsupported."""
    repo = repo or vlib.REPO
    files = parse_classes(repo)
    chunks = []
    report = dict(methods=[], loops=0, inits={})
    for cls, path, obj, methods, parent in CLASSES:
        cdef = files[path].get(cls)
        if cdef is None:
            raise Unsupported(f"class {cls} not found in {path}")
        if cls in EXPECTED_INITS:
            got = collect_inits(files[path], cls)
            report["inits"][cls] = got
            if got != EXPECTED_INITS[cls]:
                raise Unsupported(f"{cls}: lazily initialised attributes are {got}, the model starts from {EXPECTED_INITS[cls]}")
        for m in methods:
            fdef = next((b for b in cdef.body if isinstance(b, ast.FunctionDef) and b.name == m), None)
            if fdef is None:
                raise Unsupported(f"{cls}.{m} not found")
            mt = MethodTranslator(None, cls, obj, parent, fdef)
            fns = mt.translate()
            report["methods"].append(f"{cls}.{m}")
            report["loops"] += mt.loops
            chunks.append(f"/-! ### `{cls}.{m}` ({path}:{fdef.lineno}) -/\n\n" + "\n".join(fn.text() for fn in fns))
    text = HEADER + "\n".join(chunks) + "\nend Ska.Gen.BM\n"
    return text, report


GEN_PATH = os.path.join(vlib.LEAN, "SkaModel", "Gen", "StreamBM.lean")


def generate(ctx=None, write=True):
    """Regenerate Gen/StreamBM.lean. On an untranslatable source the old file stays and the tie is reported broken."""
    try:
        text, report = translate_all()
    except Unsupported as e:
        if ctx is not None:
            ctx.broken.append(f"stream translator: the current source is outside the translated subset: {e}")
        return None
    if write:
        old = open(GEN_PATH).read() if os.path.exists(GEN_PATH) else None
        if old != text:
            with open(GEN_PATH, "w") as f:
                f.write(text)
    if ctx is not None:
        ctx.notes["stream_translator"] = dict(methods=len(report["methods"]), loops=report["loops"])
    return report


if __name__ == "__main__":
    import sys

    t, r = translate_all()
    if "--write" in sys.argv:
        open(GEN_PATH, "w").write(t)
    else:
        print(t)
    print(r, file=sys.stderr)
