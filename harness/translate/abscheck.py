"""Python mirror of `check` / `histCheck` of SkaModel/Core/Effects.lean over the IR.

Used to (a) infer the ownership declarations (closedAttrs / safeAttrs) of a class by a fixpoint,
(b) predict the truth value of every generated obligation (Lean's `decide` is the judge: a wrong
prediction breaks the build = broken tie), (c) name the atoms that make a summary fail (leads that
steer the dynamic search)."""


class Abs:
    """Bit sets as python sets: lm/lc/ln for locals, am/ac/an for attributes (see `Cls` in Lean)."""
    __slots__ = ("lm", "lc", "ln", "am", "ac", "an")

    def __init__(self, lm=(), lc=(), ln=(), am=(), ac=(), an=()):
        self.lm, self.lc, self.ln, self.am, self.ac, self.an = set(lm), set(lc), set(ln), set(am), set(ac), set(an)

    def copy(self):
        return Abs(self.lm, self.lc, self.ln, self.am, self.ac, self.an)

    def join(self, o):
        return Abs(self.lm & o.lm, self.lc & o.lc, self.ln & o.ln, self.am & o.am, self.ac & o.ac, self.an & o.an)

    def demote(self):
        return Abs(self.lm | self.lc, (), self.lm | self.lc | self.ln, self.am | self.ac, (), self.am | self.ac | self.an)


def cls_path(A, p):
    """(m, c, n)"""
    if p[0] == "loc":
        return (p[1] in A.lm, p[1] in A.lc, p[1] in A.ln)
    if p[0] == "attr":
        return (p[1] in A.am, p[1] in A.ac, p[1] in A.an)
    c = cls_path(A, p[1])[1]
    return (c, c, False)


def mut_ok(A, p):
    k = cls_path(A, p)
    return k[0] or k[1]


def all_closed(A, ps):
    return all(cls_path(A, p)[1] for p in ps)


def cls_rhs(A, r):
    if r[0] == "alias":
        return cls_path(A, r[1])
    if r[0] == "copy":
        c = cls_path(A, r[1])[1]
        return (True, c, not c)
    if r[0] == "deep":
        return (True, True, False)
    c = all_closed(A, r[1])
    return (True, c, not c)


def _setbit(s, x, b):
    if b:
        s.add(x)
    else:
        s.discard(x)


def _exit_ok(A, own):
    closed, safe = own
    return all(a in A.ac for a in closed) and all(a in A.am or a in A.ac for a in safe)


def check_items(params, items, A, leads, own=((), ())):
    """Returns (ok, A') with A' = None when every path through `items` leaves by an exception."""
    ok = True
    for it in items:
        k = it[0]
        if k == "abort":
            if not _exit_ok(A, own):
                ok = False
                leads.append(dict(kind="exit-ownership", attr="?", **it[1]))
            return ok, None
        if k == "ite":
            o1, A1 = check_items(params, it[1], A.copy(), leads, own)
            o2, A2 = check_items(params, it[2], A.copy(), leads, own)
            ok = ok and o1 and o2
            if A1 is None and A2 is None:
                return ok, None
            A = A2 if A1 is None else (A1 if A2 is None else A1.join(A2))
        elif k == "bind":
            m, c, n = cls_rhs(A, it[2])
            A = A.copy()
            _setbit(A.lm, it[1], m)
            _setbit(A.lc, it[1], c)
            _setbit(A.ln, it[1], n)
        elif k == "writeAttr":
            m, c, n = cls_rhs(A, it[2])
            if it[1] in params:
                ok = False
                leads.append(dict(kind="param-write", attr=it[1], **it[3]))
            A = A.copy()
            _setbit(A.am, it[1], m)
            _setbit(A.ac, it[1], c)
            _setbit(A.an, it[1], n)
        elif k == "mutate":
            if not mut_ok(A, it[1]):
                ok = False
                leads.append(dict(kind="mutation", path=show_path(it[1]), root=show_path(root(it[1])), **it[3]))
            if not (cls_path(A, it[1])[2] or all_closed(A, it[2])):
                A = A.demote()
        elif k == "callFit":
            if not mut_ok(A, it[1]):
                ok = False
                leads.append(dict(kind="fit-receiver", path=show_path(it[1]), root=show_path(root(it[1])), **it[2]))
        elif k == "callInner":
            A = Abs(A.lm, A.lc, A.ln, (), (), ())
        elif k == "readAttr":
            pass
    return ok, A


def frame_ok(params, closed, safe, items):
    leads = []
    ok, A = check_items(set(params), items, Abs((), (), (), set(safe) | set(closed), closed, ()), leads, (closed, safe))
    if A is not None:
        exit_closed = [a for a in closed if a not in A.ac]
        exit_safe = [a for a in safe if a not in A.am and a not in A.ac]
        for a in exit_closed + exit_safe:
            leads.append(dict(kind="exit-ownership", attr=a, file="", line=0, text="declared private attribute is not private on exit"))
        ok = ok and not exit_closed and not exit_safe
    return ok, A, leads


def exit_states(params, closed, safe, items):
    """Abstract states at every exit (normal exit and every abort)."""
    outs = []

    def walk(items, A):
        for it in items:
            k = it[0]
            if k == "abort":
                outs.append(A)
                return None
            if k == "ite":
                A1 = walk(it[1], A.copy())
                A2 = walk(it[2], A.copy())
                if A1 is None and A2 is None:
                    return None
                A = A2 if A1 is None else (A1 if A2 is None else A1.join(A2))
            else:
                _, A = check_items(set(params), [it], A, [])
        return A

    A = walk(items, Abs((), (), (), set(safe) | set(closed), closed, ()))
    if A is not None:
        outs.append(A)
    return outs


# ---- history -------------------------------------------------------------------------------------
def path_reads(p):
    if p[0] == "attr":
        return [p[1]]
    if p[0] == "sub":
        return path_reads(p[1])
    return []


def rhs_reads(r):
    if r[0] == "fresh":
        return [a for p in r[1] for a in path_reads(p)]
    return path_reads(r[1])


def atom_reads(it):
    k = it[0]
    if k in ("bind", "writeAttr"):
        return rhs_reads(it[2])
    if k == "mutate":
        return path_reads(it[1]) + [a for p in it[2] for a in path_reads(p)]
    if k in ("callFit", "callInner"):
        return path_reads(it[1])
    if k == "readAttr":
        return [it[1]]
    return []


def hist_items(params, items, W, leads):
    ok = True
    for it in items:
        if it[0] == "abort":
            return ok, None
        if it[0] == "ite":
            o1, W1 = hist_items(params, it[1], set(W), leads)
            o2, W2 = hist_items(params, it[2], set(W), leads)
            ok = ok and o1 and o2
            if W1 is None and W2 is None:
                return ok, None
            W = W2 if W1 is None else (W1 if W2 is None else W1 & W2)
        else:
            for a in atom_reads(it):
                if a not in params and a not in W:
                    ok = False
                    leads.append(dict(kind="read-before-write", attr=a, **it[-1]))
            if it[0] == "writeAttr":
                W = set(W) | {it[1]}
    return ok, W


def may_write(items):
    out = {}
    for it in items:
        if it[0] == "ite":
            out.update(may_write(it[1]))
            out.update(may_write(it[2]))
        elif it[0] == "writeAttr":
            out.setdefault(it[1], it[3])
        elif it[0] == "abort":
            break
    return out


def history_free(params, items):
    leads = []
    ok, W = hist_items(set(params), items, set(), leads)
    if W is not None:
        for a, meta in sorted(may_write(items).items()):
            if a not in W:
                ok = False
                leads.append(dict(kind="conditional-write", attr=a, **meta))
    return ok, W, leads


# ---- helpers -------------------------------------------------------------------------------------
def root(p):
    while p[0] == "sub":
        p = p[1]
    return p


def show_path(p):
    if p[0] == "loc":
        return p[1]
    if p[0] == "attr":
        return "self." + p[1]
    return f"{show_path(p[1])}[{p[2]}]"


def infer_ownership(params, method_items):
    """Largest (closed, safe) declarations that every summarised public method re-establishes."""
    cand = set()

    def collect(items):
        for it in items:
            if it[0] == "ite":
                collect(it[1])
                collect(it[2])
            elif it[0] == "writeAttr" and it[1] not in params:
                cand.add(it[1])

    for items in method_items.values():
        collect(items)
    closed, safe = set(cand), set()
    for _ in range(12):
        changed = False
        for items in method_items.values():
            for A in exit_states(params, sorted(closed), sorted(safe), items):
                for a in sorted(closed):
                    if a not in A.ac:
                        closed.discard(a)
                        if a in A.am:
                            safe.add(a)
                        changed = True
                for a in sorted(safe):
                    if a not in A.am and a not in A.ac:
                        safe.discard(a)
                        changed = True
        if not changed:
            break
    return sorted(closed), sorted(safe)
