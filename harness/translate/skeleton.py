"""AST translator (second tie for C01/C02): regenerates lean/SkaModel/Gen/Skeleton.lean from the current
source of skactiveml/pool/*.py.  For every pool strategy class it records how `query` ends:

    if mapping is None:            utilities = <expr>
    else:                          utilities = np.full(len(X), np.nan); utilities[mapping] = <expr>
    [utilities *= utility_weight]
    return simple_batch(utilities, self.random_state_, batch_size=batch_size,
                        return_utilities=return_utilities[, method=...])

("Skeleton A").  The Lean side proves once that a well-formed skeleton denotes `poolQueryA`
(Props/C01: `skel_sound`) and each class gets a generated obligation `skel_<Class>_wf … := by decide`.
"""
import ast
import os

from .. import vlib


def _is_name(node, name):
    return isinstance(node, ast.Name) and node.id == name


def _is_np_full_nan(node):
    # np.full(len(X), np.nan)  /  np.full(shape=len(X), fill_value=np.nan)
    if not (isinstance(node, ast.Call) and isinstance(node.func, ast.Attribute) and node.func.attr == "full"):
        return False
    args = list(node.args) + [k.value for k in node.keywords]
    if len(args) != 2:
        return False
    a0, a1 = args
    ok0 = isinstance(a0, ast.Call) and _is_name(a0.func, "len") and len(a0.args) == 1 and _is_name(a0.args[0], "X")
    ok1 = isinstance(a1, ast.Attribute) and a1.attr == "nan"
    return ok0 and ok1


def _stores_into(stmts, name):
    """all subscript stores / aug-assigns into `name` in a statement list (recursively)."""
    out = []
    for st in stmts:
        for node in ast.walk(st):
            if isinstance(node, ast.Assign):
                for t in node.targets:
                    if isinstance(t, ast.Subscript) and _is_name(t.value, name):
                        out.append(("subscript", ast.unparse(t.slice)))
            elif isinstance(node, ast.AugAssign):
                t = node.target
                if _is_name(t, name):
                    out.append(("aug", type(node.op).__name__ + ":" + ast.unparse(node.value)))
                elif isinstance(t, ast.Subscript) and _is_name(t.value, name):
                    out.append(("augsubscript", ast.unparse(t.slice)))
    return out


def analyse_query(fn):
    """Returns a dict of skeleton facts for a `query` FunctionDef."""
    facts = dict(retSimpleBatch=False, method="none", utilName="", noneBranchDirect=False, fullNaN=False,
                 writeAtMapping=False, post=[], otherStores=0)
    body = fn.body
    if not body or not isinstance(body[-1], ast.Return):
        return facts
    ret = body[-1].value
    if not (isinstance(ret, ast.Call) and _is_name(ret.func, "simple_batch")):
        return facts
    args = ret.args
    kws = {k.arg: k.value for k in ret.keywords}
    if not (len(args) >= 1 and isinstance(args[0], ast.Name)):
        return facts
    uname = args[0].id
    rs_ok = (len(args) >= 2 and ast.unparse(args[1]) == "self.random_state_") or \
        ("random_state" in kws and ast.unparse(kws["random_state"]) == "self.random_state_")
    bs_ok = "batch_size" in kws and _is_name(kws["batch_size"], "batch_size")
    ru_ok = "return_utilities" in kws and _is_name(kws["return_utilities"], "return_utilities")
    facts["utilName"] = uname
    facts["retSimpleBatch"] = bool(rs_ok and bs_ok and ru_ok)
    if "method" in kws:
        m = kws["method"]
        facts["method"] = m.value if isinstance(m, ast.Constant) and m.value in ("max", "proportional") else "other"
    else:
        facts["method"] = "max"
    # walk backwards over the statements before the return: allowed post statements, then the `if mapping is None`
    i = len(body) - 2
    post = []
    while i >= 0 and not isinstance(body[i], ast.If):
        st = body[i]
        if isinstance(st, ast.AugAssign) and _is_name(st.target, uname) and isinstance(st.op, ast.Mult) and _is_name(st.value, "utility_weight"):
            post.append("mul_utility_weight")
        elif isinstance(st, ast.Expr) and isinstance(st.value, ast.Constant):
            pass  # stray docstring/comment expression
        else:
            post.append("other:" + " ".join(ast.unparse(st).split())[:40].replace('"', "'"))
        i -= 1
    facts["post"] = list(reversed(post))
    if i < 0:
        return facts
    iff = body[i]
    test = iff.test
    is_none_test = (isinstance(test, ast.Compare) and _is_name(test.left, "mapping") and len(test.ops) == 1
                    and isinstance(test.ops[0], ast.Is) and isinstance(test.comparators[0], ast.Constant)
                    and test.comparators[0].value is None)
    if not is_none_test:
        return facts
    # then-branch: exactly `utilities = <expr>`
    tb = iff.body
    facts["noneBranchDirect"] = (len(tb) == 1 and isinstance(tb[0], ast.Assign) and len(tb[0].targets) == 1
                                 and _is_name(tb[0].targets[0], uname))
    eb = iff.orelse
    if len(eb) == 2 and isinstance(eb[0], ast.Assign) and _is_name(eb[0].targets[0], uname) and _is_np_full_nan(eb[0].value):
        facts["fullNaN"] = True
        st = eb[1]
        if (isinstance(st, ast.Assign) and len(st.targets) == 1 and isinstance(st.targets[0], ast.Subscript)
                and _is_name(st.targets[0].value, uname) and _is_name(st.targets[0].slice, "mapping")):
            facts["writeAtMapping"] = True
    # any other store into `utilities` anywhere else in the function (outside this if) breaks the skeleton
    others = _stores_into(body[:i] + body[i + 1:-1], uname)
    facts["otherStores"] = len([o for o in others if not (o[0] == "aug" and o[1].startswith("Mult:utility_weight"))])
    return facts


def pool_classes():
    """{class name: (file, query FunctionDef)} for classes defined in skactiveml/pool/_*.py that define query."""
    out = {}
    pdir = os.path.join(vlib.REPO, "skactiveml", "pool")
    for fn in sorted(os.listdir(pdir)):
        if not (fn.startswith("_") and fn.endswith(".py")) or fn == "__init__.py":
            continue
        try:
            tree = ast.parse(open(os.path.join(pdir, fn)).read())
        except SyntaxError:
            continue
        for node in tree.body:
            if isinstance(node, ast.ClassDef):
                for m in node.body:
                    if isinstance(m, ast.FunctionDef) and m.name == "query":
                        out[node.name] = (fn, m)
    return out


def lean_str(s):
    return '"' + s.replace("\\", "\\\\").replace('"', '\\"') + '"'


def generate(expected_A):
    """Writes Gen/Skeleton.lean. Returns (facts per class, list of classes expected A but not well-formed)."""
    classes = pool_classes()
    lines = ["import SkaModel.Core.Skeleton", "",
             "/-! GENERATED by harness/translate/skeleton.py from the current /repo source — do not edit. -/", "",
             "namespace Ska.Gen.Skeleton", "open Ska.Skeleton", ""]
    allfacts, broken = {}, []
    names = []
    for cls, (fn, q) in sorted(classes.items()):
        f = analyse_query(q)
        allfacts[cls] = f
        wf = (f["retSimpleBatch"] and f["method"] in ("max", "proportional") and f["noneBranchDirect"] and f["fullNaN"]
              and f["writeAtMapping"] and all(p == "mul_utility_weight" for p in f["post"]) and f["otherStores"] == 0)
        f["wellFormed"] = wf
        post = "[" + ", ".join(lean_str(p) for p in f["post"]) + "]"
        lines.append(f"def skel_{cls} : Skel := {{ cls := {lean_str(cls)}, file := {lean_str(fn)}, retSimpleBatch := {str(f['retSimpleBatch']).lower()}, "
                     f"method := {lean_str(f['method'])}, noneBranchDirect := {str(f['noneBranchDirect']).lower()}, fullNaN := {str(f['fullNaN']).lower()}, "
                     f"writeAtMapping := {str(f['writeAtMapping']).lower()}, post := {post}, otherStores := {f['otherStores']} }}")
        lines.append(f"theorem skel_{cls}_wf : (skel_{cls}).wellFormed = {str(wf).lower()} := by decide")
        lines.append("")
        names.append(cls)
        if cls in expected_A and not wf:
            broken.append(cls)
    for cls in expected_A:
        if cls not in classes:
            broken.append(cls)
    lines.append("def all : List Skel := [" + ", ".join(f"skel_{c}" for c in names) + "]")
    lines.append("")
    lines.append("end Ska.Gen.Skeleton")
    path = os.path.join(vlib.LEAN, "SkaModel", "Gen", "Skeleton.lean")
    new = "\n".join(lines) + "\n"
    old = open(path).read() if os.path.exists(path) else None
    if new != old:
        with open(path, "w") as fh:
            fh.write(new)
    return allfacts, broken
