"""AST -> effect summary (the IR mirrored by `SkaModel/Core/Effects.lean`).

IR
--
path  : ('loc', name) | ('attr', name) | ('sub', path, key)
rhs   : ('alias', path) | ('copy', path) | ('deep', path) | ('fresh', [path, ...])
atom  : ('bind', x, rhs, meta) | ('writeAttr', a, rhs, meta) | ('mutate', path, [path], meta)
        | ('callFit', path, meta) | ('callInner', path, meta) | ('readAttr', a, meta)
item  : atom | ('ite', [item], [item])
meta  : dict(file, line, text)

What the translator understands is listed in `harness/translate/README` (docstring of __init__).
"""
import ast
import os

from .pyindex import Index

MAX_DEPTH = 6

# ---- knowledge about library calls ------------------------------------------------------------
DEEP_FUNCS = {"clone", "deepcopy"}
COPY_FUNCS = {"dict", "list", "set", "tuple", "sorted", "copy", "array", "frozenset", "deque"}
COPY_METHODS = {"copy", "astype", "flatten", "tolist"}
# functions / methods that may return (a view of) their first argument / receiver
ALIAS_FUNCS = {
    "asarray", "atleast_1d", "atleast_2d", "ravel", "reshape", "squeeze", "check_array", "column_or_1d",
    "check_X_y", "ascontiguousarray", "check_random_state_sklearn", "transpose", "as_float_array",
    "asanyarray", "expand_dims", "iter", "reversed",
}
ALIAS_METHODS = {"reshape", "ravel", "view", "squeeze", "transpose", "swapaxes", "get", "setdefault", "values", "items", "keys", "__getitem__"}
ALIAS_ATTRS = {"T", "flat", "real"}
FIT_METHODS = {"fit", "partial_fit", "set_params", "fit_predict", "fit_transform"}
FIT_RETURNS_SELF = {"fit", "partial_fit", "set_params"}
MUTATOR_METHODS = {
    "append", "appendleft", "extend", "extendleft", "insert", "pop", "popleft", "popitem", "remove", "clear", "update",
    "setdefault", "sort", "reverse", "add", "discard", "fill", "put", "resize", "itemset", "setflags",
    "__setitem__", "__delitem__", "rotate", "partition",
}
STRATEGY_METHODS = {"query", "update", "query_by_utility"}
# methods known to return newly built objects (predictions, utilities, ...)
FRESH_RESULT_METHODS = {
    "predict", "predict_proba", "predict_freq", "predict_target_distribution", "sample_y", "sample_proba", "sample",
    "predict_annotator_perf", "transform", "kneighbors", "decision_function", "predict_log_proba", "score",
    "inverse_transform", "query", "query_by_utility", "fit_predict", "fit_transform", "rvs", "pdf", "logpdf", "cdf",
    "ppf", "mean", "std", "var", "sum", "max", "min", "argmax", "argmin", "any", "all", "nonzero", "cumsum", "round",
    "dot", "item", "format", "join", "split", "strip", "lower", "upper", "startswith", "endswith", "index", "count",
}
# numeric array constructors: the result cannot be proved closed (it may later receive arbitrary
# values), but it certainly is a new object
ARRAY_CTORS = {"zeros", "ones", "full", "empty", "zeros_like", "ones_like", "full_like", "empty_like", "arange", "eye", "identity", "linspace"}
ANY = ("loc", "$any")
RNG_METHODS = {
    "rand", "randn", "randint", "random", "random_sample", "choice", "permutation", "shuffle", "uniform", "normal",
    "multivariate_normal", "dirichlet", "beta", "binomial", "multinomial", "standard_normal", "integers",
    "exponential", "gamma", "poisson", "bytes", "sample", "seed", "get_state", "set_state",
}
NP_FRESH = {
    "zeros", "ones", "full", "empty", "arange", "linspace", "eye", "zeros_like", "ones_like", "full_like", "empty_like",
    "unique", "where", "argwhere", "argsort", "sum", "mean", "max", "min", "argmax", "argmin", "nanmax", "nanmin",
    "concatenate", "append", "vstack", "hstack", "stack", "delete", "isnan", "sqrt", "exp", "log", "abs", "var",
    "average", "dot", "outer", "tile", "repeat", "cumsum", "prod", "round", "floor", "ceil", "clip", "sort",
    "setdiff1d", "intersect1d", "union1d", "isin", "nonzero", "flatnonzero", "meshgrid", "bincount", "searchsorted",
    "len", "int", "float", "str", "bool", "range", "enumerate", "zip", "isinstance", "hasattr", "callable", "type",
    "is_labeled", "is_unlabeled", "labeled_indices", "unlabeled_indices", "check_scalar", "check_type",
    "rand_argmax", "rand_argmin", "simple_batch", "pairwise_kernels", "pairwise_distances", "print", "any", "all",
    "check_consistent_length", "check_n_features", "check_is_fitted", "check_missing_label", "check_classes",
    "check_cost_matrix", "check_indices", "check_equal_missing_label", "check_class_prior", "warn", "format",
    "has_fit_parameter", "is_classifier", "is_regressor", "signature", "ValueError", "TypeError", "getattr_static",
    "compute_vote_vectors", "majority_vote", "ext_confusion_matrix", "max", "min", "sum", "abs", "round",
}


class Term(Exception):
    pass


class Frame:
    """One (possibly inlined) function activation."""

    def __init__(self, sm, module, owner_cls, fn, self_path, tag):
        self.sm, self.module, self.owner_cls, self.fn, self.self_path, self.tag = sm, module, owner_cls, fn, self_path, tag
        self.names = {}     # python local name -> IR local name
        self.consts = {}    # python local name -> python constant (for folding)
        self.vals = {}      # python local name -> value descriptor (for tuple-valued locals)
        self.localdefs = {}  # nested function definitions
        self.ret = None     # IR name(s) holding the return value
        self.ret_tuple = None
        self.rngkind = {}   # python local name -> rng source kind
        self.arrays = set() # python local names known to hold numeric arrays / numbers
        self.scalars = set()  # python local names known to hold immutable scalars
        self.objs = {}      # python local name -> (ClassInfo, rng kind of its random_state argument)
        self.dynfuncs = set()  # python local names bound to getattr(obj, <dynamic name>)

    def ir(self, name):
        if name not in self.names:
            self.names[name] = name if not self.tag else f"{name}@{self.tag}"
        return self.names[name]


class Summarizer:
    """Summarises one method of one class (following helper calls)."""

    def __init__(self, index: Index, cls, method, params):
        self.ix, self.cls, self.method = index, cls, method
        self.params = list(params)
        self.tmp = 0
        self.tagc = 0
        self.stack = []          # inlining stack of (module, qualname)
        self.rng_sites = []      # (src, meta)
        self.notes = []          # constructs not understood
        self.attrs_written = set()
        self.locals_all = set()
        self.in_try = 0
        self.try_normal = False
        self.dyn_ir = set()      # IR locals holding a method chosen dynamically by getattr
        self.seeded_ir = set()   # IR locals holding a kwargs dict that received a derived `random_state`
        self.helper_seen = set()
        self.known_attrs = {"n_features_in_"}
        for c in self.ix.mro(cls):
            for fn in c.methods.values():
                for n in ast.walk(fn):
                    tg = n.targets if isinstance(n, ast.Assign) else ([n.target] if isinstance(n, (ast.AugAssign, ast.AnnAssign)) else [])
                    for t in tg:
                        for x in ast.walk(t):
                            if isinstance(x, ast.Attribute) and isinstance(x.value, ast.Name) and x.value.id == "self":
                                self.known_attrs.add(x.attr)
                    if isinstance(n, ast.Call) and isinstance(n.func, ast.Name) and n.func.id == "setattr" and len(n.args) >= 2 and isinstance(n.args[1], ast.Constant):
                        self.known_attrs.add(n.args[1].value)
        self.scalar_attrs = set()
        for n, (d, _) in self.ix.ctor_defaults(cls).items():
            if isinstance(d, ast.Constant) and isinstance(d.value, (int, float, bool, str)) and d.value is not None:
                self.scalar_attrs.add(n)

    # ---- small helpers -----------------------------------------------------------------------
    def meta(self, fr, node, text=None):
        file = self.ix.files.get(fr.module, fr.module)
        try:
            seg = text or ast.unparse(node)
        except Exception:
            seg = "?"
        return dict(file=os.path.relpath(file, self.ix.repo), line=getattr(node, "lineno", 0), text=" ".join(seg.split())[:110])

    def newtmp(self, hint="t"):
        self.tmp += 1
        n = f"${hint}{self.tmp}"
        self.locals_all.add(n)
        return n

    def emit(self, item):
        self.cur.append(item)

    def is_param(self, a):
        return a in self.params

    def is_method_name(self, a):
        return self.ix.resolve_method(self.cls, a) is not None

    # ---- entry ----------------------------------------------------------------------------------
    def run(self):
        r = self.ix.resolve_method(self.cls, self.method)
        if r is None:
            return None
        owner, fn = r
        fr = Frame(self, owner.module, owner, fn, ("self",), "")
        self.cur = []
        top = self.cur
        a = fn.args
        argnames = [x.arg for x in a.posonlyargs + a.args][1:] + [x.arg for x in a.kwonlyargs]
        if a.vararg:
            argnames.append(a.vararg.arg)
        if a.kwarg:
            argnames.append(a.kwarg.arg)
        self.args = argnames
        self.scalar_args = set()
        pos = a.posonlyargs + a.args
        for arg, d in list(zip(pos[len(pos) - len(a.defaults):], a.defaults)) + [(k, d) for k, d in zip(a.kwonlyargs, a.kw_defaults) if d is not None]:
            if isinstance(d, ast.Constant) and isinstance(d.value, (int, float, bool, str)) and d.value is not None:
                self.scalar_args.add(arg.arg)
        self.scalar_args |= {n for n in argnames if n in ("batch_size", "n_samples", "return_utilities", "fit_clf", "fit_reg", "fit_ensemble")}
        for n in argnames:
            fr.ir(n)
        for extra in ([a.vararg.arg] if a.vararg else []) + ([a.kwarg.arg] if a.kwarg else []):
            # *args / **kwargs are new containers built by the call; their contents are the caller's
            self.emit(("bind", extra, ("fresh", [("loc", "$caller")]), dict(file="", line=fn.lineno, text=f"*{extra}: new container holding caller values")))
        self.stack.append((owner.module, f"{owner.name}.{fn.name}"))
        self.block(fr, fn.body)
        self.stack.pop()
        # locals that are not arguments are unbound on entry: bind them to a fresh immutable value
        pre = [("bind", n, ("fresh", []), dict(file="", line=0, text="(local, unbound on entry)")) for n in sorted(self.locals_all) if n not in argnames and n != "$caller"]
        return pre + top

    # ---- statements -----------------------------------------------------------------------------
    def block(self, fr, stmts):
        """Translate statements into self.cur; returns True when the block always terminates."""
        for i, st in enumerate(stmts):
            if isinstance(st, ast.If):
                known, val = self.const_test(fr, st.test)
                if known:
                    if self.block(fr, st.body if val else st.orelse):
                        return True
                    continue
                pure_hasattr = self.is_self_hasattr(st.test)
                init_idiom = bool(pure_hasattr) and self.is_hasattr_init(st, pure_hasattr)
                if not pure_hasattr:
                    self.expr(fr, st.test)
                refine = self.isinstance_refinement(fr, st.test)
                outer = self.cur
                saved = self.snapshot(fr)
                self.cur = t_items = []
                if refine and not refine[1]:
                    self.emit_refinement(fr, refine[0], st)
                t_term = self.block(fr, st.body)
                after_t = self.snapshot(fr)
                self.restore(fr, saved)
                self.cur = e_items = []
                if refine and refine[1]:
                    self.emit_refinement(fr, refine[0], st)
                e_term = self.block(fr, st.orelse)
                self.merge_consts(fr, after_t, t_term, e_term)
                rest = stmts[i + 1:]
                if pure_hasattr and not (t_term or e_term) and _strip(t_items) == _strip(e_items):
                    # `if hasattr(self, a): X else: X` — the test has no influence
                    self.cur = outer
                    outer.extend(t_items)
                    continue
                if pure_hasattr and not init_idiom:
                    outer.append(("readAttr", pure_hasattr, self.meta(fr, st.test)))
                if t_term and e_term:
                    self.cur = outer
                    outer.append(("ite", t_items, e_items))
                    return True
                if t_term:
                    self.cur = e_items
                    r = self.block(fr, rest)
                    self.cur = outer
                    outer.append(("ite", t_items, e_items))
                    return r
                if e_term:
                    self.cur = t_items
                    self.restore_names(fr, after_t)
                    r = self.block(fr, rest)
                    self.cur = outer
                    outer.append(("ite", t_items, e_items))
                    return r
                self.cur = outer
                outer.append(("ite", t_items, e_items))
                continue
            try:
                self.stmt(fr, st)
            except Term:
                return True
        return False

    def snapshot(self, fr):
        return (dict(fr.consts), dict(fr.vals), dict(fr.rngkind), set(fr.arrays), set(fr.scalars), dict(fr.objs), set(fr.dynfuncs))

    def restore(self, fr, snap):
        fr.consts, fr.vals, fr.rngkind, fr.arrays, fr.scalars = dict(snap[0]), dict(snap[1]), dict(snap[2]), set(snap[3]), set(snap[4])
        fr.objs, fr.dynfuncs = dict(snap[5]), set(snap[6])

    def restore_names(self, fr, snap):
        self.restore(fr, snap)

    def merge_consts(self, fr, after_t, t_term, e_term):
        """After an if/else: keep only facts that hold on both (non-terminating) paths."""
        if t_term and not e_term:
            return
        if e_term and not t_term:
            self.restore(fr, after_t)
            return
        ct, vt, rt, at, st_, ot, dt = after_t
        fr.objs = {k: v for k, v in fr.objs.items() if ot.get(k) == v}
        fr.dynfuncs = fr.dynfuncs | dt
        fr.arrays = fr.arrays & at
        fr.scalars = fr.scalars & st_
        fr.consts = {k: v for k, v in fr.consts.items() if k in ct and _same_const(ct[k], v)}
        fr.vals = {k: v for k, v in fr.vals.items() if k in vt and vt[k] == v}
        fr.rngkind = {k: v for k, v in fr.rngkind.items() if rt.get(k) == v}

    def is_hasattr_init(self, st, attr):
        """`if not hasattr(self, A): self.A = <expr>` — installs a default; what matters for
        history-freeness is whether A is read later without a certain write, not this test."""
        if st.orelse or len(st.body) != 1 or not (isinstance(st.test, ast.UnaryOp) and isinstance(st.test.op, ast.Not)):
            return False
        b = st.body[0]
        return (isinstance(b, ast.Assign) and len(b.targets) == 1 and isinstance(b.targets[0], ast.Attribute)
                and isinstance(b.targets[0].value, ast.Name) and b.targets[0].value.id == "self" and b.targets[0].attr == attr
                and not any(isinstance(n, ast.Attribute) and isinstance(n.value, ast.Name) and n.value.id == "self" and n.attr == attr
                            for n in ast.walk(b.value)))

    def isinstance_refinement(self, fr, test):
        """`isinstance(x, T)` / `not isinstance(x, T)` on a local or a non-parameter attribute:
        returns (target node, positive?)."""
        pos = True
        t = test
        if isinstance(t, ast.UnaryOp) and isinstance(t.op, ast.Not):
            t, pos = t.operand, False
        if not (isinstance(t, ast.Call) and isinstance(t.func, ast.Name) and t.func.id == "isinstance" and len(t.args) == 2):
            return None
        x = t.args[0]
        if isinstance(x, ast.Name) and x.id in fr.names and x.id != "self":
            return (x, pos)
        if isinstance(x, ast.Attribute) and self.is_self(fr, x.value) and fr.self_path == ("self",) and not self.is_param(x.attr):
            return (x, pos)
        return None

    def emit_refinement(self, fr, x, node):
        """In the branch where `x` is *not* an instance of the tested (container / estimator) type it
        is treated as an immutable value (assumption: such configurations are rejected)."""
        m = self.meta(fr, node, f"[type refinement] {ast.unparse(x)} is not an instance here")
        if isinstance(x, ast.Name):
            self.emit(("bind", fr.ir(x.id), ("fresh", []), m))
        else:
            self.emit(("writeAttr", x.attr, ("fresh", []), m))

    def is_self_hasattr(self, test):
        t = test
        if isinstance(t, ast.UnaryOp) and isinstance(t.op, ast.Not):
            t = t.operand
        if (isinstance(t, ast.Call) and isinstance(t.func, ast.Name) and t.func.id == "hasattr" and len(t.args) == 2
                and isinstance(t.args[0], ast.Name) and t.args[0].id == "self" and isinstance(t.args[1], ast.Constant)
                and isinstance(t.args[1].value, str) and not self.is_param(t.args[1].value)):
            return t.args[1].value
        return None

    def stmt(self, fr, st):
        if isinstance(st, ast.Expr):
            if isinstance(st.value, ast.Constant):
                return
            self.expr(fr, st.value)
        elif isinstance(st, ast.Assign):
            v = self.expr(fr, st.value)
            for t in st.targets:
                self.assign(fr, t, v, st, st.value)
        elif isinstance(st, ast.AnnAssign):
            if st.value is not None:
                self.assign(fr, st.target, self.expr(fr, st.value), st, st.value)
        elif isinstance(st, ast.AugAssign):
            v = self.expr(fr, st.value)
            t = st.target
            if isinstance(t, ast.Name):
                fr.consts.pop(t.id, None)
                fr.vals.pop(t.id, None)
                name = fr.ir(t.id)
                self.locals_all.add(name)
                if (not fr.tag and t.id in self.scalar_args) or t.id in fr.scalars:
                    self.emit(("bind", name, ("fresh", []), self.meta(fr, st)))
                else:
                    # in-place for lists / arrays, rebinding for immutables: both covered by a mutation
                    # through the name (harmless when the value is a fresh / immutable one)
                    stored = [] if (t.id in fr.arrays or self.is_numeric(fr, st.value)) else self.paths_of(v)
                    self.emit(("mutate", ("loc", name), stored, self.meta(fr, st)))
            elif isinstance(t, ast.Attribute) and self.is_self(fr, t.value):
                self.read_attr(fr, t.attr, st)
                self.write_attr(fr, t.attr, ("fresh", []), st)
            else:
                base = self.to_path(fr, self.expr(fr, t.value), st)
                stored = [] if self.is_numeric(fr, t.value) or self.is_numeric(fr, st.value) else self.paths_of(v)
                self.emit(("mutate", base, stored, self.meta(fr, st)))
        elif isinstance(st, ast.Return):
            v = self.expr(fr, st.value) if st.value is not None else ("fresh", [])
            self.do_return(fr, v, st)
            raise Term()
        elif isinstance(st, ast.Raise):
            if st.exc is not None:
                self.expr(fr, st.exc)
            if self.in_try == 0 or self.try_normal:
                # outside try: the method leaves by the exception.  Inside the normal-completion copy of a
                # try body: this path does not complete the body (it is covered by the handler alternative)
                self.emit(("abort", self.meta(fr, st)))
            raise Term()
        elif isinstance(st, (ast.Break, ast.Continue)):
            raise Term()
        elif isinstance(st, (ast.For, ast.AsyncFor)):
            itv = self.expr(fr, st.iter)
            outer = self.cur
            self.cur = body1 = []
            self.bind_loop_target(fr, st.target, st.iter, itv, st)
            term1 = self.block(fr, st.body)
            if not term1:
                # a second iteration happens only after a first one
                self.cur = body2 = []
                self.bind_loop_target(fr, st.target, st.iter, itv, st)
                self.block(fr, st.body)
                body1.append(("ite", body2, []))
            self.cur = outer
            outer.append(("ite", body1, []))
            if st.orelse:
                self.block(fr, st.orelse)
        elif isinstance(st, ast.While):
            outer = self.cur
            known, val = self.const_test(fr, st.test)
            self.cur = body1 = []
            self.expr(fr, st.test)
            term1 = self.block(fr, st.body)
            if not term1:
                self.cur = body2 = []
                self.expr(fr, st.test)
                self.block(fr, st.body)
                body1.append(("ite", body2, []))
            self.cur = outer
            if known and val:
                outer.extend(body1)     # `while True:` runs at least once
            else:
                outer.append(("ite", body1, []))
            if st.orelse:
                self.block(fr, st.orelse)
        elif isinstance(st, ast.Try):
            outer = self.cur
            self.cur = body = []
            saved_tn = self.try_normal
            if st.handlers:
                self.in_try += 1
                self.try_normal = True
            b_term = self.block(fr, st.body)
            if st.handlers:
                self.in_try -= 1
            self.try_normal = saved_tn
            if not b_term and st.orelse:
                b_term = self.block(fr, st.orelse)
            self.cur = partial = []
            if st.handlers:
                self.in_try += 1
                self.try_normal = False
                self.block(fr, st.body)  # an exception may leave the body half-way: "body or nothing"
                self.in_try -= 1
                self.try_normal = saved_tn
            handlers = [("ite", partial, [])]
            h_term_all = bool(st.handlers)
            hblocks = []
            for h in st.handlers:
                self.cur = hb = []
                if h.name:
                    n = fr.ir(h.name)
                    self.locals_all.add(n)
                ht = self.block(fr, h.body)
                h_term_all = h_term_all and ht
                hblocks.append(hb)
            # exactly one handler runs on the exceptional path (the last one stands for "the others did not match")
            chain = hblocks[-1] if hblocks else []
            for hb in reversed(hblocks[:-1]):
                chain = [("ite", hb, chain)]
            handlers.extend(chain)
            self.cur = outer
            if st.handlers:
                outer.append(("ite", body, handlers))
            else:
                outer.extend(body)
            if st.finalbody:
                self.block(fr, st.finalbody)
            if b_term and h_term_all:
                raise Term()
        elif isinstance(st, (ast.With, ast.AsyncWith)):
            for it in st.items:
                v = self.expr(fr, it.context_expr)
                if it.optional_vars is not None:
                    self.assign(fr, it.optional_vars, v, st, it.context_expr)
            if self.block(fr, st.body):
                raise Term()
        elif isinstance(st, (ast.FunctionDef, ast.AsyncFunctionDef)):
            fr.localdefs[st.name] = st
            n = fr.ir(st.name)
            self.locals_all.add(n)
            self.emit(("bind", n, ("fresh", []), self.meta(fr, st, f"def {st.name}(...)")))
            # A nested function is usually handed to a helper as a callback (e.g. `_conditional_expect(X, func,
            # reg)`): summarise its body here as "may run, with unknown arguments"; its free variables are the
            # enclosing method's locals.
            if len(self.stack) < MAX_DEPTH and (fr.module, "<closure>" + st.name) not in self.stack:
                outer = self.cur
                self.cur = body = []
                a = st.args
                unknown = [("pos", ("fresh", [ANY])) for _ in a.posonlyargs + a.args]
                kws = [(x.arg, ("fresh", [ANY]), None) for x in a.kwonlyargs]
                self.stack.append((fr.module, "<closure>" + st.name))
                try:
                    self.inline(fr, fr.module, fr.owner_cls, st, fr.self_path if fr.owner_cls else None, unknown, kws, st, closure=fr, bind_self=False)
                finally:
                    self.stack.pop()
                self.cur = outer
                outer.append(("ite", body, []))
        elif isinstance(st, ast.Delete):
            for t in st.targets:
                if isinstance(t, ast.Attribute) and self.is_self(fr, t.value):
                    self.write_attr(fr, t.attr, ("fresh", []), st)
                elif isinstance(t, ast.Subscript):
                    base = self.to_path(fr, self.expr(fr, t.value), st)
                    self.emit(("mutate", base, [], self.meta(fr, st)))
        elif isinstance(st, (ast.Pass, ast.Assert, ast.Import, ast.ImportFrom, ast.Global, ast.Nonlocal, ast.ClassDef)):
            return
        elif isinstance(st, ast.If):
            self.block(fr, [st])
        else:
            self.notes.append(f"statement not understood: {type(st).__name__} at {fr.module}:{st.lineno}")

    def do_return(self, fr, v, node):
        if fr.ret is None:
            return  # top-level method: the return value is not tracked
        val = node.value
        if isinstance(val, ast.Tuple) and fr.ret_tuple is not None and len(val.elts) == len(fr.ret_tuple):
            for n, x in zip(fr.ret_tuple, val.elts):
                if isinstance(x, ast.Name) and x.id in fr.dynfuncs:
                    self.dyn_ir.add(n)
                if isinstance(x, ast.Name) and fr.names.get(x.id) in self.seeded_ir:
                    self.seeded_ir.add(n)
        elif isinstance(val, ast.Name) and val.id in fr.dynfuncs:
            self.dyn_ir.add(fr.ret)
        elif isinstance(val, ast.Name) and fr.names.get(val.id) in self.seeded_ir:
            self.seeded_ir.add(fr.ret)
        if v[0] == "tuple" and fr.ret_tuple is not None and len(v[1]) == len(fr.ret_tuple):
            for n, e in zip(fr.ret_tuple, v[1]):
                self.emit(("bind", n, self.to_rhs(fr, e, node), self.meta(fr, node)))
            fr.ret_seen_tuple = True
        else:
            fr.ret_plain = True
            self.emit(("bind", fr.ret, self.to_rhs(fr, v, node), self.meta(fr, node)))

    def bind_loop_target(self, fr, target, iter_node, itv, node):
        """for <target> in <iter>: bind the target(s) to elements of the iterable(s)."""
        f = iter_node
        if isinstance(f, ast.Call) and isinstance(f.func, ast.Name) and f.func.id in ("enumerate", "zip") and isinstance(target, (ast.Tuple, ast.List)):
            args = f.args
            if f.func.id == "enumerate":
                elts = [("fresh", [])] + [self.elem_of(fr, self.expr(fr, args[0]), node)] if args else []
            else:
                elts = [self.elem_of(fr, self.expr(fr, a), node) for a in args]
            if len(elts) == len(target.elts):
                for t, e in zip(target.elts, elts):
                    self.assign(fr, t, e, node, None)
                return
        if (isinstance(f, ast.Call) and isinstance(f.func, ast.Attribute) and f.func.attr == "items" and isinstance(target, (ast.Tuple, ast.List))
                and len(target.elts) == 2):
            base = self.expr(fr, f.func.value)
            self.assign(fr, target.elts[0], ("fresh", []), node, None)
            self.assign(fr, target.elts[1], self.elem_of(fr, base, node), node, None)
            return
        self.assign(fr, target, self.elem_of(fr, itv, node), node, None)

    def elem_of(self, fr, v, node):
        if v[0] == "p":
            return ("p", ("sub", v[1], "*"))
        if v[0] == "tuple":
            # element of a literal tuple/list: any of its members
            t = self.newtmp("el")
            first = True
            for e in v[1]:
                item = ("bind", t, self.to_rhs(fr, e, node), self.meta(fr, node))
                if first:
                    self.emit(item)
                    first = False
                else:
                    self.emit(("ite", [item], []))
            return ("p", ("loc", t)) if not first else ("fresh", [])
        if v[0] in ("copy", "deep"):
            p = self.to_path(fr, v, node)
            return ("p", ("sub", p, "*"))
        if v[0] == "fresh":
            if not v[1]:
                return ("fresh", [])
            p = self.to_path(fr, v, node)
            return ("p", ("sub", p, "*"))
        return ("fresh", [])

    # ---- assignment -----------------------------------------------------------------------------
    def assign(self, fr, target, v, node, value_node):
        if isinstance(target, ast.Name):
            name = fr.ir(target.id)
            self.locals_all.add(name)
            fr.consts.pop(target.id, None)
            fr.vals.pop(target.id, None)
            fr.rngkind.pop(target.id, None)
            if v[0] == "const":
                fr.consts[target.id] = v[1]
            if v[0] == "tuple":
                fr.vals[target.id] = v
            k = self.rng_kind_of_value(fr, value_node) if value_node is not None else None
            if k:
                fr.rngkind[target.id] = k
            fr.arrays.discard(target.id)
            fr.scalars.discard(target.id)
            fr.objs.pop(target.id, None)
            fr.dynfuncs.discard(target.id)
            if v[0] == "p" and v[1][0] == "loc" and v[1][1] in self.dyn_ir:
                fr.dynfuncs.add(target.id)
            if v[0] == "p" and v[1][0] == "loc" and v[1][1] in self.seeded_ir:
                self.seeded_ir.add(name)
            if isinstance(value_node, ast.Call) and isinstance(value_node.func, ast.Name) and value_node.func.id == "dict":
                for k in value_node.keywords:
                    if k.arg in ("random_state", "seed") and self.rng_kind(fr, k.value) in ("own", "derived", "seededArg"):
                        self.seeded_ir.add(name)
            if isinstance(value_node, ast.Call):
                vf = value_node.func
                if isinstance(vf, ast.Name) and vf.id == "getattr" and len(value_node.args) >= 2 and not isinstance(value_node.args[1], ast.Constant):
                    fr.dynfuncs.add(target.id)
                if isinstance(vf, ast.Name) and vf.id not in fr.names and vf.id in self.ix.classes:
                    c = self.ix.get_class(vf.id, fr.module)
                    if c is not None and "random_state" in self.ix.ctor_params(c):
                        kwv = {k.arg: k.value for k in value_node.keywords if k.arg}
                        if "random_state" in kwv:
                            kk = self.rng_kind(fr, kwv["random_state"]) or "derived"
                        elif any(k.arg is None for k in value_node.keywords):
                            kk = "derived"
                        else:
                            kk = "global"
                        fr.objs[target.id] = (c, kk)
            if value_node is not None and self.is_numeric(fr, value_node):
                fr.arrays.add(target.id)
            if value_node is not None and self.is_scalar(fr, value_node):
                fr.scalars.add(target.id)
            self.emit(("bind", name, self.to_rhs(fr, v, node), self.meta(fr, node)))
        elif isinstance(target, ast.Attribute):
            if self.is_self(fr, target.value):
                if value_node is not None and fr.self_path == ("self",) and self.is_scalar(fr, value_node):
                    self.scalar_attrs.add(target.attr)
                self.write_attr(fr, target.attr, self.to_rhs(fr, v, node), node)
            else:
                base = self.to_path(fr, self.expr(fr, target.value), node)
                self.emit(("mutate", base, self.paths_of(v), self.meta(fr, node)))
        elif isinstance(target, ast.Subscript):
            basev = self.expr(fr, target.value)
            self.expr(fr, target.slice)
            base = self.to_path(fr, basev, node)
            stored = [] if self.is_numeric(fr, target.value) else self.paths_of(v)
            self.emit(("mutate", base, stored, self.meta(fr, node)))
            if (isinstance(target.slice, ast.Constant) and target.slice.value in ("random_state", "seed") and isinstance(target.value, ast.Name)
                    and value_node is not None and self.rng_kind(fr, value_node) in ("own", "derived", "seededArg")):
                self.seeded_ir.add(fr.ir(target.value.id))
        elif isinstance(target, (ast.Tuple, ast.List)):
            if v[0] == "tuple" and len(v[1]) == len(target.elts) and not any(isinstance(e, ast.Starred) for e in target.elts):
                for t, e in zip(target.elts, v[1]):
                    self.assign(fr, t, e, node, None)
            else:
                e = self.elem_of(fr, v, node)
                for t in target.elts:
                    if isinstance(t, ast.Starred):
                        t = t.value
                    self.assign(fr, t, e, node, None)
        elif isinstance(target, ast.Starred):
            self.assign(fr, target.value, v, node, None)
        else:
            self.notes.append(f"assignment target not understood: {type(target).__name__} at {fr.module}:{node.lineno}")

    def write_attr(self, fr, attr, rhs, node):
        if fr.self_path != ("self",):
            # attribute of another object (inlined method of a helper object): a mutation of it
            self.emit(("mutate", fr.self_path, [], self.meta(fr, node)))
            return
        self.attrs_written.add(attr)
        self.emit(("writeAttr", attr, rhs, self.meta(fr, node)))

    def read_attr(self, fr, attr, node):
        if fr.self_path != ("self",) or self.is_param(attr):
            return
        if attr not in self.known_attrs and not attr.endswith("_"):
            return      # never assigned by the class: a property / class attribute of an external base
        m = self.meta(fr, node)
        if self.cur and self.cur[-1][0] == "readAttr" and self.cur[-1][1] == attr:
            return
        self.emit(("readAttr", attr, m))

    # ---- values ---------------------------------------------------------------------------------
    def is_self(self, fr, node):
        return isinstance(node, ast.Name) and node.id == "self" and fr.owner_cls is not None

    def self_attr_path(self, fr, attr):
        if fr.self_path == ("self",):
            return ("attr", attr)
        return ("sub", fr.self_path, attr)

    def paths_of(self, v):
        if v[0] == "p":
            return [v[1]]
        if v[0] in ("copy", "deep"):
            return []   # a new object holding copies: nothing old is stored by reference... (copy: shallow)
        if v[0] == "fresh":
            return list(v[1])
        if v[0] == "tuple":
            out = []
            for e in v[1]:
                out += self.paths_of(e)
            return out
        return []

    def to_rhs(self, fr, v, node):
        if v[0] == "p":
            return ("alias", v[1])
        if v[0] in ("copy", "deep"):
            return (v[0], v[1])
        if v[0] == "fresh":
            return ("fresh", list(v[1]))
        if v[0] == "tuple":
            return ("fresh", self.paths_of(v))
        return ("fresh", [])

    def to_path(self, fr, v, node):
        if v[0] == "p":
            return v[1]
        t = self.newtmp()
        self.emit(("bind", t, self.to_rhs(fr, v, node), self.meta(fr, node)))
        return ("loc", t)

    def is_scalar(self, fr, node):
        """Is the expression certainly an immutable scalar (number, string, bool)?"""
        if isinstance(node, ast.Constant):
            return isinstance(node.value, (int, float, bool, complex, str))
        if isinstance(node, ast.Name):
            return node.id in fr.scalars or (not fr.tag and node.id in self.scalar_args) or (node.id in fr.consts and isinstance(fr.consts[node.id], (int, float, bool, str)))
        if isinstance(node, ast.Attribute):
            if self.is_self(fr, node.value) and fr.self_path == ("self",):
                return node.attr in self.scalar_attrs
            return node.attr in ("size", "ndim")
        if isinstance(node, ast.BinOp):
            return self.is_scalar(fr, node.left) and self.is_scalar(fr, node.right)
        if isinstance(node, ast.UnaryOp):
            return self.is_scalar(fr, node.operand)
        if isinstance(node, ast.Subscript):
            return isinstance(node.value, ast.Attribute) and node.value.attr == "shape"
        if isinstance(node, ast.Call) and isinstance(node.func, ast.Name):
            return node.func.id in ("len", "int", "float", "bool", "str", "abs", "round")
        if isinstance(node, ast.IfExp):
            return self.is_scalar(fr, node.body) and self.is_scalar(fr, node.orelse)
        return False

    def is_numeric(self, fr, node):
        """Is the expression certainly a number / numeric array (cannot hold object references)?"""
        if isinstance(node, ast.Name):
            return node.id in fr.arrays
        if isinstance(node, ast.Constant):
            return isinstance(node.value, (int, float, bool, complex))
        if isinstance(node, (ast.BinOp, ast.UnaryOp, ast.Compare)):
            return True
        if isinstance(node, ast.Subscript):
            return self.is_numeric(fr, node.value)
        if isinstance(node, ast.Attribute) and node.attr in ("T", "shape", "size", "ndim"):
            return True
        if isinstance(node, ast.Call):
            f = node.func
            if isinstance(f, ast.Attribute):
                if isinstance(f.value, ast.Name) and f.value.id in ("np", "numpy") and f.value.id not in fr.names:
                    return f.attr not in ("asarray", "array", "asanyarray", "atleast_1d", "atleast_2d", "ravel", "reshape", "squeeze", "copy")\
                        or (bool(node.args) and self.is_numeric(fr, node.args[0]))
                if f.attr in ("sum", "mean", "max", "min", "std", "var", "argmax", "argmin", "cumsum", "prod", "dot", "round", "nonzero", "any", "all"):
                    return True
                if f.attr in ("copy", "astype", "reshape", "ravel", "flatten", "squeeze", "transpose"):
                    return self.is_numeric(fr, f.value)
            if isinstance(f, ast.Name) and f.id in ("len", "int", "float", "bool", "abs", "round", "max", "min", "sum", "range"):
                return True
        return False

    # ---- constant folding -----------------------------------------------------------------------
    def const_of(self, fr, e):
        """(known, value) for expressions built from constants and constant-bound names."""
        if isinstance(e, ast.Constant):
            return True, e.value
        if isinstance(e, ast.Name) and e.id in fr.consts:
            return True, fr.consts[e.id]
        if isinstance(e, ast.UnaryOp) and isinstance(e.op, ast.Not):
            k, v = self.const_of(fr, e.operand)
            return (True, not v) if k else (False, None)
        if isinstance(e, ast.BoolOp):
            vals = [self.const_of(fr, x) for x in e.values]
            if isinstance(e.op, ast.And):
                if any(k and not v for k, v in vals):
                    return True, False
                if all(k for k, _ in vals):
                    return True, all(v for _, v in vals)
            else:
                if any(k and v for k, v in vals):
                    return True, True
                if all(k for k, _ in vals):
                    return True, any(v for _, v in vals)
            return False, None
        if isinstance(e, ast.Compare) and len(e.ops) == 1:
            k1, a = self.const_of(fr, e.left)
            k2, b = self.const_of(fr, e.comparators[0])
            op = e.ops[0]
            if k1 and k2:
                try:
                    if isinstance(op, ast.Eq):
                        return True, a == b
                    if isinstance(op, ast.NotEq):
                        return True, a != b
                    if isinstance(op, ast.Is):
                        return True, a is b
                    if isinstance(op, ast.IsNot):
                        return True, a is not b
                    if isinstance(op, ast.In):
                        return True, a in b
                    if isinstance(op, ast.NotIn):
                        return True, a not in b
                except Exception:
                    return False, None
            # a freshly built dict / list literal etc. is never None
            if isinstance(op, (ast.Is, ast.IsNot)) and k2 and b is None and isinstance(e.left, ast.Name):
                v = fr.vals.get(e.left.id)
                if v is not None and v[0] == "tuple":
                    return True, isinstance(op, ast.IsNot)
        if isinstance(e, (ast.Tuple, ast.List)):
            vals = [self.const_of(fr, x) for x in e.elts]
            if all(k for k, _ in vals):
                return True, tuple(v for _, v in vals)
        return False, None

    def const_test(self, fr, test):
        k, v = self.const_of(fr, test)
        return (True, bool(v)) if k else (False, None)

    # ---- expressions ----------------------------------------------------------------------------
    def expr(self, fr, e):
        """Returns a value descriptor; may emit atoms (reads, nested calls)."""
        if e is None:
            return ("fresh", [])
        k, c = self.const_of(fr, e)
        if k and isinstance(e, (ast.Constant, ast.Name)):
            return ("const", c)
        if isinstance(e, ast.Name):
            if e.id == "self" and fr.owner_cls is not None:
                return ("p", fr.self_path) if fr.self_path != ("self",) else ("fresh", [])
            if e.id in fr.vals:
                return fr.vals[e.id]
            if e.id in fr.names:
                return ("p", ("loc", fr.names[e.id]))
            return ("fresh", [])       # module-level name / builtin
        if isinstance(e, ast.Attribute):
            if self.is_self(fr, e.value):
                a = e.attr
                if self.is_method_name(a) and fr.self_path == ("self",):
                    return ("fresh", [])
                owner = fr.owner_cls
                if fr.self_path == ("self",) and any(a in c.class_attrs for c in self.ix.mro(self.cls)):
                    return ("fresh", [])
                self.read_attr(fr, a, e)
                return ("p", self.self_attr_path(fr, a))
            if isinstance(e.value, ast.Name) and e.value.id not in fr.names and e.value.id not in fr.vals:
                return ("fresh", [])   # module attribute (np.nan, ...)
            base = self.expr(fr, e.value)
            if base[0] == "p":
                return ("p", ("sub", base[1], e.attr))
            if base[0] in ("copy", "deep", "fresh") and (base[0] != "fresh" or base[1]):
                return ("p", ("sub", self.to_path(fr, base, e), e.attr))
            return ("fresh", [])
        if isinstance(e, ast.Subscript):
            base = self.expr(fr, e.value)
            self.expr(fr, e.slice)
            key = "*"
            if isinstance(e.slice, ast.Constant) and isinstance(e.slice.value, (str, int)):
                key = str(e.slice.value)
            if base[0] == "tuple" and isinstance(e.slice, ast.Constant) and isinstance(e.slice.value, int) and -len(base[1]) <= e.slice.value < len(base[1]):
                return base[1][e.slice.value]
            if base[0] == "p":
                return ("p", ("sub", base[1], key))
            if base[0] in ("copy", "deep") or (base[0] == "fresh" and base[1]):
                return ("p", ("sub", self.to_path(fr, base, e), key))
            if base[0] == "tuple":
                return self.elem_of(fr, base, e)
            return ("fresh", [])
        if isinstance(e, ast.Call):
            return self.call(fr, e)
        if isinstance(e, ast.IfExp):
            known, val = self.const_test(fr, e.test)
            if known:
                return self.expr(fr, e.body if val else e.orelse)
            self.expr(fr, e.test)
            t = self.newtmp("c")
            outer = self.cur
            self.cur = a_items = []
            va = self.expr(fr, e.body)
            self.emit(("bind", t, self.to_rhs(fr, va, e), self.meta(fr, e)))
            self.cur = b_items = []
            vb = self.expr(fr, e.orelse)
            self.emit(("bind", t, self.to_rhs(fr, vb, e), self.meta(fr, e)))
            self.cur = outer
            outer.append(("ite", a_items, b_items))
            return ("p", ("loc", t))
        if isinstance(e, ast.BoolOp):
            vals = []
            for x in e.values:
                kx, cx = self.const_of(fr, x)
                vals.append(self.expr(fr, x))
                if kx and ((isinstance(e.op, ast.Or) and cx) or (isinstance(e.op, ast.And) and not cx)):
                    break       # short circuit: the remaining operands are not evaluated
            kb, cb = self.const_of(fr, e)
            if kb:
                return ("const", cb)
            e = ast.BoolOp(op=e.op, values=e.values[: len(vals)])
            if all(v[0] in ("const",) or (v[0] == "fresh" and not v[1]) for v in vals):
                return ("fresh", [])
            t = self.newtmp("b")
            first = True
            for v, x in zip(vals, e.values):
                item = ("bind", t, self.to_rhs(fr, v, e), self.meta(fr, x))
                if first:
                    self.emit(item)
                    first = False
                else:
                    self.emit(("ite", [item], []))
            return ("p", ("loc", t))
        if isinstance(e, (ast.Tuple, ast.List)):
            vals = []
            for x in e.elts:
                if isinstance(x, ast.Starred):
                    vals.append(self.elem_of(fr, self.expr(fr, x.value), e))
                else:
                    vals.append(self.expr(fr, x))
            return ("tuple", vals)
        if isinstance(e, ast.Set):
            return ("fresh", sum((self.paths_of(self.expr(fr, x)) for x in e.elts), []))
        if isinstance(e, ast.Dict):
            caps = []
            for kx, vx in zip(e.keys, e.values):
                if kx is None:      # {**d}
                    v = self.expr(fr, vx)
                    ev = self.elem_of(fr, v, e)
                    caps += self.paths_of(ev)
                else:
                    self.expr(fr, kx)
                    caps += self.paths_of(self.expr(fr, vx))
            return ("fresh", caps)
        if isinstance(e, (ast.ListComp, ast.SetComp, ast.GeneratorExp, ast.DictComp)):
            outer = self.cur
            self.cur = body = []
            for g in e.generators:
                itv = self.expr(fr, g.iter)
                self.bind_loop_target(fr, g.target, g.iter, itv, e)
                for c in g.ifs:
                    self.expr(fr, c)
            if isinstance(e, ast.DictComp):
                self.expr(fr, e.key)
                v = self.expr(fr, e.value)
            else:
                v = self.expr(fr, e.elt)
            t = self.newtmp("comp")
            caps = self.paths_of(v)
            if v[0] in ("copy", "deep"):
                caps = [self.to_path(fr, v, e)]
            self.emit(("bind", t, ("fresh", caps), self.meta(fr, e)))
            self.cur = outer
            # zero or more iterations
            outer.append(("bind", t, ("fresh", []), self.meta(fr, e)))
            outer.append(("ite", body, []))
            return ("p", ("loc", t))
        if isinstance(e, ast.Lambda):
            return ("fresh", [])
        if isinstance(e, ast.BinOp):
            self.expr(fr, e.left)
            self.expr(fr, e.right)
            return ("fresh", [])
        if isinstance(e, ast.UnaryOp):
            self.expr(fr, e.operand)
            return ("fresh", [])
        if isinstance(e, ast.Compare):
            self.expr(fr, e.left)
            for c in e.comparators:
                self.expr(fr, c)
            return ("fresh", [])
        if isinstance(e, ast.JoinedStr):
            for v in e.values:
                if isinstance(v, ast.FormattedValue):
                    self.expr(fr, v.value)
            return ("fresh", [])
        if isinstance(e, ast.FormattedValue):
            self.expr(fr, e.value)
            return ("fresh", [])
        if isinstance(e, ast.Slice):
            for x in (e.lower, e.upper, e.step):
                if x is not None:
                    self.expr(fr, x)
            return ("fresh", [])
        if isinstance(e, ast.Starred):
            return self.elem_of(fr, self.expr(fr, e.value), e)
        if isinstance(e, ast.NamedExpr):
            v = self.expr(fr, e.value)
            self.assign(fr, e.target, v, e, e.value)
            return v
        if isinstance(e, ast.Constant):
            return ("const", e.value)
        self.notes.append(f"expression not understood: {type(e).__name__} at {fr.module}:{getattr(e, 'lineno', 0)}")
        return ("fresh", [])

    # ---- calls ----------------------------------------------------------------------------------
    def arg_values(self, fr, call):
        pos = []
        for a in call.args:
            if isinstance(a, ast.Starred):
                pos.append(("star", self.elem_of(fr, self.expr(fr, a.value), call)))
            else:
                pos.append(("pos", self.expr(fr, a)))
        kws = []
        for k in call.keywords:
            v = self.expr(fr, k.value)
            if k.arg is None:
                kws.append((None, self.elem_of(fr, v, call), k.value))
            else:
                kws.append((k.arg, v, k.value))
        return pos, kws

    def all_arg_paths(self, pos, kws):
        out = []
        for _, v in pos:
            out += self.paths_of(v) if v[0] != "copy" and v[0] != "deep" else []
        for _, v, _ in kws:
            out += self.paths_of(v) if v[0] != "copy" and v[0] != "deep" else []
        return out

    def call(self, fr, e):
        f = e.func
        fname = f.id if isinstance(f, ast.Name) else (f.attr if isinstance(f, ast.Attribute) else None)
        # ---- hasattr / getattr / setattr on self --------------------------------------------
        if isinstance(f, ast.Name) and f.id in ("hasattr", "getattr", "setattr", "delattr") and e.args and self.is_self(fr, e.args[0]):
            nm = e.args[1] if len(e.args) > 1 else None
            if isinstance(nm, ast.Constant) and isinstance(nm.value, str):
                a = nm.value
                if f.id == "hasattr":
                    self.read_attr(fr, a, e)
                    return ("fresh", [])
                if f.id == "getattr":
                    if len(e.args) > 2:
                        self.expr(fr, e.args[2])
                    if self.is_method_name(a):
                        return ("fresh", [])
                    self.read_attr(fr, a, e)
                    return ("p", self.self_attr_path(fr, a))
                if f.id == "setattr":
                    v = self.expr(fr, e.args[2])
                    self.write_attr(fr, a, self.to_rhs(fr, v, e), e)
                    return ("fresh", [])
                if f.id == "delattr":
                    self.write_attr(fr, a, ("fresh", []), e)
                    return ("fresh", [])
            else:
                if f.id in ("setattr", "delattr"):
                    # dynamic attribute name: may hit any attribute, in particular a parameter
                    for p in self.params[:1]:
                        self.write_attr(fr, p, ("fresh", []), e)
                    self.notes.append(f"setattr(self, <dynamic>) at {fr.module}:{e.lineno}")
                return ("fresh", [])
        # ---- sklearn helper that sets `n_features_in_` on the estimator it is given ---------------
        if fname in ("check_n_features", "_check_n_features") and e.args and self.is_self(fr, e.args[0]) and fr.self_path == ("self",):
            reset = None
            for k in e.keywords:
                if k.arg == "reset":
                    reset = k.value
            if reset is None and len(e.args) > 2:
                reset = e.args[2]
            for a_ in e.args[1:]:
                self.expr(fr, a_)
            known, val = self.const_of(fr, reset) if reset is not None else (True, True)
            if not known:
                self.expr(fr, reset)
            w = ("writeAttr", "n_features_in_", ("fresh", []), self.meta(fr, e))
            r = ("readAttr", "n_features_in_", self.meta(fr, e))
            if known and val:
                self.emit(w)
            elif known:
                self.emit(r)
            else:
                self.emit(("ite", [w], [r]))
            return ("fresh", [])
        # ---- rng draw sites (classification only) --------------------------------------------
        self.rng_site(fr, e)
        # ---- super().m(...) / self.m(...) / Class.m(self, ...) --------------------------------
        if isinstance(f, ast.Attribute):
            recv = f.value
            if isinstance(recv, ast.Call) and isinstance(recv.func, ast.Name) and recv.func.id == "super" and fr.owner_cls is not None:
                r = self.ix.resolve_method(self.cls if fr.self_path == ("self",) else fr.owner_cls, f.attr, after=fr.owner_cls)
                pos, kws = self.arg_values(fr, e)
                if r is not None:
                    return self.inline(fr, r[0].module, r[0], r[1], fr.self_path, pos, kws, e)
                return ("fresh", [])
            if self.is_self(fr, recv):
                target_cls = self.cls if fr.self_path == ("self",) else fr.owner_cls
                r = self.ix.resolve_method(target_cls, f.attr)
                if r is not None:
                    pos, kws = self.arg_values(fr, e)
                    fn = r[1]
                    if any(isinstance(d, ast.Name) and d.id == "staticmethod" for d in fn.decorator_list):
                        return self.inline(fr, r[0].module, None, fn, None, pos, kws, e)
                    return self.inline(fr, r[0].module, r[0], fn, fr.self_path, pos, kws, e)
            # ClassName.method(...) (static helpers)
            if isinstance(recv, ast.Name) and recv.id not in fr.names:
                c = self.ix.get_class(recv.id, fr.module) if recv.id in self.ix.classes else None
                if c is not None and f.attr in c.methods:
                    fn = c.methods[f.attr]
                    pos, kws = self.arg_values(fr, e)
                    if any(isinstance(d, ast.Name) and d.id == "staticmethod" for d in fn.decorator_list):
                        return self.inline(fr, c.module, None, fn, None, pos, kws, e)
                    return ("fresh", self.all_arg_paths(pos, kws))
        # ---- plain function names -------------------------------------------------------------
        if isinstance(f, ast.Name):
            if f.id in fr.localdefs:
                pos, kws = self.arg_values(fr, e)
                return self.inline(fr, fr.module, fr.owner_cls, fr.localdefs[f.id], fr.self_path if fr.owner_cls else None, pos, kws, e, closure=fr)
            if f.id in DEEP_FUNCS and e.args:
                v = self.expr(fr, e.args[0])
                return self.copy_like("deep", fr, v, e)
            if f.id in COPY_FUNCS:
                if not e.args:
                    for k in e.keywords:
                        self.expr(fr, k.value)
                    return ("fresh", [])
                v = self.expr(fr, e.args[0])
                for a in e.args[1:]:
                    self.expr(fr, a)
                for k in e.keywords:
                    self.expr(fr, k.value)
                return self.copy_like("copy", fr, v, e)
            if f.id in ALIAS_FUNCS and e.args:
                v = self.expr(fr, e.args[0])
                for a in e.args[1:]:
                    self.expr(fr, a)
                for k in e.keywords:
                    self.expr(fr, k.value)
                return v if v[0] in ("p", "copy", "deep") else ("fresh", self.paths_of(v))
            if f.id not in fr.names:
                r = self.ix.resolve_name(fr.module, f.id)
                if r is not None and r[0] == "func":
                    mod, fn = r[1]
                    pos, kws = self.arg_values(fr, e)
                    if f.id in NP_FRESH or mod.startswith("skactiveml.utils") and f.id not in ("check_random_state", "check_budget_manager", "call_func"):
                        return self.external_call(fr, e, f.id, pos, kws)
                    return self.inline(fr, mod, None, fn, None, pos, kws, e)
                if r is not None and r[0] == "class":
                    pos, kws = self.arg_values(fr, e)
                    return ("fresh", self.all_arg_paths(pos, kws))
            pos, kws = self.arg_values(fr, e)
            if f.id in fr.names:
                # calling a local value (a callable argument / parameter class)
                return ("fresh", self.all_arg_paths(pos, kws))
            return self.external_call(fr, e, f.id, pos, kws)
        # ---- method / module-attribute calls ----------------------------------------------------
        if isinstance(f, ast.Attribute):
            recv = f.value
            m = f.attr
            # module function: np.xxx(...), copy.deepcopy(...)
            if isinstance(recv, ast.Name) and recv.id not in fr.names and recv.id not in fr.vals and not self.is_self(fr, recv):
                if m in DEEP_FUNCS and e.args:
                    return self.copy_like("deep", fr, self.expr(fr, e.args[0]), e)
                if m in ("copy", "array") and e.args:
                    v = self.expr(fr, e.args[0])
                    for k in e.keywords:
                        self.expr(fr, k.value)
                    return self.copy_like("copy", fr, v, e)
                if m in ALIAS_FUNCS and e.args:
                    v = self.expr(fr, e.args[0])
                    for a in e.args[1:]:
                        self.expr(fr, a)
                    for k in e.keywords:
                        self.expr(fr, k.value)
                    return v if v[0] in ("p", "copy", "deep") else ("fresh", self.paths_of(v))
                pos, kws = self.arg_values(fr, e)
                return self.external_call(fr, e, m, pos, kws)
            if isinstance(recv, ast.Attribute) and isinstance(recv.value, ast.Name) and recv.value.id not in fr.names and not self.is_self(fr, recv.value):
                # np.random.xxx(...), np.linalg.norm(...)
                pos, kws = self.arg_values(fr, e)
                return self.external_call(fr, e, m, pos, kws)
            rv = self.expr(fr, recv)
            pos, kws = self.arg_values(fr, e)
            argpaths = self.all_arg_paths(pos, kws)
            if m in COPY_METHODS:
                return self.copy_like("copy", fr, rv, e)
            if m in RNG_METHODS and self.rng_kind(fr, recv) is not None:
                return ("fresh", [])
            if m in FIT_METHODS or m in STRATEGY_METHODS or m in MUTATOR_METHODS:
                if rv[0] == "const" or (rv[0] == "fresh" and not rv[1] and m in MUTATOR_METHODS):
                    return ("fresh", [])
                p = self.to_path(fr, rv, e)
                root = _root(p)
                holds_strategy = root[0] == "attr" and self.is_param(root[1]) and any(w in root[1] for w in ("strategy", "manager"))
                if m in STRATEGY_METHODS and holds_strategy and p == root:
                    # public method of another strategy object held in a constructor parameter (wrappers)
                    self.emit(("callInner", p, self.meta(fr, e)))
                    return ("fresh", [])
                if m in FIT_METHODS or m in STRATEGY_METHODS:
                    self.emit(("callFit", p, self.meta(fr, e)))
                    if m in FIT_RETURNS_SELF:
                        return ("p", p)
                    return ("fresh", [])
                self.emit(("mutate", p, argpaths, self.meta(fr, e)))
                if m in ("pop", "popleft", "popitem", "setdefault", "get"):
                    return ("p", ("sub", p, "*"))
                return ("fresh", [])
            if m in FRESH_RESULT_METHODS:
                return ("fresh", [])
            if m in ALIAS_METHODS:
                if rv[0] == "p":
                    return ("p", ("sub", rv[1], "*")) if m in ("get", "values", "items", "keys", "setdefault") else rv
                return rv if rv[0] in ("copy", "deep") else ("fresh", self.paths_of(rv) + argpaths)
            # any other method: a new value that may hold references to the receiver and arguments
            return ("fresh", self.paths_of(rv) + argpaths)
        pos, kws = self.arg_values(fr, e)
        self.expr(fr, f)
        return ("fresh", self.all_arg_paths(pos, kws))

    def cls_is_strategy(self):
        return any(c.name in ("QueryStrategy",) for c in self.ix.mro(self.cls))

    def copy_like(self, kind, fr, v, node):
        if v[0] == "p":
            return (kind, v[1])
        if v[0] in ("copy", "deep"):
            return v if kind == "copy" or v[0] == "deep" else ("deep", v[1])
        if v[0] == "fresh":
            if kind == "deep":
                return ("fresh", [])
            return ("fresh", list(v[1]))
        if v[0] == "tuple":
            if kind == "deep":
                return ("fresh", [])
            return ("fresh", self.paths_of(v))
        return ("fresh", [])

    def external_call(self, fr, e, name, pos, kws):
        for k, v, _ in kws:
            if k == "out" and v[0] == "p":
                self.emit(("mutate", v[1], [], self.meta(fr, e)))
        if name in NP_FRESH:
            return ("fresh", [])
        return ("fresh", self.all_arg_paths(pos, kws))

    # ---- inlining -------------------------------------------------------------------------------
    def inline(self, fr, module, owner_cls, fn, self_path, pos, kws, node, closure=None, bind_self=True):
        key = (module, (owner_cls.name + "." if owner_cls else "") + fn.name)
        if key in self.stack or len(self.stack) >= MAX_DEPTH:
            self.notes.append(f"call not followed (depth/recursion): {key[1]} at {fr.module}:{node.lineno}")
            return ("fresh", self.all_arg_paths(pos, kws))
        self.tagc += 1
        nf = Frame(self, module, owner_cls, fn, self_path, f"{fn.name}{self.tagc}")
        if closure is not None:
            nf.names.update(closure.names)
            nf.consts.update(closure.consts)
            nf.vals.update(closure.vals)
            nf.localdefs.update(closure.localdefs)
        a = fn.args
        params = [x.arg for x in a.posonlyargs + a.args]
        if bind_self and closure is None and owner_cls is not None and self_path is not None and params and params[0] in ("self", "cls"):
            params = params[1:]
        defaults = {}
        allpos = a.posonlyargs + a.args
        for arg, d in zip(allpos[len(allpos) - len(a.defaults):], a.defaults):
            defaults[arg.arg] = d
        for arg, d in zip(a.kwonlyargs, a.kw_defaults):
            if d is not None:
                defaults[arg.arg] = d
        bound = {}
        extra_paths = []
        star_seen = False
        pi = 0
        for kind, v in pos:
            if kind == "star":
                star_seen = True
                extra_paths += self.paths_of(v)
                continue
            if pi < len(params) and not star_seen:
                bound[params[pi]] = v
                pi += 1
            else:
                extra_paths += self.paths_of(v)
        kwonly = [x.arg for x in a.kwonlyargs]
        dyn_kwargs = False
        for k, v, _ in kws:
            if k is None:
                dyn_kwargs = True
                extra_paths += self.paths_of(v)
            elif k in params or k in kwonly:
                bound[k] = v
            else:
                extra_paths += self.paths_of(v)
        for p in params + kwonly:
            n = nf.ir(p)
            self.locals_all.add(n)
            if p in bound:
                v = bound[p]
                if v[0] == "const":
                    nf.consts[p] = v[1]
                if v[0] == "tuple":
                    nf.vals[p] = v
                self.emit(("bind", n, self.to_rhs(fr, v, node), self.meta(fr, node, f"{p} := <argument of {fn.name}>")))
                if v[0] == "p":
                    k = self.rng_kind_path(fr, v[1])
                    if k:
                        nf.rngkind[p] = k
            elif p in defaults and not dyn_kwargs and not star_seen:
                d = defaults[p]
                if isinstance(d, ast.Constant):
                    nf.consts[p] = d.value
                self.emit(("bind", n, ("fresh", []), self.meta(fr, node, f"{p} := <default of {fn.name}>")))
            else:
                # unknown (passed through *args / **kwargs): may be any of the extra values
                self.emit(("bind", n, ("fresh", list(extra_paths)), self.meta(fr, node, f"{p} := <unknown argument of {fn.name}>")))
        for extra in ([a.vararg.arg] if a.vararg else []) + ([a.kwarg.arg] if a.kwarg else []):
            n = nf.ir(extra)
            self.locals_all.add(n)
            self.emit(("bind", n, ("fresh", list(extra_paths)), self.meta(fr, node, f"*{extra} of {fn.name}")))
        nf.ret = self.newtmp("ret")
        # tuple-shaped returns
        rets = [n for n in ast.walk(fn) if isinstance(n, ast.Return) and n.value is not None]
        own_rets = [r for r in rets if _owner_function(fn, r) is fn]
        widths = {len(r.value.elts) if isinstance(r.value, ast.Tuple) else None for r in own_rets}
        if len(widths) == 1 and None not in widths and own_rets:
            w = widths.pop()
            nf.ret_tuple = [self.newtmp("ret") for _ in range(w)]
        self.stack.append(key)
        self.block(nf, fn.body)
        self.stack.pop()
        if nf.ret_tuple is not None and not getattr(nf, "ret_plain", False):
            return ("tuple", [("p", ("loc", n)) for n in nf.ret_tuple])
        return ("p", ("loc", nf.ret))

    # ---- rng classification -----------------------------------------------------------------
    def rng_kind_path(self, fr, p):
        root = _root(p)
        if p == ("attr", "random_state_"):
            return "own"
        if p == ("attr", "random_state"):
            return "derived"
        if root[0] == "attr" and self.is_param(root[1]):
            return "seededArg"
        return None

    def rng_kind(self, fr, node):
        """Generator class of an expression used as a random generator / seed, or None."""
        if node is None:
            return None
        if isinstance(node, ast.Constant):
            if node.value is None:
                return "global"
            if isinstance(node.value, int):
                return "seededArg"
            return None
        if isinstance(node, ast.Attribute):
            if self.is_self(fr, node.value):
                if node.attr == "random_state_":
                    return "own"
                if node.attr == "random_state":
                    return "derived"
                if node.attr.endswith("random_state_") or node.attr.endswith("rng_"):
                    return "own"
                return None
            if isinstance(node.value, ast.Name) and node.value.id in ("np", "numpy") and node.attr == "random":
                return "global"
            return None
        if isinstance(node, ast.Name):
            if node.id in fr.rngkind:
                return fr.rngkind[node.id]
            if node.id in fr.consts:
                return "global" if fr.consts[node.id] is None else "seededArg"
            if node.id in ("random_state", "rng", "random_seed", "seed") and not fr.tag and node.id in self.args:
                return "seededArg"      # generator / seed handed in by the caller of a public method
            return None
        if isinstance(node, ast.Call):
            return self.rng_kind_of_value(fr, node)
        return None

    def rng_kind_of_value(self, fr, node):
        """Class of a *value* that is (or seeds) a generator: check_random_state(x), deepcopy(x),
        x.randint(...), np.random.RandomState(seed), np.random.default_rng(seed)."""
        if not isinstance(node, ast.Call):
            if isinstance(node, (ast.Attribute, ast.Name)):
                k = self.rng_kind(fr, node)
                return k
            return None
        f = node.func
        fname = f.id if isinstance(f, ast.Name) else (f.attr if isinstance(f, ast.Attribute) else None)
        if fname in ("check_random_state", "deepcopy", "check_random_state_sklearn") and node.args:
            k = self.rng_kind(fr, node.args[0])
            if k == "own":
                return "derived"
            return k
        if fname in ("RandomState", "default_rng", "Generator"):
            if not node.args and not node.keywords:
                return "unseeded"
            k = self.rng_kind(fr, node.args[0] if node.args else node.keywords[0].value)
            return "derived" if k in ("own", "derived") else (k or "derived")
        if isinstance(f, ast.Attribute) and fname in RNG_METHODS:
            k = self.rng_kind(fr, f.value)
            if k in ("own", "derived"):
                return "derived"
            return k
        return None

    def rng_site(self, fr, call):
        f = call.func
        m = self.meta(fr, call)
        # draws: <gen>.<method>(...)
        if isinstance(f, ast.Attribute) and f.attr in RNG_METHODS and f.attr not in ("seed", "get_state", "set_state"):
            k = self.rng_kind(fr, f.value)
            if k is not None:
                self.rng_sites.append((k, m))
                return
        # random_state=<expr> handed to a callee
        kw = {k.arg: k.value for k in call.keywords if k.arg}
        fname = f.id if isinstance(f, ast.Name) else (f.attr if isinstance(f, ast.Attribute) else "")
        if "random_state" in kw or "seed" in kw:
            node = kw.get("random_state", kw.get("seed"))
            if fname in ("check_random_state", "check_random_state_sklearn", "deepcopy"):
                return
            k = self.rng_kind(fr, node)
            if k is None:
                k, v = "derived", self.const_of(fr, node)
                if v[0] and v[1] is None:
                    k = "global"
            self.rng_sites.append((k, m))
            return
        # **kwargs dict that was given a `random_state` derived from the object's own generator
        if any(k.arg is None and isinstance(k.value, ast.Name) and fr.names.get(k.value.id) in self.seeded_ir for k in call.keywords):
            if (isinstance(f, ast.Name) and f.id in fr.dynfuncs) or (isinstance(f, ast.Attribute) and self.is_self(fr, f.value) and self.is_param(f.attr)) or isinstance(f, ast.Name):
                self.rng_sites.append(("derived", dict(m, text=m["text"] + "  [random_state put into the kwargs from the own generator]")))
                return
        # dynamic method obtained by getattr(obj, <name from a parameter>) called without random_state
        if isinstance(f, ast.Name) and f.id in fr.dynfuncs and any(k.arg is None for k in call.keywords):
            self.rng_sites.append(("unseeded", dict(m, text=m["text"] + "  [dynamically chosen method, random_state not forwarded]")))
            return
        # public method of a helper object of a repo class constructed in this method
        if isinstance(f, ast.Attribute) and isinstance(f.value, ast.Name) and f.value.id in fr.objs and len(self.stack) < MAX_DEPTH:
            c, kk = fr.objs[f.value.id]
            if self.ix.resolve_method(c, f.attr) is not None and (c.name, f.attr) not in self.helper_seen:
                self.helper_seen.add((c.name, f.attr))
                sub = Summarizer(self.ix, c, f.attr, self.ix.ctor_params(c))
                sub.helper_seen = self.helper_seen
                try:
                    sub.run()
                except RecursionError:
                    sub.rng_sites = []
                for k2, m2 in sub.rng_sites:
                    if k2 in ("own", "derived"):
                        k2 = kk if kk in ("global", "unseeded") else ("seededArg" if kk == "seededArg" else "derived")
                    self.rng_sites.append((k2, dict(m2, text=f"[via {c.name}.{f.attr} of a helper object] " + m2["text"])))
                self.helper_seen.discard((c.name, f.attr))
            return
        # third-party estimator constructed without random_state
        origin = None
        takes_rs = False
        if isinstance(f, ast.Name) and f.id not in fr.names:
            origin = self.ix.external_origin(fr.module, f.id)
            takes_rs = _accepts_random_state(origin)
        elif isinstance(f, ast.Attribute) and self.is_self(fr, f.value) and self.is_param(f.attr) and fr.self_path == ("self",):
            d = self.ix.ctor_defaults(self.cls).get(f.attr)
            if d is not None and isinstance(d[0], ast.Name):
                origin = self.ix.external_origin(d[1], d[0].id)
                takes_rs = _accepts_random_state(origin)
            elif d is not None and isinstance(d[0], ast.Constant) and d[0].value is None:
                takes_rs = False
        if takes_rs:
            has_dyn = any(k.arg is None for k in call.keywords)
            self.rng_sites.append(("unseeded", dict(m, text=m["text"] + ("  [**kwargs may or may not carry random_state]" if has_dyn else "  [no random_state]"))))


# ------------------------------------------------------------------------------------------------
def _root(p):
    while p[0] == "sub":
        p = p[1]
    return p


def _same_const(a, b):
    try:
        return type(a) is type(b) and a == b
    except Exception:
        return False


def _strip(items):
    """Structure of a block without meta data and without temp numbering (for comparing branches)."""
    out = []
    for it in items:
        if it[0] == "ite":
            out.append(("ite", _strip(it[1]), _strip(it[2])))
        else:
            out.append(tuple(_strip_tmp(x) for x in it[:-1]))
    return out


def _strip_tmp(x):
    if isinstance(x, str) and x.startswith("$"):
        return "$"
    if isinstance(x, tuple):
        return tuple(_strip_tmp(y) for y in x)
    if isinstance(x, list):
        return [_strip_tmp(y) for y in x]
    return x


def _owner_function(root, node):
    """Innermost function definition inside `root` that contains `node` (root itself if none)."""
    best = root
    for n in ast.walk(root):
        if n is not root and isinstance(n, (ast.FunctionDef, ast.AsyncFunctionDef, ast.Lambda)):
            for m in ast.walk(n):
                if m is node:
                    best = n
    return best


_RS_CACHE = {}


def _accepts_random_state(origin):
    """Does the third-party class `origin` (dotted path) take a `random_state` constructor argument?
    (looked up in the installed third-party package, not in the code under analysis)"""
    if not origin or origin.startswith("skactiveml"):
        return False
    if origin in _RS_CACHE:
        return _RS_CACHE[origin]
    res = False
    try:
        import importlib
        import inspect

        mod, _, name = origin.rpartition(".")
        obj = getattr(importlib.import_module(mod), name)
        if inspect.isclass(obj):
            res = "random_state" in inspect.signature(obj.__init__).parameters
    except Exception:
        res = False
    _RS_CACHE[origin] = res
    return res
