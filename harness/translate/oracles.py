"""Dynamic oracles of the effect / frame properties on the real code (C05, C13, C06).

Each function runs one zoo case on the real implementation and returns a list of findings
`dict(kind=..., name=..., what=...)`; the property modules turn them into `ctx.violate(...)` keys and
compare them with what the translator's summaries predict.
"""
import copy
import pickle
import warnings

import numpy as np
from sklearn.base import clone

from . import snap

MODEL_KEYS = ("clf", "reg", "ensemble", "discriminator")


class Raised(Exception):
    pass


def _call(fn, **kw):
    with warnings.catch_warnings():
        warnings.simplefilter("ignore")
        with np.errstate(all="ignore"):
            return fn(**kw)


def _models_in(kw):
    out = {}
    for k, v in kw.items():
        if isinstance(v, np.ndarray) or v is None or isinstance(v, (bool, int, float, str)):
            continue
        if hasattr(v, "get_params") or (isinstance(v, (list, tuple)) and v and all(hasattr(x, "get_params") for x in v)):
            out[k] = v
    return out


def _model_snapshot(m):
    if isinstance(m, (list, tuple)):
        return ("list", tuple(_model_snapshot(x) for x in m))
    return ("est", snap.canon(m.get_params(deep=True)), snap.canon(dict(vars(m))))


# ---------------------------------------------------------------------------------------------------
# C05: one pool case, one candidate mode
def pool_side_effects(case, mode, seed, n_queries=2, check_clone=True):
    """Snapshot before / after every query: input arrays, get_params(deep=True), caller's models,
    pickling, clone twin."""
    findings = []
    qs = case.build()
    data = case.data(seed)
    models = case.models()
    kw = case.query_kwargs(data, models, mode)
    arr0 = snap.arrays_snapshot(kw)
    par0 = snap.params_snapshot(qs)
    mod0 = {k: _model_snapshot(v) for k, v in _models_in(kw).items()}
    pick0 = snap.pickles(qs)
    outs = []
    for q in range(n_queries):
        try:
            outs.append(_call(qs.query, **kw))
        except Exception as e:
            return findings, dict(raised=f"{type(e).__name__}: {str(e)[:100]}", outs=outs)
        arr1 = snap.arrays_snapshot(kw)
        for k in snap.diff_keys(arr0, arr1):
            findings.append(dict(kind="array-modified", name=k, what=f"query #{q + 1} modified the caller's array `{k}` in place"))
        par1 = snap.params_snapshot(qs)
        for k in snap.diff_keys(par0, par1):
            findings.append(dict(kind="param-write", name=k, what=f"get_params()['{k}'] changed during query #{q + 1}: {_short(par0.get(k))} -> {_short(par1.get(k))}"))
        for k, v in _models_in(kw).items():
            if _model_snapshot(v) != mod0[k]:
                findings.append(dict(kind="model-altered", name=k, what=f"query #{q + 1} altered the caller's `{k}` object (parameters or fitted attributes)"))
        if findings:
            break
    pick1 = snap.pickles(qs)
    if pick0 is None and pick1 is not None:
        findings.append(dict(kind="unpicklable", name="strategy", what=f"pickle.dumps(strategy) fails after query ({pick1}) but worked before"))
    info = dict(outs=outs)
    if check_clone and not findings:
        # a clone of the used strategy behaves like a freshly constructed twin
        try:
            c = clone(qs)
            twin = case.build()
            d2 = case.data(seed)
            np.random.seed(4242)   # strategies that (wrongly) use the global generator: C06's business
            o_c = _call(c.query, **case.query_kwargs(d2, case.models(), mode))
            d3 = case.data(seed)
            np.random.seed(4242)
            o_t = _call(twin.query, **case.query_kwargs(d3, case.models(), mode))
            d4 = case.data(seed)
            np.random.seed(4242)
            o_t2 = _call(case.build().query, **case.query_kwargs(d4, case.models(), mode))
            if snap.out_canon(o_t) == snap.out_canon(o_t2) and snap.out_canon(o_c) != snap.out_canon(o_t):
                findings.append(dict(kind="clone-differs", name="strategy", what="clone(strategy) after a query answers differently from a freshly constructed twin"))
            info["deterministic"] = snap.out_canon(o_t) == snap.out_canon(o_t2)
        except Exception as e:
            info["clone_raised"] = f"{type(e).__name__}: {str(e)[:100]}"
    return findings, info


def pool_readonly_probe(case, mode, seed):
    """Detector only: pass read-only arrays; an in-place write raises. Returns the error text or None."""
    qs = case.build()
    data = case.data(seed)
    kw = case.query_kwargs(data, case.models(), mode)
    for v in snap.arrays_in(kw).values():
        v.setflags(write=False)
    try:
        _call(qs.query, **kw)
    except ValueError as e:
        if "read-only" in str(e):
            return str(e)[:120]
    except Exception:
        return None
    return None


def _short(x):
    s = repr(x)
    return s if len(s) < 70 else s[:67] + "..."


# ---------------------------------------------------------------------------------------------------
# C13: estimators
def _predictions(est, case, data):
    res = {}
    for m in case.predict_methods:
        try:
            res[m] = snap.canon(_call(getattr(est, m), X=data["X_test"]))
        except TypeError:
            res[m] = snap.canon(getattr(est, m)(data["X_test"]))
    for m in case.dist_methods:
        d = getattr(est, m)(data["X_test"])
        res[m] = snap.canon((d.mean(), d.std()))
    return res


def estimator_refit_vs_fresh(case, seed):
    """fit(set 1) [+ predict] then fit(set 2) must equal a fresh clone fitted on set 2; get_params
    and the caller-owned argument objects must not change in any call."""
    findings = []
    est = case.build()
    fresh = case.build()
    data = case.data(seed)
    par0 = snap.params_snapshot(est)

    def step(name, fn, **kw):
        a0 = snap.arrays_snapshot(kw)
        _call(fn, **kw)
        for k in snap.diff_keys(a0, snap.arrays_snapshot(kw)):
            findings.append(dict(kind="array-modified", name=f"{name}:{k}", what=f"{name} modified the caller's array `{k}` in place"))
        for k in snap.diff_keys(par0, snap.params_snapshot(est)):
            findings.append(dict(kind="param-write", name=k, method=name, what=f"get_params()['{k}'] changed during {name}: {_short(par0.get(k))} -> {_short(snap.params_snapshot(est).get(k))}"))

    step("fit", est.fit, **case.fit_kwargs(data, 1))
    if findings:
        return findings, {}
    for m in case.predict_methods:
        step(m, getattr(est, m), X=data["X_test"])
        if findings:
            return findings, {}
    step("fit", est.fit, **case.fit_kwargs(data, 2))
    _call(fresh.fit, **case.fit_kwargs(case.data(seed), 2))
    p_used = _predictions(est, case, data)
    p_fresh = _predictions(fresh, case, data)
    # sanity: the two training sets give different models (otherwise the comparison says nothing)
    other = case.build()
    _call(other.fit, **case.fit_kwargs(case.data(seed), 1))
    p_other = _predictions(other, case, data)
    info = dict(discriminating=p_other != p_fresh)
    for m in p_used:
        if p_used[m] != p_fresh[m]:
            # is fitting deterministic at all?
            again = case.build()
            _call(again.fit, **case.fit_kwargs(case.data(seed), 2))
            if _predictions(again, case, data)[m] == p_fresh[m]:
                findings.append(dict(kind="history-leak", name=m, method="fit", what=f"refit on other data: `{m}` differs from a fresh clone fitted on the same data"))
    return findings, info


def estimator_call_sequence(case, seed, rng, length=6):
    """Random sequence of public calls; get_params and arrays before/after every call."""
    findings = []
    est = case.build()
    data = case.data(seed)
    par0 = snap.params_snapshot(est)
    ops = ["fit1", "fit2"] + list(case.predict_methods) + list(case.dist_methods)
    if case.partial_fit_kwargs is not None:
        ops += ["pfit1", "pfit2"]
    seq = ["fit1"] + [rng.choice(ops) for _ in range(length)]
    for op in seq:
        if op.startswith("fit"):
            kw, fn, name = case.fit_kwargs(data, int(op[-1])), est.fit, "fit"
        elif op.startswith("pfit"):
            kw, fn, name = case.partial_fit_kwargs(data, int(op[-1])), est.partial_fit, "partial_fit"
        else:
            kw, fn, name = dict(X=data["X_test"]), getattr(est, op), op
        a0 = snap.arrays_snapshot(kw)
        try:
            _call(fn, **kw)
        except Exception as e:
            return findings, dict(raised=f"{name}: {type(e).__name__}: {str(e)[:80]}", seq=seq)
        for k in snap.diff_keys(a0, snap.arrays_snapshot(kw)):
            findings.append(dict(kind="array-modified", name=f"{name}:{k}", method=name, what=f"{name} modified the caller's array `{k}` in place"))
        par1 = snap.params_snapshot(est)
        for k in snap.diff_keys(par0, par1):
            findings.append(dict(kind="param-write", name=k, method=name, what=f"get_params()['{k}'] changed during {name}: {_short(par0.get(k))} -> {_short(par1.get(k))}"))
        if findings:
            break
    return findings, dict(seq=seq)


def stream_params(case, seed):
    """query/update over all chunks: get_params, caller's clf and arrays before/after every call."""
    findings = []
    qs = case.build()
    data = case.data(seed)
    models = case.models()
    par0 = snap.params_snapshot(qs)
    mod0 = {k: _model_snapshot(v) for k, v in models.items() if hasattr(v, "get_params")}

    def compare(name, kw):
        for k in snap.diff_keys(par0, snap.params_snapshot(qs)):
            findings.append(dict(kind="param-write", name=k, method=name, what=f"get_params()['{k}'] changed during {name}: {_short(par0.get(k))} -> {_short(snap.params_snapshot(qs).get(k))}"))
        for k, v in models.items():
            if k in mod0 and _model_snapshot(v) != mod0[k]:
                findings.append(dict(kind="model-altered", name=k, method=name, what=f"{name} altered the caller's `{k}` object"))

    for chunk in data["chunks"]:
        kw = case.query_kwargs(data, models, chunk)
        a0 = snap.arrays_snapshot(kw)
        try:
            queried, utilities = _call(qs.query, **kw)
        except Exception as e:
            return findings, dict(raised=f"query: {type(e).__name__}: {str(e)[:80]}")
        for k in snap.diff_keys(a0, snap.arrays_snapshot(kw)):
            findings.append(dict(kind="array-modified", name=k, method="query", what=f"query modified the caller's array `{k}` in place"))
        compare("query", kw)
        if findings:
            break
        ukw = case.update_kwargs(data, models, chunk, queried, utilities)
        a0 = snap.arrays_snapshot(ukw)
        try:
            _call(qs.update, **ukw)
        except Exception as e:
            return findings, dict(raised=f"update: {type(e).__name__}: {str(e)[:80]}")
        for k in snap.diff_keys(a0, snap.arrays_snapshot(ukw)):
            findings.append(dict(kind="array-modified", name=k, method="update", what=f"update modified the caller's array `{k}` in place"))
        compare("update", ukw)
        if findings:
            break
    return findings, {}


def budget_params(case, seed):
    findings = []
    bm = case.build()
    data = case.data(seed)
    par0 = snap.params_snapshot(bm)
    for chunk in data["utility_chunks"]:
        kw = case.query_kwargs(data, chunk)
        a0 = snap.arrays_snapshot(kw)
        try:
            queried = _call(bm.query_by_utility, **kw)
        except Exception as e:
            return findings, dict(raised=f"query_by_utility: {type(e).__name__}: {str(e)[:80]}")
        for k in snap.diff_keys(a0, snap.arrays_snapshot(kw)):
            findings.append(dict(kind="array-modified", name=k, method="query_by_utility", what=f"query_by_utility modified `{k}` in place"))
        for k in snap.diff_keys(par0, snap.params_snapshot(bm)):
            findings.append(dict(kind="param-write", name=k, method="query_by_utility", what=f"get_params()['{k}'] changed during query_by_utility"))
        if findings:
            break
        ukw = case.update_kwargs(data, chunk, queried)
        try:
            _call(bm.update, **ukw)
        except Exception as e:
            return findings, dict(raised=f"update: {type(e).__name__}: {str(e)[:80]}")
        for k in snap.diff_keys(par0, snap.params_snapshot(bm)):
            findings.append(dict(kind="param-write", name=k, method="update", what=f"get_params()['{k}'] changed during update"))
        if findings:
            break
    return findings, {}


# ---------------------------------------------------------------------------------------------------
# C06: reproducibility
GLOBAL_SEEDS = (11, 222, 3333)


def _with_global_seed(s, thunk):
    np.random.seed(s)
    before = snap.canon(np.random.get_state()[1])
    out = thunk()
    after = snap.canon(np.random.get_state()[1])
    return out, before != after


def repro_pool(case, mode, seed, tie_data=False):
    """Twin objects, repeated identical query, three global generator states."""
    findings = []
    info = {}

    def run_fresh(gs):
        qs = case.build()
        data = case.data(seed)
        if tie_data:
            _tie(data)
        kw = case.query_kwargs(data, case.models(), mode)
        return _with_global_seed(gs, lambda: snap.out_canon(_call(qs.query, **kw)))

    try:
        outs = [run_fresh(gs) for gs in GLOBAL_SEEDS]
        # twin under the same global state
        o_twin, _ = run_fresh(GLOBAL_SEEDS[0])
        # repeated identical query on one object
        qs = case.build()
        data = case.data(seed)
        if tie_data:
            _tie(data)
        kw = case.query_kwargs(data, case.models(), mode)
        # same global state before both calls: isolates state carried by the object itself
        np.random.seed(GLOBAL_SEEDS[0])
        r1 = snap.out_canon(_call(qs.query, **kw))
        np.random.seed(GLOBAL_SEEDS[0])
        r2 = snap.out_canon(_call(qs.query, **kw))
        # and without re-seeding: the second call sees whatever the first left in the global generator
        r3 = snap.out_canon(_call(qs.query, **kw))
    except Exception as e:
        return findings, dict(raised=f"{type(e).__name__}: {str(e)[:100]}")
    info["global_state_advanced"] = any(adv for _, adv in outs)
    if len({repr(o) for o, _ in outs}) == 1 and o_twin != outs[0][0]:
        findings.append(dict(kind="twin-differs", name="query", what="two freshly constructed strategies with equal parameters return different results for the same call (same global seed)"))
    if len({repr(o) for o, _ in outs}) > 1 or (r1 == r2 and r3 != r2):
        findings.append(dict(kind="global-rng-dependence", name="query", what=f"the result of query depends on the state of numpy's global generator (np.random.seed {GLOBAL_SEEDS} / repeated call without re-seeding) although random_state is an integer"))
        return findings, info       # same root cause as a differing repeat / twin
    if r1 != r2:
        findings.append(dict(kind="repeat-differs", name="query", what="repeating the identical query on one strategy (same global generator state) gives a different result"))
    return findings, info


def _tie(data):
    """Make utilities tie: duplicate the unlabeled rows (and candidate rows)."""
    X = data["X"]
    y = data["y"]
    unl = np.where(np.isnan(y if y.ndim == 1 else y[:, 0]))[0]
    if len(unl) >= 2:
        X[unl[1:]] = X[unl[0]]
    if "cand_arr" in data and isinstance(data["cand_arr"], np.ndarray) and len(data["cand_arr"]) > 1:
        data["cand_arr"][1:] = data["cand_arr"][0]


def repro_stream(case, seed):
    findings = []

    def run(gs):
        qs = case.build()
        data = case.data(seed)
        models = case.models()
        np.random.seed(gs)
        res = []
        for chunk in data["chunks"]:
            kw = case.query_kwargs(data, models, chunk)
            queried, utilities = _call(qs.query, **kw)
            res.append(snap.canon((queried, utilities)))
            _call(qs.update, **case.update_kwargs(data, models, chunk, queried, utilities))
        return res

    try:
        outs = [run(gs) for gs in GLOBAL_SEEDS]
        twin = run(GLOBAL_SEEDS[0])
    except Exception as e:
        return findings, dict(raised=f"{type(e).__name__}: {str(e)[:100]}")
    if twin != outs[0]:
        findings.append(dict(kind="twin-differs", name="query/update", what="two stream strategies with equal parameters give different query/update sequences"))
    if len({repr(o) for o in outs}) > 1:
        findings.append(dict(kind="global-rng-dependence", name="query/update", what="the query/update sequence depends on np.random.seed(...) although random_state is an integer"))
    return findings, {}


def repro_budget(case, seed):
    findings = []

    def run(gs):
        bm = case.build()
        data = case.data(seed)
        np.random.seed(gs)
        res = []
        for chunk in data["utility_chunks"]:
            queried = _call(bm.query_by_utility, **case.query_kwargs(data, chunk))
            res.append(snap.canon(queried))
            _call(bm.update, **case.update_kwargs(data, chunk, queried))
        return res

    try:
        outs = [run(gs) for gs in GLOBAL_SEEDS]
        twin = run(GLOBAL_SEEDS[0])
    except Exception as e:
        return findings, dict(raised=f"{type(e).__name__}: {str(e)[:100]}")
    if twin != outs[0]:
        findings.append(dict(kind="twin-differs", name="query_by_utility/update", what="two budget managers with equal parameters decide differently"))
    if len({repr(o) for o in outs}) > 1:
        findings.append(dict(kind="global-rng-dependence", name="query_by_utility/update", what="decisions depend on np.random.seed(...) although random_state is an integer"))
    return findings, {}


def repro_estimator(case, seed):
    findings = []

    def run(gs):
        est = case.build()
        data = case.data(seed)
        np.random.seed(gs)
        _call(est.fit, **case.fit_kwargs(data, 1))
        return _predictions(est, case, data)

    try:
        outs = [run(gs) for gs in GLOBAL_SEEDS]
        twin = run(GLOBAL_SEEDS[0])
    except Exception as e:
        return findings, dict(raised=f"{type(e).__name__}: {str(e)[:100]}")
    for m in outs[0]:
        if twin[m] != outs[0][m]:
            findings.append(dict(kind="twin-differs", name=m, what=f"two estimators with equal parameters fitted on the same data differ in `{m}`"))
        if len({repr(o[m]) for o in outs}) > 1:
            findings.append(dict(kind="global-rng-dependence", name=m, what=f"`{m}` after fit depends on np.random.seed(...) although random_state is given"))
    return findings, {}
