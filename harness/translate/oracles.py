"""Dynamic oracles of the effect / frame properties on the real code (C05, C13, C06).

Each function runs one zoo case on the real implementation and returns a list of findings
`dict(kind=..., name=..., what=...)`; the property modules turn them into `ctx.violate(...)` keys and
compare them with what the translator's summaries predict.
"""
import copy
import pickle
import warnings

import numpy as np
from sklearn.base import clone

from . import snap

MODEL_KEYS = ("clf", "reg", "ensemble", "discriminator")


class Raised(Exception):
    pass


def _call(fn, **kw):
    with warnings.catch_warnings():
        warnings.simplefilter("ignore")
        with np.errstate(all="ignore"):
            return fn(**kw)


def _models_in(kw):
    out = {}
    for k, v in kw.items():
        if isinstance(v, np.ndarray) or v is None or isinstance(v, (bool, int, float, str)):
            continue
        if hasattr(v, "get_params") or (isinstance(v, (list, tuple)) and v and all(hasattr(x, "get_params") for x in v)):
            out[k] = v
    return out


def _model_snapshot(m, X=None):
    if isinstance(m, (list, tuple)):
        return ("list", tuple(_model_snapshot(x, X) for x in m))
    pred = None
    if X is not None:
        # predictions of an already fitted model (deterministic part only: probabilities / frequencies / means)
        for meth in ("predict_freq", "predict_proba", "predict"):
            if hasattr(m, meth) and not (meth == "predict" and hasattr(m, "predict_proba")):
                try:
                    pred = (meth, snap.canon(_call(getattr(m, meth), X=X)))
                except Exception:
                    pred = None
                break
    # the model's own generator is legitimately advanced by predict (tie breaking): not part of the comparison
    state = {k: v for k, v in vars(m).items() if not isinstance(v, (np.random.RandomState, np.random.Generator))}
    return ("est", snap.canon(m.get_params(deep=True)), snap.canon(state), pred)


# ---------------------------------------------------------------------------------------------------
# C05: one pool case, one candidate mode
FIT_FLAGS = ("fit_clf", "fit_reg", "fit_ensemble")


def has_fit_flag(case):
    try:
        kw = case.query_kwargs(case.data(0), case.models(), case.cand_modes[0])
    except Exception:
        return False
    return any(f in kw for f in FIT_FLAGS)


def _prefit_variant(kw, variant):
    """`fit_<model>=False` with a model the caller has fitted: the query must use it as it is.
    variant 'prefit' keeps sample_weight, 'prefit-nosw' drops it. Returns False if not applicable."""
    flags = [f for f in FIT_FLAGS if f in kw]
    if not flags:
        return False
    sw = kw.get("sample_weight")
    for name, m in _models_in(kw).items():
        for est in (m if isinstance(m, (list, tuple)) else [m]):
            if sw is not None:
                try:
                    _call(est.fit, X=kw["X"], y=kw["y"], sample_weight=sw)
                    continue
                except TypeError:
                    pass
            _call(est.fit, X=kw["X"], y=kw["y"])
    for f in flags:
        kw[f] = False
    if variant == "prefit-nosw":
        kw.pop("sample_weight", None)
        kw.pop("sample_weight_candidates", None)
    return True


def pool_side_effects(case, mode, seed, n_queries=2, check_clone=True, variant=None):
    """Snapshot before / after every query: input arrays, get_params(deep=True), caller's models
    (parameters, fitted attributes and, for pre-fitted models, predictions), pickling, clone twin."""
    findings = []
    qs = case.build()
    data = case.data(seed)
    models = case.models()
    if variant in ("rs-instance", "rs-instance-all-labeled"):
        # the constructor parameter `random_state` is a caller-owned RandomState instance: its state is part of
        # get_params() and must survive a query (the all-labeled flavour has the smallest per-call seed multiplier)
        if "random_state" not in qs.get_params(deep=False):
            return findings, dict(not_applicable=True)
        inst = np.random.RandomState(seed % 1000 + 11)
        inst.random_sample(2)
        qs.set_params(random_state=inst)
        if variant == "rs-instance-all-labeled" and (mode == "none" or not _label_all(data)):
            return findings, dict(not_applicable=True)
    kw = case.query_kwargs(data, models, mode)
    if variant in ("prefit", "prefit-nosw"):
        try:
            if not _prefit_variant(kw, variant):
                return findings, dict(not_applicable=True)
        except Exception as e:
            return findings, dict(raised=f"prefit: {type(e).__name__}: {str(e)[:80]}")
        check_clone = False
    arr0 = snap.arrays_snapshot(kw)
    par0 = snap.params_snapshot(qs)
    if variant is not None:
        check_clone = False
    Xp = kw["X"] if variant in ("prefit", "prefit-nosw") else None
    mod0 = {k: _model_snapshot(v, Xp) for k, v in _models_in(kw).items()}
    pick0 = snap.pickles(qs)
    outs = []
    for q in range(n_queries):
        try:
            outs.append(_call(qs.query, **kw))
        except Exception as e:
            return findings, dict(raised=f"{type(e).__name__}: {str(e)[:100]}", outs=outs)
        arr1 = snap.arrays_snapshot(kw)
        for k in snap.diff_keys(arr0, arr1):
            findings.append(dict(kind="array-modified", name=k, what=f"query #{q + 1} modified the caller's array `{k}` in place"))
        par1 = snap.params_snapshot(qs)
        for k in snap.diff_keys(par0, par1):
            findings.append(dict(kind="param-write", name=k, what=f"get_params()['{k}'] changed during query #{q + 1}: {_short(par0.get(k))} -> {_short(par1.get(k))}"))
        for k, v in _models_in(kw).items():
            if _model_snapshot(v, Xp) != mod0[k]:
                findings.append(dict(kind="model-altered", name=k, what=f"query #{q + 1} altered the caller's `{k}` object (parameters, fitted attributes or predictions)" + (f" [fit flag False, pre-fitted model, {'with' if 'sample_weight' in kw else 'without'} sample_weight]" if variant in ("prefit", "prefit-nosw") else "")))
        if findings:
            break
    pick1 = snap.pickles(qs)
    if pick0 is None and pick1 is not None:
        findings.append(dict(kind="unpicklable", name="strategy", what=f"pickle.dumps(strategy) fails after query ({pick1}) but worked before"))
    info = dict(outs=outs)
    if check_clone and not findings:
        # a clone of the used strategy behaves like a freshly constructed twin
        try:
            c = clone(qs)
            twin = case.build()
            d2 = case.data(seed)
            np.random.seed(4242)   # strategies that (wrongly) use the global generator: C06's business
            o_c = _call(c.query, **case.query_kwargs(d2, case.models(), mode))
            d3 = case.data(seed)
            np.random.seed(4242)
            o_t = _call(twin.query, **case.query_kwargs(d3, case.models(), mode))
            d4 = case.data(seed)
            np.random.seed(4242)
            o_t2 = _call(case.build().query, **case.query_kwargs(d4, case.models(), mode))
            if snap.out_canon(o_t) == snap.out_canon(o_t2) and snap.out_canon(o_c) != snap.out_canon(o_t):
                findings.append(dict(kind="clone-differs", name="strategy", what="clone(strategy) after a query answers differently from a freshly constructed twin"))
            info["deterministic"] = snap.out_canon(o_t) == snap.out_canon(o_t2)
        except Exception as e:
            info["clone_raised"] = f"{type(e).__name__}: {str(e)[:100]}"
    return findings, info


def pool_readonly_probe(case, mode, seed):
    """Detector only: pass read-only arrays; an in-place write raises. Returns the error text or None."""
    qs = case.build()
    data = case.data(seed)
    kw = case.query_kwargs(data, case.models(), mode)
    for v in snap.arrays_in(kw).values():
        v.setflags(write=False)
    try:
        _call(qs.query, **kw)
    except ValueError as e:
        if "read-only" in str(e):
            return str(e)[:120]
    except Exception:
        return None
    return None


def _short(x):
    s = repr(x)
    return s if len(s) < 70 else s[:67] + "..."


# ---------------------------------------------------------------------------------------------------
# C13: estimators
def _predictions(est, case, data):
    res = {}
    for m in case.predict_methods:
        try:
            res[m] = snap.canon(_call(getattr(est, m), X=data["X_test"]))
        except TypeError:
            res[m] = snap.canon(getattr(est, m)(data["X_test"]))
    for m in case.dist_methods:
        d = getattr(est, m)(data["X_test"])
        res[m] = snap.canon((d.mean(), d.std()))
    return res


def estimator_refit_vs_fresh(case, seed):
    """fit(set 1) [+ predict] then fit(set 2) must equal a fresh clone fitted on set 2; get_params
    and the caller-owned argument objects must not change in any call."""
    findings = []
    est = case.build()
    fresh = case.build()
    data = case.data(seed)
    par0 = snap.params_snapshot(est)

    def step(name, fn, **kw):
        a0 = snap.arrays_snapshot(kw)
        _call(fn, **kw)
        for k in snap.diff_keys(a0, snap.arrays_snapshot(kw)):
            findings.append(dict(kind="array-modified", name=f"{name}:{k}", what=f"{name} modified the caller's array `{k}` in place"))
        for k in snap.diff_keys(par0, snap.params_snapshot(est)):
            findings.append(dict(kind="param-write", name=k, method=name, what=f"get_params()['{k}'] changed during {name}: {_short(par0.get(k))} -> {_short(snap.params_snapshot(est).get(k))}"))

    step("fit", est.fit, **case.fit_kwargs(data, 1))
    if findings:
        return findings, {}
    for m in case.predict_methods:
        step(m, getattr(est, m), X=data["X_test"])
        if findings:
            return findings, {}
    step("fit", est.fit, **case.fit_kwargs(data, 2))
    _call(fresh.fit, **case.fit_kwargs(case.data(seed), 2))
    p_used = _predictions(est, case, data)
    p_fresh = _predictions(fresh, case, data)
    # sanity: the two training sets give different models (otherwise the comparison says nothing)
    other = case.build()
    _call(other.fit, **case.fit_kwargs(case.data(seed), 1))
    p_other = _predictions(other, case, data)
    info = dict(discriminating=p_other != p_fresh)
    for m in p_used:
        if p_used[m] != p_fresh[m]:
            # is fitting deterministic at all?
            again = case.build()
            _call(again.fit, **case.fit_kwargs(case.data(seed), 2))
            if _predictions(again, case, data)[m] == p_fresh[m]:
                findings.append(dict(kind="history-leak", name=m, method="fit", what=f"refit on other data: `{m}` differs from a fresh clone fitted on the same data"))
    return findings, info


def _blank_labels(kw, est):
    """the same call with every label missing (a cold start)"""
    kw = dict(kw)
    if "y" not in kw:
        return None
    ml = getattr(est, "missing_label", np.nan)
    y = np.asarray(kw["y"])
    try:
        if y.dtype.kind in "fc" or (isinstance(ml, float) and ml != ml):
            kw["y"] = np.full(y.shape, np.nan, dtype=float)
        else:
            kw["y"] = np.full(y.shape, ml, dtype=y.dtype if y.dtype.kind in "OUS" else object)
    except Exception:  # noqa: BLE001
        return None
    return kw


def estimator_refit_without_labels(case, seed):
    """fit(set 1) [+ predict], then fit on set 2 with EVERY label missing (a cold start), then -- where the estimator has
    partial_fit -- partial_fit(set 2, labeled): must equal a fresh clone that is fitted on the label-less set 2 and continued the same
    way.  A fit without labels has nothing to learn from, but it still has to forget (seed R7C13)."""
    findings = []
    est, fresh = case.build(), case.build()
    data = case.data(seed)
    kw_cold = _blank_labels(case.fit_kwargs(data, 2), est)
    if kw_cold is None:
        return findings, dict(skipped="no labels argument")
    try:
        _call(est.fit, **case.fit_kwargs(data, 1))
        for m in case.predict_methods:
            _call(getattr(est, m), X=data["X_test"])
        _call(est.fit, **kw_cold)
        _call(fresh.fit, **_blank_labels(case.fit_kwargs(case.data(seed), 2), fresh))
        cont = False
        if case.partial_fit_kwargs is not None:
            # continue with the *other* data set: what leaked from the first fit then shows in the model
            _call(est.partial_fit, **case.partial_fit_kwargs(data, 2))
            _call(fresh.partial_fit, **case.partial_fit_kwargs(case.data(seed), 2))
            cont = True
        p_used = _predictions(est, case, data)
        p_fresh = _predictions(fresh, case, data)
    except Exception as e:  # noqa: BLE001  (estimators that cannot be fitted without labels: nothing to compare)
        return findings, dict(raised=f"{type(e).__name__}: {str(e)[:80]}")
    for m in p_used:
        if p_used[m] != p_fresh[m]:
            again = case.build()
            try:
                _call(again.fit, **_blank_labels(case.fit_kwargs(case.data(seed), 2), again))
                if cont:
                    _call(again.partial_fit, **case.partial_fit_kwargs(case.data(seed), 2))
                same = _predictions(again, case, data)[m] == p_fresh[m]
            except Exception:  # noqa: BLE001
                same = False
            if same:
                findings.append(dict(kind="history-leak", name=m, method="fit",
                                     what=f"refit on a training set without labels{' followed by partial_fit' if cont else ''}: `{m}` differs "
                                          f"from a fresh clone taken through the same calls"))
    return findings, dict(continued=cont)


def estimator_refit_other_arguments(case, seed):
    """fit(set 1 with sample_weight) then fit(set 2 WITHOUT sample_weight) -- and the other way round -- must equal a fresh clone
    given the second call only: an optional argument that is left out must not be remembered from an earlier fit (seed R9C13)."""
    findings = []
    data = case.data(seed)
    kw1 = case.fit_kwargs(data, 1)
    if "sample_weight" not in kw1 or kw1["sample_weight"] is None:
        return findings, dict(skipped="no sample_weight in this configuration")

    def drop(kw):
        kw = dict(kw)
        kw.pop("sample_weight", None)
        return kw

    for first_weighted in (True, False):
        est, fresh = case.build(), case.build()
        try:
            k1 = case.fit_kwargs(case.data(seed), 1)
            k2 = case.fit_kwargs(case.data(seed), 2)
            k2f = case.fit_kwargs(case.data(seed), 2)
            if first_weighted:
                k2, k2f = drop(k2), drop(k2f)
            else:
                k1 = drop(k1)
            _call(est.fit, **k1)
            for m in case.predict_methods:
                _call(getattr(est, m), X=data["X_test"])
            _call(est.fit, **k2)
            _call(fresh.fit, **k2f)
            p_used = _predictions(est, case, data)
            p_fresh = _predictions(fresh, case, data)
        except Exception as e:  # noqa: BLE001
            # a refit that raises where the fresh object would not is a finding of its own
            try:
                f2 = case.build()
                kk = case.fit_kwargs(case.data(seed), 2)
                _call(f2.fit, **(drop(kk) if first_weighted else kk))
                _predictions(f2, case, data)
                findings.append(dict(kind="history-leak", name="fit", method="fit",
                                     what=f"fit {'with' if first_weighted else 'without'} sample_weight, then fit {'without' if first_weighted else 'with'}: "
                                          f"the used object raises {type(e).__name__}: {str(e)[:80]} where a fresh clone works"))
            except Exception:  # noqa: BLE001
                pass
            continue
        for m in p_used:
            if p_used[m] != p_fresh[m]:
                findings.append(dict(kind="history-leak", name=m, method="fit",
                                     what=f"fit {'with' if first_weighted else 'without'} sample_weight, then fit {'without' if first_weighted else 'with'} "
                                          f"sample_weight on other data: `{m}` differs from a fresh clone given the second call only"))
                break
    return findings, {}


def estimator_call_sequence(case, seed, rng, length=6, prefitted=False):
    """Random sequence of public calls; get_params and arrays before/after every call.
    `prefitted`: the wrapped `estimator` parameter is a model the caller has trained already (wrappers accept that and predict
    without a fit of their own); the sequence then starts with a prediction and what `get_params()['estimator']` reports
    includes the caller's fitted attributes."""
    findings = []
    est = case.build()
    data = case.data(seed)
    if prefitted:
        inner = est.get_params(deep=False).get("estimator")
        if inner is None or not hasattr(inner, "fit") or hasattr(inner, "missing_label"):
            return findings, dict(raised="Skip: no plain wrapped estimator")
        try:
            kw1 = case.fit_kwargs(data, 1)
            X1, y1 = np.asarray(kw1["X"]), np.asarray(kw1["y"], dtype=float)
            m = ~np.isnan(y1) if y1.ndim == 1 else ~np.isnan(y1).any(axis=1)
            if m.sum() < 2:
                return findings, dict(raised="Skip: fewer than two labeled samples")
            inner.fit(X1[m], y1[m])
        except Exception as e:  # noqa: BLE001
            return findings, dict(raised=f"Skip: pre-fitting the wrapped estimator: {type(e).__name__}")
    par0 = snap.params_snapshot(est)
    ops = ["fit1", "fit2"] + list(case.predict_methods) + list(case.dist_methods)
    if case.partial_fit_kwargs is not None:
        ops += ["pfit1", "pfit2"]
    seq = ["fit1"] + [rng.choice(ops) for _ in range(length)]
    if prefitted:
        first = list(case.predict_methods)[:1] or ["fit1"]
        tail = [rng.choice(ops) for _ in range(length)]
        if case.partial_fit_kwargs is not None:
            tail[0] = "pfit1"          # prediction of the pre-trained model, then incremental training
        seq = first + tail
    for op in seq:
        if op.startswith("fit"):
            kw, fn, name = case.fit_kwargs(data, int(op[-1])), est.fit, "fit"
        elif op.startswith("pfit"):
            kw, fn, name = case.partial_fit_kwargs(data, int(op[-1])), est.partial_fit, "partial_fit"
        else:
            kw, fn, name = dict(X=data["X_test"]), getattr(est, op), op
        a0 = snap.arrays_snapshot(kw)
        try:
            _call(fn, **kw)
        except Exception as e:
            return findings, dict(raised=f"{name}: {type(e).__name__}: {str(e)[:80]}", seq=seq)
        for k in snap.diff_keys(a0, snap.arrays_snapshot(kw)):
            findings.append(dict(kind="array-modified", name=f"{name}:{k}", method=name, what=f"{name} modified the caller's array `{k}` in place"))
        par1 = snap.params_snapshot(est)
        for k in snap.diff_keys(par0, par1):
            findings.append(dict(kind="param-write", name=k, method=name, what=f"get_params()['{k}'] changed during {name}: {_short(par0.get(k))} -> {_short(par1.get(k))}"))
        if findings:
            break
    return findings, dict(seq=seq)


def stream_params(case, seed):
    """query/update over all chunks: get_params, caller's clf and arrays before/after every call."""
    findings = []
    qs = case.build()
    data = case.data(seed)
    models = case.models()
    par0 = snap.params_snapshot(qs)
    mod0 = {k: _model_snapshot(v) for k, v in models.items() if hasattr(v, "get_params")}

    def compare(name, kw):
        for k in snap.diff_keys(par0, snap.params_snapshot(qs)):
            findings.append(dict(kind="param-write", name=k, method=name, what=f"get_params()['{k}'] changed during {name}: {_short(par0.get(k))} -> {_short(snap.params_snapshot(qs).get(k))}"))
        for k, v in models.items():
            if k in mod0 and _model_snapshot(v) != mod0[k]:
                findings.append(dict(kind="model-altered", name=k, method=name, what=f"{name} altered the caller's `{k}` object"))

    for chunk in data["chunks"]:
        kw = case.query_kwargs(data, models, chunk)
        a0 = snap.arrays_snapshot(kw)
        try:
            queried, utilities = _call(qs.query, **kw)
        except Exception as e:
            return findings, dict(raised=f"query: {type(e).__name__}: {str(e)[:80]}")
        for k in snap.diff_keys(a0, snap.arrays_snapshot(kw)):
            findings.append(dict(kind="array-modified", name=k, method="query", what=f"query modified the caller's array `{k}` in place"))
        compare("query", kw)
        if findings:
            break
        ukw = case.update_kwargs(data, models, chunk, queried, utilities)
        a0 = snap.arrays_snapshot(ukw)
        try:
            _call(qs.update, **ukw)
        except Exception as e:
            return findings, dict(raised=f"update: {type(e).__name__}: {str(e)[:80]}")
        for k in snap.diff_keys(a0, snap.arrays_snapshot(ukw)):
            findings.append(dict(kind="array-modified", name=k, method="update", what=f"update modified the caller's array `{k}` in place"))
        compare("update", ukw)
        if findings:
            break
    return findings, {}


def budget_params(case, seed, warm_instance=False):
    """`warm_instance`: `random_state` is a caller-owned RandomState instance (what get_params reports includes its state) and
    `update` for an already processed part of the stream comes before the first query."""
    findings = []
    bm = case.build()
    data = case.data(seed)
    if warm_instance:
        if "random_state" not in bm.get_params(deep=False) or not data["utility_chunks"]:
            return findings, dict(raised="Skip: no random_state parameter")
        inst = np.random.RandomState(seed % 1000 + 5)
        inst.random_sample(2)
        bm.set_params(random_state=inst)
    par0 = snap.params_snapshot(bm)
    if warm_instance:
        chunk = data["utility_chunks"][0]
        n0 = len(np.asarray(list(case.query_kwargs(data, chunk).values())[0]))
        try:
            _call(bm.update, **case.update_kwargs(data, chunk, np.arange(min(2, n0))))
        except Exception as e:
            return findings, dict(raised=f"update: {type(e).__name__}: {str(e)[:80]}")
        for k in snap.diff_keys(par0, snap.params_snapshot(bm)):
            findings.append(dict(kind="param-write", name=k, method="update", what=f"get_params()['{k}'] changed during update (called before the first query_by_utility)"))
        if findings:
            return findings, {}
    for chunk in data["utility_chunks"]:
        kw = case.query_kwargs(data, chunk)
        a0 = snap.arrays_snapshot(kw)
        try:
            queried = _call(bm.query_by_utility, **kw)
        except Exception as e:
            return findings, dict(raised=f"query_by_utility: {type(e).__name__}: {str(e)[:80]}")
        for k in snap.diff_keys(a0, snap.arrays_snapshot(kw)):
            findings.append(dict(kind="array-modified", name=k, method="query_by_utility", what=f"query_by_utility modified `{k}` in place"))
        for k in snap.diff_keys(par0, snap.params_snapshot(bm)):
            findings.append(dict(kind="param-write", name=k, method="query_by_utility", what=f"get_params()['{k}'] changed during query_by_utility"))
        if findings:
            break
        ukw = case.update_kwargs(data, chunk, queried)
        try:
            _call(bm.update, **ukw)
        except Exception as e:
            return findings, dict(raised=f"update: {type(e).__name__}: {str(e)[:80]}")
        for k in snap.diff_keys(par0, snap.params_snapshot(bm)):
            findings.append(dict(kind="param-write", name=k, method="update", what=f"get_params()['{k}'] changed during update"))
        if findings:
            break
    return findings, {}


# ---------------------------------------------------------------------------------------------------
# C06: reproducibility
GLOBAL_SEEDS = (11, 222, 3333)


def _with_global_seed(s, thunk):
    np.random.seed(s)
    before = snap.canon(np.random.get_state()[1])
    out = thunk()
    after = snap.canon(np.random.get_state()[1])
    return out, before != after


def repro_pool(case, mode, seed, tie_data=False):
    """Twin objects, repeated identical query, three global generator states."""
    findings = []
    info = {}

    def run_fresh(gs):
        qs = case.build()
        data = case.data(seed)
        if tie_data:
            _tie(data)
        kw = case.query_kwargs(data, case.models(), mode)
        return _with_global_seed(gs, lambda: snap.out_canon(_call(qs.query, **kw)))

    try:
        outs = [run_fresh(gs) for gs in GLOBAL_SEEDS]
        # twin under the same global state
        o_twin, _ = run_fresh(GLOBAL_SEEDS[0])
        # repeated identical query on one object
        qs = case.build()
        data = case.data(seed)
        if tie_data:
            _tie(data)
        kw = case.query_kwargs(data, case.models(), mode)
        # same global state before both calls: isolates state carried by the object itself
        np.random.seed(GLOBAL_SEEDS[0])
        r1 = snap.out_canon(_call(qs.query, **kw))
        np.random.seed(GLOBAL_SEEDS[0])
        r2 = snap.out_canon(_call(qs.query, **kw))
        # and without re-seeding: the second call sees whatever the first left in the global generator
        r3 = snap.out_canon(_call(qs.query, **kw))
    except Exception as e:
        return findings, dict(raised=f"{type(e).__name__}: {str(e)[:100]}")
    info["global_state_advanced"] = any(adv for _, adv in outs)
    if len({repr(o) for o, _ in outs}) == 1 and o_twin != outs[0][0]:
        findings.append(dict(kind="twin-differs", name="query", what="two freshly constructed strategies with equal parameters return different results for the same call (same global seed)"))
    if len({repr(o) for o, _ in outs}) > 1 or (r1 == r2 and r3 != r2):
        findings.append(dict(kind="global-rng-dependence", name="query", what=f"the result of query depends on the state of numpy's global generator (np.random.seed {GLOBAL_SEEDS} / repeated call without re-seeding) although random_state is an integer"))
        return findings, info       # same root cause as a differing repeat / twin
    if r1 != r2:
        findings.append(dict(kind="repeat-differs", name="query", what="repeating the identical query on one strategy (same global generator state) gives a different result"))
    return findings, info


def _label_all(data):
    """Reveal every label (the per-call seed multiplier of a pool query is `#unlabeled + 1`, so this is its smallest
    value); candidates then have to be given explicitly."""
    y = data["y"]
    fill = data.get("y_true", data.get("cls_true"))
    if fill is None:
        return False
    m = np.isnan(y)
    if y.ndim == 1:
        y[m] = np.asarray(fill, dtype=float)[m]
    else:
        y[m] = np.broadcast_to(np.asarray(fill, dtype=float)[:, None], y.shape)[m]
    return True


def repro_pool_instance(case, mode, seed, all_labeled=False):
    """`random_state` given as a RandomState *instance* (C06 covers it): two freshly constructed strategies holding
    instances in equal states agree, the same call repeated on one strategy gives the same result, and the instance
    the caller handed over is in the state it was given in afterwards (the per-call generator is derived from a deep
    copy)."""
    findings, info = [], {}

    def build():
        qs = case.build()
        if "random_state" not in qs.get_params(deep=False):
            return None, None
        inst = np.random.RandomState(seed % 1000 + 7)
        inst.random_sample(3)                      # not at its initial position
        qs.set_params(random_state=inst)
        return qs, inst

    def prep():
        data = case.data(seed)
        if all_labeled and not _label_all(data):
            return None
        return case.query_kwargs(data, case.models(), mode)

    try:
        qs, inst = build()
        if qs is None:
            return findings, dict(raised="Skip: no random_state parameter")
        kw = prep()
        if kw is None:
            return findings, dict(raised="Skip: no labels to reveal")
        before = snap.canon(inst.get_state())
        np.random.seed(GLOBAL_SEEDS[0])
        r1 = snap.out_canon(_call(qs.query, **kw))
        after1 = snap.canon(inst.get_state())
        np.random.seed(GLOBAL_SEEDS[0])
        r2 = snap.out_canon(_call(qs.query, **kw))
        qs_t, inst_t = build()
        np.random.seed(GLOBAL_SEEDS[0])
        r_twin = snap.out_canon(_call(qs_t.query, **prep()))
    except Exception as e:
        return findings, dict(raised=f"{type(e).__name__}: {str(e)[:100]}")
    if before != after1:
        findings.append(dict(kind="caller-instance-advanced", name="query", what="query advanced the RandomState instance passed as random_state (the per-call generator must be derived from a copy); a repeated call therefore starts from another state"))
    if r1 != r2:
        findings.append(dict(kind="repeat-differs-instance", name="query", what="with random_state a RandomState instance, repeating the identical query on one strategy gives a different result"))
    elif r1 != r_twin:
        findings.append(dict(kind="twin-differs-instance", name="query", what="two freshly constructed strategies holding RandomState instances in equal states return different results for the same call"))
    return findings, info


def _hide_some(data, k=2):
    """An earlier labeling state of the same pool: `k` of the labeled rows are still unlabeled."""
    y = data["y"]
    lab = np.where(~np.isnan(y if y.ndim == 1 else y[:, 0]))[0]
    for i in lab[:: max(1, len(lab) // k)][:k]:
        y[i] = np.nan
    return data


def repro_pool_history(case, mode, seed):
    """A pool query is a function of the constructor parameters and the call arguments: a strategy object that has
    already answered another query (same X, an earlier labeling state, another candidate mode and batch size) returns
    what a freshly constructed strategy returns for the same call."""
    findings, info = [], {}
    modes = list(case.cand_modes)
    other_mode = modes[(modes.index(mode) + 1) % len(modes)] if mode in modes else modes[0]
    try:
        import inspect

        has_update = "update" in inspect.signature(case.build().query).parameters

        def main_kw():
            kw = case.query_kwargs(case.data(seed), case.models(), mode)
            if has_update:
                # a documented cache (ProbCover: `update=False` re-uses distances and delta_max of the first call by
                # design): the statement is about what a call computes when it is told to compute everything
                kw["update"] = True
            return kw

        np.random.seed(GLOBAL_SEEDS[0])
        r_fresh = snap.out_canon(_call(case.build().query, **main_kw()))
        np.random.seed(GLOBAL_SEEDS[0])
        r_fresh2 = snap.out_canon(_call(case.build().query, **main_kw()))
        qs = case.build()
        kw0 = case.query_kwargs(_hide_some(case.data(seed)), case.models(), other_mode)
        kw0["batch_size"] = 3
        try:
            np.random.seed(GLOBAL_SEEDS[1])
            _call(qs.query, **kw0)
        except Exception as e:  # the earlier call may be outside the strategy's domain: then there is no history
            return findings, dict(raised=f"Skip: earlier call {type(e).__name__}")
        np.random.seed(GLOBAL_SEEDS[0])
        r_used = snap.out_canon(_call(qs.query, **main_kw()))
    except Exception as e:
        return findings, dict(raised=f"{type(e).__name__}: {str(e)[:100]}")
    if r_fresh == r_fresh2 and r_used != r_fresh:
        findings.append(dict(kind="history-dependence", name="query", what="a strategy that has answered an earlier query (same X, earlier labeling state, other candidates / batch size) returns a different result than a freshly constructed strategy for the same call"))
    return findings, info


def _far(data):
    """move the unlabeled rows (and candidate rows) far away from every labeled sample: kernel classifiers then see no
    mass there and have to break the tie between all classes with their own generator"""
    X, y = data["X"], data["y"]
    unl = np.where(np.isnan(y if y.ndim == 1 else y[:, 0]))[0]
    X[unl] = X[unl] + 1.0e4
    if "cand_arr" in data and isinstance(data["cand_arr"], np.ndarray):
        data["cand_arr"] = data["cand_arr"] + 1.0e4


def repro_pool_prefit(case, mode, seed, far=False):
    """`fit_<model>=False` with models the caller has fitted: the query works on the caller's objects as they are, so a
    repeated call with the same arguments (the same model objects) and a freshly built twin strategy given the same
    objects return the same result (seed R7C06: a strategy that consumes the members' own generators does not)."""
    findings = []
    try:
        data = case.data(seed)
        if far:
            _far(data)
        kw = case.query_kwargs(data, case.models(), mode)
        if not _prefit_variant(kw, "prefit"):
            return findings, dict(not_applicable=True)
        np.random.seed(GLOBAL_SEEDS[0])
        r1 = snap.out_canon(_call(case.build().query, **kw))
        np.random.seed(GLOBAL_SEEDS[0])
        r2 = snap.out_canon(_call(case.build().query, **kw))
        np.random.seed(GLOBAL_SEEDS[0])
        r3 = snap.out_canon(_call(case.build().query, **kw))
    except Exception as e:  # noqa: BLE001
        return findings, dict(raised=f"{type(e).__name__}: {str(e)[:100]}")
    if not (r1 == r2 == r3):
        findings.append(dict(kind="prefit-models-consumed", name="query",
                             what="fit flag False, models fitted by the caller: freshly built, equally seeded strategies given the same model "
                                  "objects return different results from one call to the next (the query advances state of the caller's models)"))
    return findings, {}


def _tie(data):
    """Make utilities tie: duplicate the unlabeled rows (and candidate rows)."""
    X = data["X"]
    y = data["y"]
    unl = np.where(np.isnan(y if y.ndim == 1 else y[:, 0]))[0]
    if len(unl) >= 2:
        X[unl[1:]] = X[unl[0]]
    if "cand_arr" in data and isinstance(data["cand_arr"], np.ndarray) and len(data["cand_arr"]) > 1:
        data["cand_arr"][1:] = data["cand_arr"][0]


def repro_stream(case, seed):
    findings = []

    def run(gs):
        qs = case.build()
        data = case.data(seed)
        models = case.models()
        np.random.seed(gs)
        res = []
        for chunk in data["chunks"]:
            kw = case.query_kwargs(data, models, chunk)
            queried, utilities = _call(qs.query, **kw)
            res.append(snap.canon((queried, utilities)))
            _call(qs.update, **case.update_kwargs(data, models, chunk, queried, utilities))
        return res

    try:
        outs = [run(gs) for gs in GLOBAL_SEEDS]
        twin = run(GLOBAL_SEEDS[0])
    except Exception as e:
        return findings, dict(raised=f"{type(e).__name__}: {str(e)[:100]}")
    if twin != outs[0]:
        findings.append(dict(kind="twin-differs", name="query/update", what="two stream strategies with equal parameters give different query/update sequences"))
    if len({repr(o) for o in outs}) > 1:
        findings.append(dict(kind="global-rng-dependence", name="query/update", what="the query/update sequence depends on np.random.seed(...) although random_state is an integer"))
    return findings, {}


def repro_budget(case, seed):
    findings = []

    def run(gs):
        bm = case.build()
        data = case.data(seed)
        np.random.seed(gs)
        res = []
        for chunk in data["utility_chunks"]:
            queried = _call(bm.query_by_utility, **case.query_kwargs(data, chunk))
            res.append(snap.canon(queried))
            _call(bm.update, **case.update_kwargs(data, chunk, queried))
        return res

    try:
        outs = [run(gs) for gs in GLOBAL_SEEDS]
        twin = run(GLOBAL_SEEDS[0])
    except Exception as e:
        return findings, dict(raised=f"{type(e).__name__}: {str(e)[:100]}")
    if twin != outs[0]:
        findings.append(dict(kind="twin-differs", name="query_by_utility/update", what="two budget managers with equal parameters decide differently"))
    if len({repr(o) for o in outs}) > 1:
        findings.append(dict(kind="global-rng-dependence", name="query_by_utility/update", what="decisions depend on np.random.seed(...) although random_state is an integer"))
    return findings, {}


def repro_shared_instance(case, seed, warm=False):
    """One RandomState instance handed to two freshly constructed objects (equal parameters): both must run through the
    same call sequence identically.  `warm`: `update` for an already processed part of the stream comes before the first
    query (warm start / replay), then the ordinary query/update loop."""
    findings = []
    inst = np.random.RandomState(seed % 1000 + 11)
    inst.random_sample(2)

    def run():
        obj = case.build()
        if "random_state" not in obj.get_params(deep=False):
            raise RuntimeError("Skip: no random_state parameter")
        obj.set_params(random_state=inst)
        data = case.data(seed)
        res = []
        if case.family == "budget":
            chunks = data["utility_chunks"]
            if warm and chunks:
                kw = case.query_kwargs(data, chunks[0])
                n0 = len(np.asarray(list(kw.values())[0]))
                _call(obj.update, **case.update_kwargs(data, chunks[0], np.arange(min(2, n0))[::1]))
            for chunk in chunks:
                queried = _call(obj.query_by_utility, **case.query_kwargs(data, chunk))
                res.append(snap.canon(queried))
                _call(obj.update, **case.update_kwargs(data, chunk, queried))
        else:
            models = case.models()
            chunks = data["chunks"]
            for chunk in chunks:
                kw = case.query_kwargs(data, models, chunk)
                queried, utilities = _call(obj.query, **kw)
                res.append(snap.canon((queried, utilities)))
                _call(obj.update, **case.update_kwargs(data, models, chunk, queried, utilities))
        return res

    try:
        np.random.seed(GLOBAL_SEEDS[0])
        a = run()
        np.random.seed(GLOBAL_SEEDS[0])
        b = run()
    except Exception as e:
        return findings, dict(raised=f"{type(e).__name__}: {str(e)[:100]}")
    if a != b:
        findings.append(dict(kind="shared-instance-differs" + ("-warm-start" if warm else ""), name="query/update",
                             what="two freshly constructed objects given the same RandomState instance as random_state run through the same "
                                  "call sequence differently" + (" (update before the first query)" if warm else "")))
    return findings, {}


def repro_estimator(case, seed):
    findings = []

    def run(gs):
        est = case.build()
        data = case.data(seed)
        np.random.seed(gs)
        _call(est.fit, **case.fit_kwargs(data, 1))
        return _predictions(est, case, data)

    try:
        outs = [run(gs) for gs in GLOBAL_SEEDS]
        twin = run(GLOBAL_SEEDS[0])
    except Exception as e:
        return findings, dict(raised=f"{type(e).__name__}: {str(e)[:100]}")
    for m in outs[0]:
        if twin[m] != outs[0][m]:
            findings.append(dict(kind="twin-differs", name=m, what=f"two estimators with equal parameters fitted on the same data differ in `{m}`"))
        if len({repr(o[m]) for o in outs}) > 1:
            findings.append(dict(kind="global-rng-dependence", name=m, what=f"`{m}` after fit depends on np.random.seed(...) although random_state is given"))
    return findings, {}


# ---------------------------------------------------------------------------------------------------
# set_params between calls (C13) and re-used objects (C06)
ALT = {
    # estimators
    "window_size": [2, 3, 5, 4], "only_labeled": [True, False], "n_neighbors": [1, 2, 3], "class_prior": [0.5, 1.0, 0.0],
    "metric_dict": [{"gamma": 0.25}, {"gamma": 2.0}], "kappa_0": [0.5, 1.0], "nu_0": [2.5, 3.0], "mu_0": [0.5, 0.0],
    "sigma_sq_0": [0.5, 1.0], "weight_mode": ["similarities", "responsibilities"], "voting": ["soft", "hard"],
    "tol": [0.01, 0.001], "max_iter": [3, 5], "weights_prior": [0.5, 1.0], "fit_intercept": [True, False],
    "alpha": [0.1, 0.2], "mode": ["lower", "mean", "upper"], "random_state": [1, 2],
    # stream strategies / budget managers
    "budget": [0.25, 0.5], "w": [4, 8], "theta": [0.5, 1.0], "s": [0.125, 0.01], "v": [0.25, 0.5], "delta": [0.5, 1.0],
    "prior": [0.5, 0.001], "m_max": [2, 3], "density_threshold": [1, 2], "cognition_window_size": [3, 5],
    "allow_exceeding_budget": [True, False], "force_full_budget": [True, False], "w_tol": [10, 20],
}


def alt_params(obj):
    """(param, other valid value) pairs for the parameters of `obj` we know alternatives for."""
    out = []
    try:
        cur = obj.get_params(deep=False)
    except Exception:
        return out
    if "estimator" in cur and cur["estimator"] is not None:
        # exchange the wrapped scikit-learn estimator for one of another class (whatever the wrapper resolved or cached for
        # the first one -- signatures, defaults -- must not survive; seed R7F4)
        from sklearn.base import is_classifier, is_regressor
        from sklearn.linear_model import LinearRegression
        from sklearn.naive_bayes import GaussianNB
        from sklearn.tree import DecisionTreeClassifier, DecisionTreeRegressor

        e = cur["estimator"]
        if type(obj).__name__ == "SklearnNormalRegressor":   # needs predict(return_std=True)
            from sklearn.gaussian_process import GaussianProcessRegressor
            from sklearn.linear_model import BayesianRidge

            alts = [BayesianRidge(), GaussianProcessRegressor(random_state=0)]
        else:
            alts = ([GaussianNB(), DecisionTreeClassifier(random_state=0)] if is_classifier(e)
                    else [LinearRegression(), DecisionTreeRegressor(random_state=0)] if is_regressor(e) else [])
        for v in alts:
            if type(v) is not type(e):
                out.append(("estimator", v))
                break
    for p, vals in ALT.items():
        if p not in cur:
            continue
        if p == "metric_dict" and cur.get("metric", "rbf") not in ("rbf", None):
            continue
        if p == "force_full_budget":
            continue  # CognitiveDual*.update with force_full_budget=False fails on multi-candidate chunks (other property)
        for v in vals:
            if snap.canon(v) != snap.canon(cur[p]):
                out.append((p, copy.deepcopy(v)))
                break
    return out


def _window_state(est):
    """Window of a SlidingWindowClassifier (contents and capacity)."""
    if not hasattr(est, "X_train_"):
        return None
    d = {}
    for a in ("X_train_", "y_train_", "sample_weight_train_"):
        v = getattr(est, a, None)
        d[a] = None if v is None else (getattr(v, "maxlen", "no-deque"), snap.canon(list(v)))
    return d


def _fit_outcome(est, case, data, which):
    try:
        _call(est.fit, **case.fit_kwargs(data, which))
    except Exception as e:
        return ("raised", type(e).__name__)
    return ("ok", _predictions(est, case, data))


def estimator_setparams_refit(case, seed, rng, n_changes=2):
    """History (fit, predict*, partial_fit), then set_params(<param>=<other valid value>), then fit:
    the used object must equal a fresh clone with the same parameters given the same fit; get_params
    must report exactly what was set; a SlidingWindowClassifier must hold the last window_size
    samples in deques of that capacity."""
    findings = []
    est = case.build()
    data = case.data(seed)
    hist = ["fit1"]
    if _fit_outcome(est, case, data, 1)[0] != "ok":
        return findings, dict(raised="initial fit")
    try:
        _predictions(est, case, data)
        hist.append("predict*")
        if case.partial_fit_kwargs is not None and rng.random() < 0.6:
            _call(est.partial_fit, **case.partial_fit_kwargs(data, 2))
            hist.append("pfit2")
    except Exception as e:
        return findings, dict(raised=f"history: {type(e).__name__}")
    cands = alt_params(est)
    if not cands:
        return findings, dict(no_params=True)
    rng.shuffle(cands)
    cands.sort(key=lambda pv: pv[0] == "random_state")     # every class has it: try the specific parameters first
    changes = cands[:n_changes]
    info = dict(history=hist, changes=[(p, repr(v)[:30]) for p, v in changes])
    for p, v in changes:
        try:
            est.set_params(**{p: v})
        except Exception as e:
            info["set_params_raised"] = f"{p}: {type(e).__name__}"
            return findings, info
        par_set = snap.params_snapshot(est)
        which = rng.choice([1, 2])
        try:
            fresh = clone(est)
        except Exception as e:  # noqa: BLE001  (the new value is not admissible for this class after all)
            info["set_params_raised"] = f"{p}: clone {type(e).__name__}"
            return findings, info
        out_used = _fit_outcome(est, case, data, which)
        d2 = case.data(seed)
        out_fresh = _fit_outcome(fresh, case, d2, which)
        for k in snap.diff_keys(par_set, snap.params_snapshot(est)):
            findings.append(dict(kind="param-write", name=k, method="fit", what=f"after set_params({p}=...) fit changed get_params()['{k}']"))
        if out_used[0] != out_fresh[0]:
            findings.append(dict(kind="stale-after-set_params", name=p, method="fit", what=f"after set_params({p}={v!r}) fit {out_used} on the used object but {out_fresh} on a fresh clone with the same parameters"))
        elif out_used[0] == "ok":
            again = clone(est)
            out_again = _fit_outcome(again, case, case.data(seed), which)
            if out_again == out_fresh:
                for m in out_used[1]:
                    if out_used[1][m] != out_fresh[1][m]:
                        findings.append(dict(kind="stale-after-set_params", name=p, method="fit", what=f"history {hist}, set_params({p}={v!r}), fit(set {which}): `{m}` of the used object differs from a fresh clone with the same parameters fitted on the same data"))
                        break
            wu, wf = _window_state(est), _window_state(fresh)
            if wu is not None and wu != wf:
                findings.append(dict(kind="stale-after-set_params", name=p, method="fit", what=f"history {hist}, set_params({p}={v!r}), fit(set {which}): window of the used object (maxlen, contents) {_short(wu.get('X_train_'))} differs from a fresh clone's {_short(wf.get('X_train_'))}"))
            if wu is not None and "window_size" in est.get_params(deep=False):
                ws = est.get_params(deep=False)["window_size"]
                xs = est.X_train_
                if ws is not None and (len(xs) > ws or xs.maxlen != ws):
                    findings.append(dict(kind="window-not-last-w", name="window_size", method="fit", what=f"after set_params and fit the window holds {len(xs)} samples in a deque of capacity {xs.maxlen} although window_size={ws}"))
        if findings:
            break
    return findings, info


def stream_setparams(case, seed, rng):
    """query/update, set_params(<param>=<other valid value>), more query/update: no call may change
    what get_params reports (a used stream strategy legitimately differs from a fresh one: it has
    spent budget; only the parameter clause applies)."""
    findings = []
    qs = case.build()
    data = case.data(seed)
    models = case.models() if case.models else {}
    chunks = data["chunks"] if case.family == "stream" else data["utility_chunks"]
    changed = None
    for i, chunk in enumerate(chunks):
        if i == max(1, len(chunks) // 2):
            cands = alt_params(qs)
            if cands:
                p, v = rng.choice(cands)
                try:
                    qs.set_params(**{p: v})
                    changed = (p, repr(v)[:30])
                except Exception:
                    pass
        par0 = snap.params_snapshot(qs)
        try:
            if case.family == "stream":
                queried, utilities = _call(qs.query, **case.query_kwargs(data, models, chunk))
                m = "query"
            else:
                queried = _call(qs.query_by_utility, **case.query_kwargs(data, chunk))
                m = "query_by_utility"
            for k in snap.diff_keys(par0, snap.params_snapshot(qs)):
                findings.append(dict(kind="param-write", name=k, method=m, what=f"get_params()['{k}'] changed during {m}" + (f" after set_params{changed}" if changed else "")))
            if findings:
                break
            if case.family == "stream":
                _call(qs.update, **case.update_kwargs(data, models, chunk, queried, utilities))
            else:
                _call(qs.update, **case.update_kwargs(data, chunk, queried))
            for k in snap.diff_keys(par0, snap.params_snapshot(qs)):
                findings.append(dict(kind="param-write", name=k, method="update", what=f"get_params()['{k}'] changed during update" + (f" after set_params{changed}" if changed else "")))
        except Exception as e:
            return findings, dict(raised=f"{type(e).__name__}: {str(e)[:60]}", changed=changed)
        if findings:
            break
    return findings, dict(changed=changed)


def _tie_estimator_data(data, level):
    """Tie-heavy variants: 1 = no labels at all, 2 = test points far outside every kernel."""
    d = dict(data)
    if level == 1:
        for k in ("y1", "y2"):
            d[k] = np.full_like(np.asarray(data[k], dtype=float), np.nan)
    d["X_test"] = np.vstack([np.asarray(data["X_test"], dtype=float), np.asarray(data["X_test"], dtype=float) * 1e3 + 1e3])
    return d


def repro_estimator_reuse(case, seed, tie_level=0, n_prior=2):
    """The result of fit -> predict* is a function of the constructor parameters and the call
    arguments: an object that has been fitted / asked before gives the same predictions after the
    same fit as a freshly constructed twin (tie-heavy data make predict consume randomness)."""
    findings = []

    def mk():
        d = case.data(seed)
        return _tie_estimator_data(d, tie_level) if tie_level else d

    try:
        np.random.seed(GLOBAL_SEEDS[0])
        fresh = case.build()
        d = mk()
        _call(fresh.fit, **case.fit_kwargs(d, 1))
        p_fresh = _predictions(fresh, case, d)
        np.random.seed(GLOBAL_SEEDS[1])
        fresh2 = case.build()
        d = mk()
        _call(fresh2.fit, **case.fit_kwargs(d, 1))
        p_fresh2 = _predictions(fresh2, case, d)
        np.random.seed(GLOBAL_SEEDS[2])
        used = case.build()
        for _ in range(n_prior):
            d = mk()
            _call(used.fit, **case.fit_kwargs(d, 1))
            _predictions(used, case, d)
        d = mk()
        _call(used.fit, **case.fit_kwargs(d, 1))
        p_used = _predictions(used, case, d)
    except Exception as e:
        return findings, dict(raised=f"{type(e).__name__}: {str(e)[:100]}")
    if p_fresh != p_fresh2:
        return findings, dict(twins_differ=True)      # reported by repro_estimator
    for m in p_fresh:
        if p_used[m] != p_fresh[m]:
            findings.append(dict(kind="reused-object-differs", name=m, what=f"after {n_prior} earlier fit/predict rounds with the same arguments, fit(...).{m}(X_test) differs from a freshly constructed twin" + (" (tie-heavy data)" if tie_level else "")))
            break
    return findings, {}
