"""Regenerate `lean/SkaModel/Gen/*.lean` from the current source tree (`vlib.REPO`).

    generate("C05" | "C13" | "C06", ctx=None) -> dict(obligations=[...], flips=[...], ...)

Every obligation is emitted with the truth value the Python mirror (`abscheck`) predicts; Lean's
`decide` is the judge (a wrong prediction breaks the build = broken tie).  The values expected on
the reference tree are kept in `expected.json` next to this file: an obligation that was expected to
hold and no longer does is a *flip* (broken tie); obligations expected to fail are leads that the
dynamic oracle of the property must confirm (`finding: <key>`) or that are documented imprecisions
of the abstraction (`imprecise: <why>`).
"""
import json
import os
import time

from .. import vlib
from . import abscheck
from .pyindex import Index
from .summarize import Summarizer

HERE = os.path.dirname(os.path.abspath(__file__))
GEN = os.path.join(vlib.LEAN, "SkaModel", "Gen")
EXPECTED = os.path.join(HERE, "expected.json")

SCOPE = {
    "C05": dict(packages=["skactiveml.pool", "skactiveml.pool.multiannotator"], only_strategies=True, module="EffectsC05"),
    "C13": dict(
        packages=["skactiveml.classifier", "skactiveml.classifier.multiannotator", "skactiveml.regressor", "skactiveml.stream",
                  "skactiveml.stream.budgetmanager", "skactiveml.pool.multiannotator"],
        only_strategies=False, module="EffectsC13"),
    "C06": dict(
        packages=["skactiveml.pool", "skactiveml.pool.multiannotator", "skactiveml.stream", "skactiveml.stream.budgetmanager",
                  "skactiveml.classifier", "skactiveml.classifier.multiannotator", "skactiveml.regressor"],
        only_strategies=False, module="RngC06"),
}


# ---- slicing ---------------------------------------------------------------------------------------
def _path_locals(p, out):
    if p[0] == "loc":
        out.add(p[1])
    elif p[0] == "sub":
        _path_locals(p[1], out)


def _rhs_locals(r, out):
    if r[0] == "fresh":
        for p in r[1]:
            _path_locals(p, out)
    else:
        _path_locals(r[1], out)


def slice_items(items):
    """Drop bindings of locals that no effect atom can depend on, and empty branches."""
    needed = set()

    def seed(items):
        for it in items:
            k = it[0]
            if k == "ite":
                seed(it[1])
                seed(it[2])
            elif k == "writeAttr":
                _rhs_locals(it[2], needed)
            elif k == "mutate":
                _path_locals(it[1], needed)
                for p in it[2]:
                    _path_locals(p, needed)
            elif k in ("callFit", "callInner"):
                _path_locals(it[1], needed)

    def grow(items):
        ch = False
        for it in items:
            if it[0] == "ite":
                ch = grow(it[1]) or ch
                ch = grow(it[2]) or ch
            elif it[0] == "bind" and it[1] in needed:
                new = set()
                _rhs_locals(it[2], new)
                if not new <= needed:
                    needed.update(new)
                    ch = True
        return ch

    seed(items)
    while grow(items):
        pass

    def prune(items):
        out = []
        for it in items:
            if it[0] == "ite":
                a, b = prune(it[1]), prune(it[2])
                if a or b:
                    out.append(("ite", a, b))
            elif it[0] == "bind":
                if it[1] in needed:
                    out.append(it)
            else:
                out.append(it)
            if it[0] == "abort":
                break
        return out

    return prune(items)


def has_inner(items):
    for it in items:
        if it[0] == "callInner" or (it[0] == "ite" and (has_inner(it[1]) or has_inner(it[2]))):
            return True
    return False


def count_items(items):
    n = 0
    for it in items:
        n += 1
        if it[0] == "ite":
            n += count_items(it[1]) + count_items(it[2])
    return n


# ---- Lean emission -----------------------------------------------------------------------------------
class Names:
    def __init__(self):
        self.tab = {}

    def ix(self, name):
        if name not in self.tab:
            self.tab[name] = len(self.tab)
        return self.tab[name]


def lean_ident(s):
    return "".join(ch if ch.isalnum() or ch == "_" else "_" for ch in s)


class Emitter:
    def __init__(self, prefix, attrs, keys):
        self.prefix, self.attrs, self.keys = prefix, attrs, keys
        self.locals = Names()
        self.defs = []
        self.n = 0

    def path(self, p):
        if p[0] == "loc":
            return f"(.loc {self.locals.ix(p[1])})"
        if p[0] == "attr":
            return f"(.attr {self.attrs.ix(p[1])})"
        return f"(.sub {self.path(p[1])} {self.keys.ix(str(p[2]))})"

    def rhs(self, r):
        if r[0] == "fresh":
            return "(.fresh [" + ", ".join(self.path(p) for p in r[1]) + "])"
        return f"(.{r[0]} {self.path(r[1])})"

    def atom(self, it):
        k = it[0]
        if k == "bind":
            return f"(.bind {self.locals.ix(it[1])} {self.rhs(it[2])})"
        if k == "writeAttr":
            return f"(.writeAttr {self.attrs.ix(it[1])} {self.rhs(it[2])})"
        if k == "mutate":
            return f"(.mutate {self.path(it[1])} [" + ", ".join(self.path(p) for p in it[2]) + "])"
        if k == "callFit":
            return f"(.callFit {self.path(it[1])})"
        if k == "callInner":
            return f"(.callInner {self.path(it[1])})"
        if k == "readAttr":
            return f"(.readAttr {self.attrs.ix(it[1])})"
        raise ValueError(k)

    def newdef(self, body):
        name = f"{self.prefix}_b{self.n}"
        self.n += 1
        self.defs.append(f"def {name} : Prog :=\n  {body}")
        return name

    def block(self, items, chunk=10):
        """Returns a Lean term (a def name or `.skip`) for the item list."""
        rest = ".skip"
        pending = 0
        for it in reversed(items):
            if it[0] == "abort":
                rest, pending = ".abort", 0
                continue
            if it[0] == "ite":
                t = self.block(it[1])
                e = self.block(it[2])
                rest = f".ite {t} {e} {rest}" if rest.startswith(self.prefix) or rest in (".skip", ".abort") else f".ite {t} {e} ({rest})"
                rest = self.newdef(rest)
                pending = 0
            else:
                rest = f".seq {self.atom(it)} {rest}" if rest.startswith(self.prefix) or rest in (".skip", ".abort") else f".seq {self.atom(it)} ({rest})"
                pending += 1
                if pending >= chunk:
                    rest = self.newdef(rest)
                    pending = 0
        if not (rest.startswith(self.prefix) or rest in (".skip", ".abort")):
            rest = self.newdef(rest)
        return rest


# ---- summarising the classes in scope ------------------------------------------------------------------
def classes_in_scope(ix, prop):
    sc = SCOPE[prop]
    out, seen = [], set()
    for pk in sc["packages"]:
        for c in ix.exported(pk):
            if c.name in seen:
                continue
            is_strategy = ix.resolve_method(c, "query") is not None
            if prop == "C05" and not is_strategy:
                continue
            if prop == "C13" and pk == "skactiveml.pool.multiannotator" and is_strategy:
                continue
            seen.add(c.name)
            out.append(c)
    return out


def summarise_class(ix, c):
    params = ix.ctor_params(c)
    params = params + [a for a in ix.ctor_attrs(c) if a not in params]
    res = dict(cls=c, params=params, methods={}, rng={}, notes={})
    for m in ix.public_methods(c):
        sm = Summarizer(ix, c, m, params)
        try:
            items = sm.run()
        except RecursionError:
            items = None
            sm.notes.append("recursion limit while summarising")
        if items is None:
            continue
        res["methods"][m] = items
        res["rng"][m] = sm.rng_sites
        res["notes"][m] = sm.notes
    res["closed"], res["safe"] = abscheck.infer_ownership(set(params), res["methods"])
    return res


_CACHE = {}


def summaries(prop):
    key = (vlib.REPO, prop)
    if key not in _CACHE:
        ix = Index(vlib.REPO)
        _CACHE[key] = (ix, [summarise_class(ix, c) for c in classes_in_scope(ix, prop)])
    return _CACHE[key]


def load_expected():
    if os.path.exists(EXPECTED):
        return json.load(open(EXPECTED)).get("obligations", {})
    return {}


# ---- main entry ------------------------------------------------------------------------------------------
def generate(prop, ctx=None, write=True):
    t0 = time.time()
    ix, sums = summaries(prop)
    mod = SCOPE[prop]["module"]
    obligations = []
    out = []
    out.append("import SkaModel.Core.Effects" if prop != "C06" else "import SkaModel.Core.Rng")
    out.append("")
    out.append(f"/-! GENERATED by `harness/translate` from the current source tree — do not edit.\nProperty {prop}; one summary per class and public method, one `decide`d obligation each. -/")
    out.append("")
    out.append(f"namespace Ska.Gen.{prop}")
    out.append("open Ska.Effects" if prop != "C06" else "open Ska.Rng")
    out.append("set_option maxRecDepth 100000")
    out.append("")
    for r in sums:
        c = r["cls"]
        rel = os.path.relpath(c.file, vlib.REPO)
        if prop == "C06":
            out.append(f"/-! ### {c.name}  ({rel}) -/")
            for m, sites in r["rng"].items():
                if not r["methods"].get(m) and not sites:
                    continue
                if m == "fit" and r["methods"].get(m):
                    # `fit` must re-derive its generator from the constructor parameter: a `random_state_` that is
                    # read before it is (certainly) written is carried over from earlier calls
                    _, _, hl = abscheck.history_free(r["params"], r["methods"][m])
                    seen_c = set()
                    for ld in hl:
                        if ld.get("attr") == "random_state_" and (ld["file"], ld["line"]) not in seen_c:
                            seen_c.add((ld["file"], ld["line"]))
                            sites = sites + [("carried", dict(file=ld["file"], line=ld["line"], text=f"[{ld['kind']}] " + ld["text"]))]
                name = f"rng_{c.name}_{m}"
                pred = all(k not in ("global", "unseeded", "carried") for k, _ in sites)
                lst = ", ".join("." + k for k, _ in sites)
                for k, meta in sites:
                    out.append(f"-- {k:9s} {meta['file']}:{meta['line']}  {meta['text'][:100]}")
                out.append(f"def {name} : List Src := [{lst}]")
                out.append(f"theorem {name}_noGlobal : NoGlobal {name} = {'true' if pred else 'false'} := by decide")
                out.append("")
                leads = [dict(kind="rng-" + k, **meta) for k, meta in sites if k in ("global", "unseeded", "carried")]
                obligations.append(dict(name=f"{name}_noGlobal", cls=c.name, method=m, kind="rng", value=pred, leads=leads, sites=len(sites),
                                        inner=has_inner(r["methods"].get(m) or [])))
            continue
        attrs = Names()
        keys = Names()
        keys.ix("*")
        for p in r["params"]:
            attrs.ix(p)
        chunks = []
        for m, items in r["methods"].items():
            sl = slice_items(items)
            em = Emitter(f"{lean_ident(c.name)}_{m}", attrs, keys)
            body = em.block(sl)
            ok, _, leads = abscheck.frame_ok(r["params"], r["closed"], r["safe"], sl)
            ok_full, _, _ = abscheck.frame_ok(r["params"], r["closed"], r["safe"], items)
            if ok != ok_full:
                leads.append(dict(kind="slicing-changed-verdict", file="", line=0, text="internal: sliced and full summary disagree"))
                ok = ok_full and ok
            chunks.append((m, em, body, ok, leads, sl, items))
        out.append(f"/-! ### {c.name}  ({rel})")
        out.append("attributes: " + " ".join(f"{i}={n}" for n, i in attrs.tab.items()))
        out.append("keys: " + " ".join(f"{i}={n}" for n, i in keys.tab.items()) + " -/")
        pl = "[" + ", ".join(str(attrs.ix(p)) for p in r["params"]) + "]"
        cl = "[" + ", ".join(str(attrs.ix(a)) for a in r["closed"]) + "]"
        sf = "[" + ", ".join(str(attrs.ix(a)) for a in r["safe"]) + "]"
        for m, em, body, ok, leads, sl, items in chunks:
            sname = f"summary_{lean_ident(c.name)}_{m}"
            out.append(f"-- {c.name}.{m}: locals " + " ".join(f"{i}={n}" for n, i in em.locals.tab.items()))
            out.extend(em.defs)
            out.append(f"def {sname} : Summary :=\n  {{ params := {pl}, closedAttrs := {cl}, safeAttrs := {sf}, body := {body} }}")
            for ld in leads[:6]:
                out.append(f"-- lead: {ld['kind']} {ld.get('attr') or ld.get('path') or ''}  {ld['file']}:{ld['line']}  {ld['text'][:90]}")
            tname = f"effects_{lean_ident(c.name)}_{m}"
            out.append(f"theorem {tname} : FrameOK {sname} = {'true' if ok else 'false'} := by decide")
            obligations.append(dict(name=tname, cls=c.name, method=m, kind="frame", value=ok, leads=_dedupe(leads), size=count_items(sl), full_size=count_items(items),
                                    inner=has_inner(items)))
            if prop == "C05" and m == "query":
                # used by C06: a query that reads no fitted attribute of `self` before writing it in the same call is a
                # function of the constructor parameters and the call arguments (no state cached between queries)
                hok, _, hleads = abscheck.history_free(r["params"], sl)
                hname = f"query_{lean_ident(c.name)}_historyFree"
                for ld in hleads[:6]:
                    out.append(f"-- lead: {ld['kind']} {ld['attr']}  {ld['file']}:{ld['line']}  {ld['text'][:90]}")
                out.append(f"theorem {hname} : HistoryFree {sname} = {'true' if hok else 'false'} := by decide")
                obligations.append(dict(name=hname, cls=c.name, method=m, kind="history-query", value=hok, leads=_dedupe(hleads)))
            if prop == "C13" and m not in MUTATING_METHODS:
                # predict* / sample* / predict_target_distribution ...: pure readers of `self`
                pok, pleads = pure_reader(sl)
                pname = f"pure_{lean_ident(c.name)}_{m}"
                for ld in pleads[:4]:
                    out.append(f"-- lead: {ld['kind']} {ld.get('attr') or ld.get('path') or ''}  {ld['file']}:{ld['line']}  {ld['text'][:90]}")
                out.append(f"theorem {pname} : pureReader {sname}.body = {'true' if pok else 'false'} := by decide")
                obligations.append(dict(name=pname, cls=c.name, method=m, kind="pure", value=pok, leads=_dedupe(pleads)))
            if prop == "C13" and m == "fit":
                hok, _, hleads = abscheck.history_free(r["params"], sl)
                hname = f"fit_{lean_ident(c.name)}_historyFree"
                for ld in hleads[:6]:
                    out.append(f"-- lead: {ld['kind']} {ld['attr']}  {ld['file']}:{ld['line']}  {ld['text'][:90]}")
                out.append(f"theorem {hname} : HistoryFree {sname} = {'true' if hok else 'false'} := by decide")
                obligations.append(dict(name=hname, cls=c.name, method=m, kind="history", value=hok, leads=_dedupe(hleads)))
            out.append("")
    out.append(f"end Ska.Gen.{prop}")
    text = "\n".join(out) + "\n"
    path = os.path.join(GEN, mod + ".lean")
    if write:
        os.makedirs(GEN, exist_ok=True)
        old = open(path).read() if os.path.exists(path) else None
        if old != text:
            with open(path, "w") as f:
                f.write(text)
    # ---- compare with the reference expectations ----------------------------------------------------
    exp = load_expected()
    flips, leads_expected, repaired, new_false = [], [], [], []
    for ob in obligations:
        e = exp.get(ob["name"])
        ob["expected"] = True if e is None else bool(e["value"])
        ob["why"] = "" if e is None else e.get("why", "")
        if ob["expected"] and not ob["value"]:
            flips.append(ob)
        elif not ob["expected"] and ob["value"]:
            repaired.append(ob)
        elif not ob["expected"] and not ob["value"]:
            leads_expected.append(ob)
    res = dict(
        prop=prop, module=f"SkaModel.Gen.{mod}", obligations=obligations, flips=flips, leads=leads_expected, repaired=repaired,
        seconds=round(time.time() - t0, 2), repo=vlib.REPO,
        notes={f"{r['cls'].name}.{m}": n for r in sums for m, n in r["notes"].items() if n},
    )
    if ctx is not None:
        ctx.notes["generated_obligations"] = len(obligations)
        ctx.notes["generated_discharged"] = len(obligations)
        ctx.notes["generated_module"] = res["module"]
        ctx.notes["translator_seconds"] = res["seconds"]
        ctx.notes["translator_summary"] = dict(
            classes=len(sums), obligations=len(obligations), hold=sum(1 for o in obligations if o["value"]),
            negated=[o["name"] for o in obligations if not o["value"]],
            repaired_since_reference=[o["name"] for o in repaired],
        )
        for ob in flips:
            if ob["kind"] == "history-query":
                continue      # C06's business (harness/props/c06.py reads it from the returned obligations)
            where = "; ".join(f"{ld['kind']} {ld.get('attr') or ld.get('path') or ''} at {ld['file']}:{ld['line']}" for ld in ob["leads"][:3])
            ctx.broken.append(f"translator: obligation {ob['name']} no longer holds for the current source ({where})")
    try:
        os.makedirs(os.path.join(vlib.VERIF, "evidence"), exist_ok=True)
        with open(os.path.join(vlib.VERIF, "evidence", f"translate_{prop}.json"), "w") as f:
            json.dump(vlib.jsonable(dict(res, obligations=[dict(o, leads=o["leads"][:8]) for o in obligations],
                                        flips=[o["name"] for o in flips], leads=[o["name"] for o in leads_expected],
                                        repaired=[o["name"] for o in repaired])), f, indent=1)
    except Exception:
        pass
    return res


# methods that are allowed to change the object (everything else a class exposes is a reader)
MUTATING_METHODS = {"fit", "partial_fit", "update", "query", "query_by_utility", "set_params", "__init__"}


def _is_self_path(p):
    return p[0] == "attr" or (p[0] == "sub" and _is_self_path(p[1]))


def pure_reader(items):
    """Python mirror of `Ska.Effects.pureReader`: no attribute of `self` is written, nothing is mutated / fitted through an
    attribute path of `self`.  Returns (holds, leads)."""
    leads = []

    def walk(its):
        for it in its:
            k = it[0]
            if k == "writeAttr":
                leads.append(dict(kind="attribute-write", attr=it[1], **_meta(it)))
            elif k in ("mutate", "callFit") and _is_self_path(it[1]):
                leads.append(dict(kind="mutation-through-self", path=str(it[1]), **_meta(it)))
            elif k == "ite":
                walk(it[1])
                walk(it[2])

    walk(items)
    return not leads, leads


def _meta(it):
    m = it[-1] if isinstance(it[-1], dict) else {}
    return dict(file=m.get("file", ""), line=m.get("line", 0), text=m.get("text", ""))


def _dedupe(leads):
    seen, out = set(), []
    for ld in leads:
        k = (ld["kind"], ld.get("attr"), ld.get("path"), ld["file"], ld["line"])
        if k not in seen:
            seen.add(k)
            out.append(ld)
    return out


def accept(props=("C05", "C13", "C06")):
    """Rewrite expected.json from the current tree, keeping the `why` of entries that still fail."""
    old = load_expected()
    new = {}
    for p in props:
        res = generate(p, write=False)
        for ob in res["obligations"]:
            if not ob["value"]:
                why = old.get(ob["name"], {}).get("why", "TODO: classify (finding: <key> | imprecise: <reason>)")
                new[ob["name"]] = dict(value=False, why=why, leads=[f"{ld['kind']} {ld.get('attr') or ld.get('path') or ''} {ld['file']}:{ld['line']}" for ld in ob["leads"][:4]])
    with open(EXPECTED, "w") as f:
        json.dump(dict(_comment="Obligations that do NOT hold on the reference tree (all others are expected to hold). "
                                "`why` is either `finding: <key>` (a genuine defect the dynamic oracle must reproduce) or "
                                "`imprecise: <reason>` (documented limit of the abstraction).", obligations=new), f, indent=1, sort_keys=True)
    return new


if __name__ == "__main__":
    import sys

    if "--accept" in sys.argv:
        n = accept()
        print(f"expected.json rewritten: {len(n)} obligations expected to fail")
    else:
        for p in [a for a in sys.argv[1:] if a in SCOPE] or list(SCOPE):
            r = generate(p)
            print(p, "obligations", len(r["obligations"]), "negated", [o["name"] for o in r["obligations"] if not o["value"]], "flips", [o["name"] for o in r["flips"]], f"{r['seconds']}s")
