"""Catalogue of pool query strategies: how to construct each one with light models and how to call it.

Every entry is a `Spec`; `spec.make(seed)` returns a fresh strategy, `spec.kwargs(data, seed)` the extra
query arguments (fresh model objects), `spec.kind` is 'clf' or 'reg' (which label type the data needs).
"""
import numpy as np


class Spec:
    def __init__(self, name, make, kwargs, kind="clf", rows=True, selection="max", skeleton="A",
                 samplewise=False, arbitrary_idx=False, seeded_cluster=False, note="", classes=None):
        self.name = name            # unique configuration name
        self.make = make            # seed -> strategy
        self.kwargs = kwargs        # (data, seed) -> dict of extra query kwargs
        self.kind = kind            # 'clf' | 'reg'
        self.rows = rows            # supports feature-row candidates
        self.selection = selection  # 'max' | 'prop' | 'mixed'
        self.skeleton = skeleton    # 'A' (scatter + simple_batch) | 'B' (own sequential loop)
        self.samplewise = samplewise
        self.arbitrary_idx = arbitrary_idx  # accepts index candidates that include labeled samples
        self.note = note
        self.classes = classes      # class list the data must use (None: the catalogue default)

    @property
    def cls(self):
        return self.name.split("[")[0]


def _pwc(classes, seed=0, **kw):
    from skactiveml.classifier import ParzenWindowClassifier

    return ParzenWindowClassifier(classes=classes, random_state=seed, **kw)


_RECENCY = {}


def _recency(classes, seed=0):
    """A deterministic classifier that is sensitive to the ORDER of its training rows (later rows weigh more): a Parzen window
    classifier whose sample weights are multiplied by the row position.  Cheap stand-in for SGD / forests (seed R9C08)."""
    from skactiveml.classifier import ParzenWindowClassifier

    if "cls" not in _RECENCY:
        class RecencyWeightedPWC(ParzenWindowClassifier):
            def fit(self, X, y, sample_weight=None):
                from skactiveml.utils import is_labeled

                # position among the *labeled* training rows (rows without a label carry no information and no position)
                lab = is_labeled(np.asarray(y), missing_label=self.missing_label)
                w = np.zeros(len(lab))
                w[lab] = (np.arange(int(lab.sum())) + 1.0) / max(int(lab.sum()), 1)
                if sample_weight is not None:
                    w = w * np.asarray(sample_weight, dtype=float)
                return super().fit(X, y, sample_weight=w)

        _RECENCY["cls"] = RecencyWeightedPWC
    return _RECENCY["cls"](classes=classes, random_state=seed)


def _nb(classes, seed=0):
    from sklearn.naive_bayes import GaussianNB
    from skactiveml.classifier import SklearnClassifier

    return SklearnClassifier(GaussianNB(), classes=classes, random_state=seed)


def _logreg(classes, seed=0):
    from sklearn.linear_model import LogisticRegression
    from skactiveml.classifier import SklearnClassifier

    return SklearnClassifier(LogisticRegression(random_state=0, max_iter=50), classes=classes, random_state=seed)


def _ensemble(classes, seed=0):
    from sklearn.ensemble import RandomForestClassifier
    from skactiveml.classifier import SklearnClassifier

    return SklearnClassifier(RandomForestClassifier(n_estimators=4, max_depth=3, random_state=0), classes=classes, random_state=seed)


def _ensemble_list(classes, seed=0):
    return [_pwc(classes, seed, metric_dict={"gamma": g}) for g in (0.5, 1.0, 2.0)]


def _nic(seed=0):
    from skactiveml.regressor import NICKernelRegressor

    return NICKernelRegressor(random_state=seed, metric_dict={"gamma": 1.0})


def _tree_reg(seed=0):
    from sklearn.tree import DecisionTreeRegressor
    from skactiveml.regressor import SklearnRegressor

    return SklearnRegressor(DecisionTreeRegressor(min_samples_leaf=2, random_state=0), random_state=seed)


def _linreg_ens(seed=0):
    from sklearn.ensemble import BaggingRegressor
    from sklearn.linear_model import LinearRegression
    from skactiveml.regressor import SklearnRegressor

    return SklearnRegressor(BaggingRegressor(LinearRegression(), n_estimators=3, random_state=0), random_state=seed)


CLUSTER = {"random_state": 0, "n_init": 1}


def pool_specs(classes=(0, 1, 2), missing_label=np.nan):
    import skactiveml.pool as P

    C = list(classes)
    ml = missing_label
    S = []

    def clf_kw(f):
        return lambda d, s: {"clf": f(C, s)}

    def add(*a, **k):
        S.append(Spec(*a, **k))

    add("RandomSampling", lambda s: P.RandomSampling(missing_label=ml, random_state=s), lambda d, s: {},
        samplewise=True, arbitrary_idx=True)
    for m in ("least_confident", "margin_sampling", "entropy"):
        add(f"UncertaintySampling[{m}]", lambda s, m=m: P.UncertaintySampling(method=m, missing_label=ml, random_state=s),
            clf_kw(_pwc), samplewise=True, arbitrary_idx=True)
    add("UncertaintySampling[nb]", lambda s: P.UncertaintySampling(missing_label=ml, random_state=s), clf_kw(_nb),
        samplewise=True, arbitrary_idx=True)
    add("ProbabilisticAL", lambda s: P.ProbabilisticAL(missing_label=ml, random_state=s), clf_kw(_pwc),
        samplewise=True, arbitrary_idx=True)
    # utility weights handed over as integers (counts): the utilities stay floating point with NaN at non-candidates (seed R10G03)
    add("ProbabilisticAL[int-utility-weights]", lambda s: P.ProbabilisticAL(missing_label=ml, random_state=s),
        lambda d, s: {"clf": _pwc(C, s), "utility_weight": 1 + (np.abs(np.round(np.asarray(d["X"])[:, 0] * 8)).astype(int) % 3)}, rows=False, samplewise=True, arbitrary_idx=True)
    add("UncertaintySampling[int-utility-weights]", lambda s: P.UncertaintySampling(missing_label=ml, random_state=s),
        lambda d, s: {"clf": _pwc(C, s), "utility_weight": 1 + (np.abs(np.round(np.asarray(d["X"])[:, 0] * 8)).astype(int) % 3)}, rows=False, samplewise=True, arbitrary_idx=True)
    add("EpistemicUncertaintySampling[pwc]", lambda s: P.EpistemicUncertaintySampling(missing_label=ml, random_state=s),
        lambda d, s: {"clf": _pwc(C[:2], s)}, samplewise=True, arbitrary_idx=True, classes=C[:2])
    add("EpistemicUncertaintySampling[precompute]", lambda s: P.EpistemicUncertaintySampling(precompute=True, missing_label=ml, random_state=s),
        lambda d, s: {"clf": _pwc(C[:2], s)}, samplewise=True, arbitrary_idx=True, classes=C[:2])
    add("MonteCarloEER", lambda s: P.MonteCarloEER(missing_label=ml, random_state=s), clf_kw(_pwc),
        samplewise=True)
    # a classifier that depends on the order of its training rows: the addressings must hand it the same training sequence
    add("MonteCarloEER[order-sensitive-clf]", lambda s: P.MonteCarloEER(missing_label=ml, random_state=s), clf_kw(_recency))
    add("MonteCarloEER[log_loss]", lambda s: P.MonteCarloEER(method="log_loss", missing_label=ml, random_state=s), clf_kw(_pwc),
        samplewise=True)
    add("ValueOfInformationEER", lambda s: P.ValueOfInformationEER(missing_label=ml, random_state=s), clf_kw(_pwc),
        rows=False, samplewise=True)
    # normalised risk over the unlabeled samples only: the evaluation set is empty when the candidate is the last unlabeled
    # sample (seed R10G01)
    add("ValueOfInformationEER[normalize,unlabeled-only]",
        lambda s: P.ValueOfInformationEER(normalize=True, consider_labeled=False, missing_label=ml, random_state=s), clf_kw(_pwc),
        rows=False, samplewise=True)
    add("QueryByCommittee[KL]", lambda s: P.QueryByCommittee(missing_label=ml, random_state=s),
        lambda d, s: {"ensemble": _ensemble_list(C, s)}, samplewise=True, arbitrary_idx=True)
    add("QueryByCommittee[vote_entropy]", lambda s: P.QueryByCommittee(method="vote_entropy", missing_label=ml, random_state=s),
        lambda d, s: {"ensemble": _ensemble(C, s)}, samplewise=True, arbitrary_idx=True)
    add("Quire", lambda s: P.Quire(classes=C, missing_label=ml, random_state=s), lambda d, s: {}, rows=False, samplewise=True)
    add("FourDs", lambda s: P.FourDs(missing_label=ml, random_state=s),
        lambda d, s: {"clf": _mmc(C, s)}, rows=True, skeleton="B")
    add("CostEmbeddingAL", lambda s: P.CostEmbeddingAL(classes=C, missing_label=ml, random_state=s,
                                                        mds_params={"max_iter": 20, "n_init": 1}),
        lambda d, s: {}, samplewise=True)
    add("DiscriminativeAL", lambda s: P.DiscriminativeAL(missing_label=ml, random_state=s),
        lambda d, s: {"discriminator": _pwc([0, 1], s)}, rows=False, skeleton="B", samplewise=True)
    add("DiscriminativeAL[greedy]", lambda s: P.DiscriminativeAL(greedy_selection=True, missing_label=ml, random_state=s),
        lambda d, s: {"discriminator": _pwc([0, 1], s)}, rows=False, samplewise=True)
    add("BatchBALD", lambda s: P.BatchBALD(missing_label=ml, random_state=s, n_MC_samples=20),
        lambda d, s: {"ensemble": _ensemble_list(C, s)}, skeleton="B", samplewise=True)
    add("GreedyBALD", lambda s: P.GreedyBALD(missing_label=ml, random_state=s),
        lambda d, s: {"ensemble": _ensemble_list(C, s)}, samplewise=True, arbitrary_idx=True)
    add("Clue", lambda s: P.Clue(missing_label=ml, random_state=s, cluster_algo_dict=dict(CLUSTER)), clf_kw(_pwc),
        rows=False, skeleton="B")
    add("DropQuery", lambda s: P.DropQuery(missing_label=ml, random_state=s, cluster_algo_dict=dict(CLUSTER)), clf_kw(_pwc),
        rows=False, skeleton="B")
    add("CoreSet", lambda s: P.CoreSet(missing_label=ml, random_state=s), lambda d, s: {}, skeleton="B", samplewise=True)
    add("TypiClust", lambda s: P.TypiClust(missing_label=ml, random_state=s, cluster_algo_dict=dict(CLUSTER), k=3), lambda d, s: {},
        rows=False, skeleton="B")
    add("Badge", lambda s: P.Badge(missing_label=ml, random_state=s), clf_kw(_logreg), skeleton="B", selection="prop")
    add("ProbCover", lambda s: P.ProbCover(missing_label=ml, random_state=s, cluster_algo_dict=dict(CLUSTER), n_classes=len(C)), lambda d, s: {},
        rows=False, skeleton="B")
    add("ContrastiveAL", lambda s: P.ContrastiveAL(missing_label=ml, random_state=s, nearest_neighbors_dict={"n_neighbors": 2}),
        clf_kw(_pwc), samplewise=True)
    add("Falcun", lambda s: P.Falcun(missing_label=ml, random_state=s, gamma=1), clf_kw(_pwc), skeleton="B", selection="prop")
    # regression strategies
    add("ExpectedModelChangeMaximization", lambda s: P.ExpectedModelChangeMaximization(missing_label=ml, random_state=s),
        lambda d, s: {"reg": _linreg()}, kind="reg", samplewise=True)
    add("ExpectedModelOutputChange", lambda s: P.ExpectedModelOutputChange(missing_label=ml, random_state=s, integration_dict={"method": "assume_linear"}),
        lambda d, s: {"reg": _nic(s)}, kind="reg", samplewise=True)
    add("ExpectedModelVarianceReduction", lambda s: P.ExpectedModelVarianceReduction(missing_label=ml, random_state=s, integration_dict={"method": "assume_linear"}),
        lambda d, s: {"reg": _nic(s)}, kind="reg", samplewise=True)
    add("KLDivergenceMaximization", lambda s: P.KLDivergenceMaximization(
        missing_label=ml, random_state=s, integration_dict_target_val={"method": "assume_linear"},
        integration_dict_cross_entropy={"method": "assume_linear"}), lambda d, s: {"reg": _nic(s)}, kind="reg", samplewise=True)
    add("GreedySamplingX", lambda s: P.GreedySamplingX(missing_label=ml, random_state=s), lambda d, s: {}, kind="reg",
        skeleton="B", samplewise=True)
    add("GreedySamplingTarget[GSi]", lambda s: P.GreedySamplingTarget(missing_label=ml, random_state=s),
        lambda d, s: {"reg": _nic(s)}, kind="reg", skeleton="B", samplewise=True)
    add("GreedySamplingTarget[GSy]", lambda s: P.GreedySamplingTarget(method="GSy", missing_label=ml, random_state=s),
        lambda d, s: {"reg": _nic(s)}, kind="reg", skeleton="B", samplewise=True)
    for m in ("random", "diversity", "representativity"):
        add(f"RegressionTreeBasedAL[{m}]", lambda s, m=m: P.RegressionTreeBasedAL(method=m, missing_label=ml, random_state=s),
            lambda d, s: {"reg": _tree_reg(s)}, kind="reg", rows=True, skeleton="B")
    return S


def _linreg():
    from sklearn.linear_model import LinearRegression
    from skactiveml.regressor import SklearnRegressor

    return SklearnRegressor(LinearRegression())


def _mmc(classes, seed=0):
    from skactiveml.classifier import MixtureModelClassifier
    from sklearn.mixture import BayesianGaussianMixture

    return MixtureModelClassifier(
        mixture_model=BayesianGaussianMixture(n_components=2, random_state=0, max_iter=20),
        classes=classes, random_state=seed)


# ---------------------------------------------------------------------------------------------
# data sets from the C01 quantifier

def make_data(rng, n, kind="clf", flavour="random", n_labeled=None, classes=(0, 1, 2), d=2):
    """rng: numpy RandomState. Returns dict(X, y_true, y) with y containing NaN for unlabeled."""
    if flavour == "random":
        X = rng.randn(n, d)
    elif flavour == "grid":  # many exact ties / duplicated distances
        X = rng.randint(0, 3, size=(n, d)).astype(float)
    elif flavour == "duplicates":
        base = rng.randn(max(2, n // 3), d)
        X = base[rng.randint(0, len(base), size=n)]
    elif flavour == "constant_feature":
        X = rng.randn(n, d)
        X[:, 0] = 1.0
    elif flavour == "all_equal":
        X = np.ones((n, d))
    else:
        raise ValueError(flavour)
    if kind == "clf":
        y_true = rng.randint(0, len(classes), size=n).astype(float)
        y_true = np.asarray(classes, dtype=float)[y_true.astype(int)]
    else:
        y_true = np.round(rng.randn(n) * 2, 2)
    if n_labeled is None:
        n_labeled = rng.randint(0, n)
    y = np.full(n, np.nan)
    lab = rng.permutation(n)[:n_labeled]
    y[lab] = y_true[lab]
    return dict(X=X, y_true=y_true, y=y, flavour=flavour)
