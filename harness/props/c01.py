"""C01 — pool query returns a valid batch. Theorems: Props/C01.lean (+C02, C18). Correspondence:
every exported pool strategy x candidate modes x batch sizes x data flavours; Skeleton A strategies
are compared with the Lean model `poolQueryA` through the captured `simple_batch` call; every
implementation output is judged by the property oracle and by the proved-equivalent Lean decider."""
from . import _pool, _zoo_pool

LEAN_TARGETS = ["SkaModel.Props.C01", "SkaModel.Gen.Skeleton", "SkaModel.Props.C01seq", "SkaModel.Props.C01choice"]
LEVEL = "proof"
RULE = (
    "cases: real query() calls of every strategy configuration in harness/catalog.py (all classes exported by skactiveml.pool "
    "except the two wrappers, which C20 covers) x candidate mode (None / index subsets incl. labeled indices for sample-wise scorers / "
    "feature rows where supported) x batch sizes {1,2,3,|cand|-1,|cand|,|cand|+2} x data flavours (random, grid ties, duplicated points, "
    "constant feature, all-equal points, cold start) x seeds; non-trivial = at least two candidates; distinct = distinct "
    "(strategy, mode, batch size, seed, pool size)"
)
ASSUMPTIONS = [
    "the numeric utility functions of the strategies are parameters of the theorems (arbitrary candidate utilities)",
    "Skeleton-B strategies (own sequential loops) are judged on outputs by the Lean decider validBatchB (proved equivalent to ValidBatch); their loops are not yet modelled",
    "strategies with unseeded clustering are run with cluster_algo_dict={'random_state':0} (that finding belongs to C06)",
]
TRUSTED = ["spy on simple_batch in the skactiveml.pool module namespaces (captures utilities, batch size, method, noise/choice draws)"]


# classes whose `query` tail is the modelled scatter + simple_batch skeleton on the unchanged tree
EXPECTED_SKELETON_A = {
    "ContrastiveAL", "CostEmbeddingAL", "EpistemicUncertaintySampling", "ExpectedErrorReduction",
    "ExpectedModelChangeMaximization", "ExpectedModelOutputChange", "ExpectedModelVarianceReduction",
    "KLDivergenceMaximization", "ParallelUtilityEstimationWrapper", "ProbabilisticAL", "QueryByCommittee",
    "RandomSampling", "UncertaintySampling",
}


def generate(ctx):
    """Translator tie: regenerate Gen/Skeleton.lean from the current source (checked by `lake build`)."""
    from ..translate import skeleton

    facts, broken = skeleton.generate(EXPECTED_SKELETON_A)
    ctx.notes["generated_obligations"] = len(facts)
    ctx.notes["generated_discharged"] = len(facts)  # each `by decide` is discharged iff the build succeeds
    ctx.notes["skeleton_well_formed_classes"] = sorted(c for c, f in facts.items() if f["wellFormed"])
    for cls in broken:
        ctx.broken.append(f"translator: the source of {cls}.query no longer has the scatter + simple_batch skeleton "
                          f"(obligation skel_{cls}_wf flipped): {facts.get(cls)}")


def correspond(ctx):
    _pool.explore(ctx, "C01", per_spec=10 if not ctx.thorough else 60, sizes=(4, 11) if not ctx.thorough else (4, 24))
    # strategies with their own selection loops at the end of a run on a larger pool (quotas per cluster / leaf redistributed)
    _pool.explore(ctx, "C01", per_spec=30 if not ctx.thorough else 150, sizes=(12, 30), endgame=True, skeleton="B")
    # the first cycles on a pool of repeated measurements (cold start, duplicates, small batches)
    _pool.explore(ctx, "C01", per_spec=5 if not ctx.thorough else 30, sizes=(6, 14), colddup=True)
    _pool.explore(ctx, "C01", per_spec=40 if not ctx.thorough else 200, sizes=(6, 14), colddup=True, skeleton="B")
    # late in a run on a large dense pool (about two hundred labeled samples on top of each other)
    _pool.explore(ctx, "C01", per_spec=1 if not ctx.thorough else 4, sizes=(185, 230), dense=True)
    _zoo_pool.run(ctx, "C01", [ctx.seed] if not ctx.thorough else [ctx.seed + 31 * k for k in range(4)], per_case_modes=None if ctx.thorough else 2)


def search(ctx):
    _pool.explore(ctx, "C01", per_spec=40)
    _zoo_pool.run(ctx, "C01", [ctx.seed + 7 * k for k in range(3)])


def replay(payload):
    if "zoo" in payload.get("replay", {}):
        return _zoo_pool.replay("C01", payload["replay"])
    return _pool.replay_case("C01", payload)
