"""C11 — classifier outputs are valid probabilities and consistent decisions.

Correspondence of the classifier output logic (frequency normalisation, K·V frequencies, sklearn
wrapper re-mapping / fallback / three predict branches, ensemble voting, cost-sensitive decision)
with the Lean model `SkaModel/Core/Classifier.lean`, plus the property's own oracle evaluated on the
real outputs of all six classifiers."""
import itertools
import warnings

import numpy as np

from .. import vlib
from ..vlib import f2bits
from .c18 import SpyRS

LEAN_TARGETS = ["SkaModel.Props.C11"]
LEVEL = "proof"
RULE = (
    "cases: (fit, predict_freq / predict_proba / predict) runs of ParzenWindowClassifier (precomputed / callable dyadic "
    "kernels, n_neighbors), MixtureModelClassifier (table-driven and real mixtures), SklearnClassifier (spy estimators "
    "returning chosen matrices over a subset of the classes / NaN / raising, and GaussianNB, LogisticRegression, "
    "DecisionTree, SGD with and without partial_fit), SlidingWindowClassifier, AnnotatorEnsembleClassifier (hard/soft), "
    "AnnotatorLogisticRegression and a bare ClassFrequencyEstimator, on training sets with zero labels, one class, "
    "declared-but-unobserved classes, weights, priors and cost matrices; estimator outputs, kernels, vote vectors and the "
    "tie-breaking noise are captured from the real run and fed to the model. non-trivial = at least 2 classes and at "
    "least one labeled sample or a non-default prior / cost matrix; distinct = distinct (classifier kind, config) tuples"
)
ASSUMPTIONS = [
    "kernels are non-negative (rbf / precomputed / callable tables); linear, polynomial, sigmoid kernels are outside the domain",
    "sample weights are non-negative",
    "a wrapped scikit-learn estimator returns probability rows over the classes it has seen (checked per case; when it does "
    "not, e.g. GaussianNB with a degenerate variance, only shape / membership are demanded of the wrapper)",
    "row sums are compared with 1 up to 1e-12; minimal expected cost up to 1e-12",
]
TRUSTED = [
    "BLAS matrix products are exact on the dyadic inputs used for bit-exact comparison",
    "np.sum over a row of fewer than 8 entries adds left to right (measured)",
]

TOL = 1e-12
NEG0 = str(1 << 63)


# ---------------------------------------------------------------------------------------------
# small helpers

def bits(x):
    return f2bits(float(x) + 0.0)


def mat_bits(M):
    M = np.asarray(M, dtype=float)
    if M.ndim == 1:
        M = M.reshape(1, -1)
    return " ; ".join(" ".join(bits(x) for x in row) for row in M)


def flat_bits(M):
    return " ".join(f2bits(x) for x in np.asarray(M, dtype=float).ravel())


def canon(s):
    return ["0" if t == NEG0 else t for t in s.split()]


def is_dyadic(M, bits_=24):
    M = np.asarray(M, dtype=float)
    if not np.all(np.isfinite(M)):
        return False
    s = M * (1 << bits_)
    return bool(np.all(s == np.round(s)) and np.all(np.abs(M) < 1 << 16))


def dy(rng, lo=0, hi=8, den=4):
    return rng.randint(lo, hi) / den


def prior_tok(prior):
    if np.isscalar(prior):
        return f"s {f2bits(prior)}"
    return "a " + " ".join([str(len(prior))] + [f2bits(x) for x in prior])


class Labels:
    """A label universe: python class values, the missing label, and builders."""

    KINDS = ("int-nan", "int-neg1", "str-none", "spread-nan")

    def __init__(self, kind, k):
        self.kind, self.k = kind, k
        if kind == "int-nan":
            self.values, self.missing = list(range(k)), np.nan
        elif kind == "spread-nan":
            self.values, self.missing = [10 * (i + 1) - 25 for i in range(k)], np.nan  # -15, -5, 5, ...
        elif kind == "int-neg1":
            self.values, self.missing = list(range(k)), -1
        else:
            self.values, self.missing = [f"c{chr(97 + i)}" for i in range(k)], None

    def y(self, idx):
        """idx: list of class index or None; shape 1-d or 2-d (list of lists)."""
        def one(i):
            return self.missing if i is None else self.values[i]

        if len(idx) and isinstance(idx[0], (list, tuple)):
            data = [[one(i) for i in row] for row in idx]
        else:
            data = [one(i) for i in idx]
        if self.kind == "str-none":
            return np.array(data, dtype=object)
        if self.kind == "int-neg1":
            return np.array(data, dtype=int).reshape(np.shape(idx)) if len(idx) else np.array([], dtype=int)
        return np.array(data, dtype=float)

    def classes(self, order=None):
        vals = self.values if order is None else [self.values[i] for i in order]
        return list(vals)

    def to_int(self, labels, classes_):
        """labels -> ints preserving the order of classes_ (ints stay themselves)."""
        if self.kind == "str-none":
            lut = {c: i for i, c in enumerate(list(classes_))}
            return [lut.get(l, -999) for l in labels]       # -999: not a class label at all (reported by the oracle)
        out = []
        for l in labels:
            try:
                out.append(int(l))
            except (TypeError, ValueError):
                out.append(-999)
        return out


def gen_cost(rng, k, p=0.5):
    if rng.random() >= p:
        return None
    C = [[0.0 if i == j else float(rng.choice([0, 1, 1, 2, 3, 5])) / rng.choice([1, 1, 2]) for j in range(k)] for i in range(k)]
    if rng.random() < 0.15:
        C[rng.randrange(k)][rng.randrange(k)] = 2.0  # possibly a non-zero diagonal
    if all(all(v == 0 for v in r) for r in C) and k > 1:
        C[0][1] = 1.0
    return C


def gen_label_idx(rng, n, k, mode):
    if mode == "none":
        return [None] * n
    if mode == "one":
        c = rng.randrange(k)
        return [c if rng.random() < 0.7 else None for _ in range(n)]
    if mode == "sub":  # at least one declared class never observed
        seen = rng.sample(range(k), max(1, k - 1 - (rng.random() < 0.3)))
        return [rng.choice(seen) if rng.random() < 0.75 else None for _ in range(n)]
    return [rng.randrange(k) if rng.random() < 0.75 else None for _ in range(n)]


def gen_weights(rng, n, p=0.5):
    if rng.random() >= p:
        return None
    return [dy(rng, 0, 9, 4) for _ in range(n)]


# ---------------------------------------------------------------------------------------------
# property oracle on real outputs

def viol(ctx, cls, method, kind, what, cfg, pre=None):
    key = f"C11/{cls}.{method}/{kind}" + (f"/{pre}" if pre else "")
    ctx.violate(key, what, dict(cfg, _cls=cls))


def oracle_proba(ctx, clsname, P, n, k, cfg, need_sum=True, pre=None):
    """finite, shape (n, k), rows >= 0 summing to 1."""
    P = np.asarray(P)
    if P.shape != (n, k):
        viol(ctx, clsname, "predict_proba", "shape", f"predict_proba shape {P.shape}, expected {(n, k)}", cfg, pre)
        return False
    if not np.all(np.isfinite(P.astype(float))):
        viol(ctx, clsname, "predict_proba", "non-finite", f"predict_proba contains non-finite entries: {P.tolist()}", cfg, pre)
        return False
    if np.any(P < 0):
        viol(ctx, clsname, "predict_proba", "negative", f"predict_proba has negative entries: {P.tolist()}", cfg, pre)
        return False
    if need_sum and np.any(np.abs(P.sum(axis=1) - 1) > TOL):
        viol(ctx, clsname, "predict_proba", "row-sum", f"rows do not sum to one: sums {P.sum(axis=1).tolist()}", cfg, pre)
        return False
    return True


def oracle_predict(ctx, clsname, y_pred, P, C, classes_, cfg, pre=None):
    """members of classes_ that minimise the expected cost P @ C."""
    classes_ = list(classes_)
    y_pred = list(y_pred)
    if len(y_pred) != len(P):
        viol(ctx, clsname, "predict", "shape", f"predict returned {len(y_pred)} labels for {len(P)} samples", cfg, pre)
        return
    pos = []
    for y in y_pred:
        hits = [i for i, c in enumerate(classes_) if c == y]
        if not hits:
            viol(ctx, clsname, "predict", "not-a-class", f"predict returned {y!r}, classes_ = {classes_}", cfg, pre)
            return
        pos.append(hits[0])
    costs = np.dot(np.asarray(P, dtype=float), np.asarray(C, dtype=float))
    got = costs[np.arange(len(pos)), pos]
    best = costs.min(axis=1)
    if np.any(got > best + TOL):
        i = int(np.argmax(got - best))
        viol(ctx, clsname, "predict", "not-min-cost",
             f"sample {i}: predicted {y_pred[i]!r} with expected cost {got[i]} but the minimum is {best[i]} (costs {costs[i].tolist()})",
             cfg, pre)
    elif np.any(got != best):
        ctx.count("near_tie_within_tol")


def oracle_uniform(ctx, clsname, P, k, cfg):
    if np.any(np.abs(np.asarray(P, dtype=float) - 1.0 / k) > TOL):
        viol(ctx, clsname, "predict_proba", "not-uniform-without-labels",
             f"declared classes and no labels but predict_proba = {np.asarray(P).tolist()}", cfg)


def oracle_freq(ctx, clsname, F, n, k, cfg):
    F = np.asarray(F)
    if F.shape != (n, k):
        viol(ctx, clsname, "predict_freq", "shape", f"predict_freq shape {F.shape}, expected {(n, k)}", cfg)
    elif np.any(~(F >= 0)):
        viol(ctx, clsname, "predict_freq", "negative", f"predict_freq has negative / NaN entries: {F.tolist()}", cfg)


# ---------------------------------------------------------------------------------------------
# capturing the decision step

class Capture:
    """Patches `rand_argmin` in the two modules whose `predict` uses it and records (costs, result)."""

    def __init__(self):
        self.calls = []

    def __enter__(self):
        import skactiveml.base as B
        import skactiveml.classifier._wrapper as W

        self.mods = [B, W]
        self.orig = [m.rand_argmin for m in self.mods]

        def spy(a, random_state=None, **kw):
            r = self.orig[0](a, random_state=random_state, **kw)
            self.calls.append((np.array(a, dtype=float).copy(), np.array(r).copy()))
            return r

        for m in self.mods:
            m.rand_argmin = spy
        return self

    def __exit__(self, *a):
        for m, o in zip(self.mods, self.orig):
            m.rand_argmin = o


def run_predict(ctx, clf, Xq, seed, owner=None):
    """predict with a spying random state; returns (y_pred, costs or None, noise or None, choice or None, P_used or None).
    `P_used` is what `predict_proba` returned *inside* this predict call (member classifiers may break ties randomly, so
    a second call need not return the same matrix)."""
    owner = clf if owner is None else owner
    rs = SpyRS(seed)
    owner.random_state_ = rs
    used = []
    orig_pp = owner.predict_proba

    def pp(X, **kw):
        r = orig_pp(X, **kw)
        used.append(np.array(r, dtype=float).copy())
        return r

    owner.predict_proba = pp
    try:
        with Capture() as cap:
            y_pred = clf.predict(Xq)
    finally:
        del owner.predict_proba
    noise = [x[1] for x in rs.log if x[0] == "random"]
    choice = [x[1] for x in rs.log if x[0] == "choice"]
    costs = cap.calls[-1][0] if cap.calls else None
    return y_pred, costs, (noise[-1] if noise else None), (choice[0] if choice else None), (used[-1] if used else None)


def decision_lines(ctx, lines, expect, lab, clf_classes, y_pred, costs, noise, P, C, cfg, what):
    """Model lines for one predict call that went through rand_argmin."""
    k = len(clf_classes)
    cls_int = lab.to_int(clf_classes, clf_classes)
    pred_int = " ".join(str(x) for x in lab.to_int(list(y_pred), clf_classes))
    n = len(y_pred)
    lines.append(f"decide {k} {' '.join(map(str, cls_int))} {n} {flat_bits(costs)} {flat_bits(noise)}")
    expect.append((pred_int, dict(cfg, what=what + ":decide")))
    if is_dyadic(P) and is_dyadic(C, 8):
        lines.append(f"predict {k} {' '.join(map(str, cls_int))} {n} {flat_bits(P)} {flat_bits(C)} {flat_bits(noise)}")
        expect.append((mat_bits(costs) + " | " + pred_int, dict(cfg, what=what + ":predict")))
        ctx.count("predict_full_model_exact")
    if np.all(noise > 0):
        ctx.count("noise_all_positive")
    else:
        ctx.count("zero_noise_drawn")


def true_cost(cfg, lab, classes_):
    """The user's cost matrix looked up BY LABEL: entry (a, b) is the cost of predicting classes_[b] for true class
    classes_[a], read from cfg["cost"] whose rows / columns follow the declared order of `classes` (never via cost_matrix_)."""
    k = len(classes_)
    if cfg.get("cost") is None:
        return 1.0 - np.eye(k)
    decl = lab.classes(cfg["classes_order"])
    pos = [decl.index(c) for c in list(classes_)]
    U = np.array(cfg["cost"], dtype=float)
    return np.array([[U[pos[a], pos[b]] for b in range(k)] for a in range(k)], dtype=float)


def cost_lines(ctx, lines, expect, lab, cfg, owner):
    """correspondence of `cost_matrix_` with the model's permutation of the declared matrix."""
    if cfg.get("cost") is None or cfg.get("classes_order") is None:
        return
    decl = lab.classes(cfg["classes_order"])
    k = len(decl)
    decl_int = lab.to_int(decl, sorted(decl))
    lines.append(f"costperm {k} {' '.join(map(str, decl_int))} {flat_bits(np.array(cfg['cost'], dtype=float))}")
    expect.append((mat_bits(owner.cost_matrix_), dict(cfg, what="costperm")))
    if cfg["classes_order"] != sorted(cfg["classes_order"]):
        ctx.count("cost_matrix_with_unsorted_declared_classes")


def materialize(cfg):
    lab = Labels(cfg["label_kind"], cfg["k"])
    y = lab.y(cfg["y_idx"])
    w = None if cfg.get("w") is None else np.array(cfg["w"], dtype=float)
    classes = None if cfg.get("classes_order") is None else lab.classes(cfg["classes_order"])
    cost = None if cfg.get("cost") is None else np.array(cfg["cost"], dtype=float)
    return lab, y, w, classes, cost


def observed_k(cfg):
    if cfg.get("classes_order") is not None:
        return cfg["k"]
    flat = np.ravel(np.array(cfg["y_idx"], dtype=object))
    return len({i for i in flat if i is not None})


def has_labels(cfg):
    flat = np.ravel(np.array(cfg["y_idx"], dtype=object))
    return any(i is not None for i in flat)


def fit_error_ok(cfg, e):
    """Errors that belong to the documented contract (inadmissible input), not to the property."""
    s = str(e)
    return "No class label is known" in s or "'cost_matrix' can be only set" in s


# ---------------------------------------------------------------------------------------------
# A. bare ClassFrequencyEstimator: normalisation + decision

def make_freq_estimator():
    from skactiveml.base import ClassFrequencyEstimator

    class TableFreq(ClassFrequencyEstimator):
        def __init__(self, table=None, class_prior=0, classes=None, missing_label=np.nan, cost_matrix=None, random_state=None):
            super().__init__(class_prior=class_prior, classes=classes, missing_label=missing_label,
                             cost_matrix=cost_matrix, random_state=random_state)
            self.table = table

        def fit(self, X, y, sample_weight=None):
            self._validate_data(X, y, sample_weight)
            return self

        def predict_freq(self, X):
            return np.array(self.table, dtype=float)[: len(X)].copy()

    return TableFreq


def used_prefix(ctx, tag, clf, Xtr, lab, cfg, Xq, cols=None):
    """A USED object: before the fit of interest the same classifier object is fitted on the same rows with every row
    labelled (labels cycling through the declared classes) and asked for probabilities.  `fit` starts from scratch
    (C13), so every clause checked afterwards -- the uniform distribution for a training set without labels included --
    must come out as for a fresh object."""
    ntr = len(Xtr)
    if not ntr or cfg["k"] < 2 or cfg["seed"] % 2:
        return
    if cols is None:
        y_prior = lab.y([i % cfg["k"] for i in range(ntr)])
    else:
        y_prior = lab.y([(i + j) % cfg["k"] for i in range(ntr) for j in range(cols)]).reshape(ntr, cols)
    try:
        with np.errstate(all="ignore"), warnings.catch_warnings():
            warnings.simplefilter("ignore")
            clf.fit(Xtr, y_prior)
            clf.predict_proba(Xq)
        ctx.count(tag + "_used_object_prefix")
    except Exception:  # noqa: BLE001  (an inadmissible earlier training set: no history then)
        ctx.count(tag + "_used_object_prefix_raised")


def case_freq(ctx, lines, expect, cfg):
    TableFreq = make_freq_estimator()
    lab, y, w, classes, cost = materialize(cfg)
    k = cfg["k"]
    F = np.array(cfg["F"], dtype=float)
    n = len(F)
    prior = cfg["prior"]
    clf = TableFreq(table=F, class_prior=prior if np.isscalar(prior) else list(prior), classes=classes,
                    missing_label=lab.missing, cost_matrix=cost, random_state=0)
    X = np.zeros((len(y), 1))
    ptok = prior_tok(prior)
    line = f"normfreq {k} {n} {flat_bits(F)} {ptok}"
    try:
        clf.fit(X, y)
    except ValueError as e:
        if "class_prior" in str(e):
            lines.append(line)
            expect.append(("err prior", dict(cfg, what="normfreq")))
            ctx.case(("freq", repr(cfg)), False, sample=dict(kind="freq", prior=prior, result="err prior"))
            ctx.count("freq_prior_rejected")
            return
        raise
    Xq = np.zeros((n, 1))
    P = clf.predict_proba(Xq)
    lines.append(line)
    expect.append(("ok " + mat_bits(P), dict(cfg, what="normfreq")))
    nontriv = k >= 2 and (np.any(F > 0) or np.any(np.asarray(prior) > 0))
    ctx.case(("freq", repr(cfg)), nontriv, sample=dict(kind="ClassFrequencyEstimator", F=F, prior=prior, P=P))
    ctx.count("freq_rows_zero", int(np.sum((F + clf.class_prior_).sum(axis=1) == 0)))
    ctx.count("kind_freq")
    oracle_proba(ctx, "ClassFrequencyEstimator", P, n, k, cfg)
    try:
        y_pred, costs, noise, _, Pu = run_predict(ctx, clf, Xq, cfg["seed"])
    except Exception as ex:
        viol(ctx, type(clf).__name__ if type(clf).__name__ != "TableFreq" else "ClassFrequencyEstimator", "predict", "raises",
             f"predict raised {type(ex).__name__}: {ex}", cfg)
        return
    P = P if Pu is None else Pu
    Ct = true_cost(cfg, lab, clf.classes_)
    cost_lines(ctx, lines, expect, lab, cfg, clf)
    oracle_predict(ctx, "ClassFrequencyEstimator", y_pred, P, Ct, clf.classes_, cfg)
    decision_lines(ctx, lines, expect, lab, clf.classes_, y_pred, costs, noise, P, Ct, cfg, "freq")


def gen_freq(rng):
    k = rng.randint(1, 5)
    n = rng.randint(1, 4)
    kindF = rng.random()
    F = []
    for _ in range(n):
        r = rng.random()
        if r < 0.25:
            F.append([0.0] * k)
        elif kindF < 0.6:
            F.append([dy(rng, 0, 9, 4) for _ in range(k)])
        else:
            F.append([rng.random() * rng.choice([1e-3, 1.0, 7.0]) if rng.random() < 0.8 else 0.0 for _ in range(k)])
    r = rng.random()
    if r < 0.45:
        prior = 0
    elif r < 0.6:
        prior = rng.choice([0.5, 1, 2.0, 0.1])
    elif r < 0.9:
        prior = [rng.choice([0.0, 0.0, 0.5, 1.0, 0.3]) for _ in range(k)]
    elif r < 0.95:
        prior = -0.5
    else:
        prior = [1.0] * (k - 1) + [-1.0]
    label_kind = rng.choice(Labels.KINDS)
    order = list(range(k))
    rng.shuffle(order)
    return dict(kind="freq", k=k, label_kind=label_kind, y_idx=gen_label_idx(rng, rng.randint(0, 3), k, "mix"),
                classes_order=order, cost=gen_cost(rng, k), F=F, prior=prior, seed=rng.randrange(2**31 - 1))


# ---------------------------------------------------------------------------------------------
# B. ParzenWindowClassifier

class _ArgpartitionSpy:
    def __init__(self):
        self.out = []

    def __enter__(self):
        self.orig = np.argpartition

        def spy(*a, **k):
            r = self.orig(*a, **k)
            self.out.append(np.array(r).copy())
            return r

        np.argpartition = spy
        return self

    def __exit__(self, *a):
        np.argpartition = self.orig


def case_pwc(ctx, lines, expect, cfg):
    from skactiveml.classifier import ParzenWindowClassifier

    lab, y, w, classes, cost = materialize(cfg)
    k_decl = cfg["k"]
    K = np.array(cfg["K"], dtype=float)          # (n_query, n_train)
    n, m = K.shape if K.ndim == 2 else (len(K), 0)
    prior = cfg["prior"]
    mode = cfg["metric_mode"]
    Xtr = np.arange(len(y), dtype=float).reshape(-1, 1)
    if mode == "precomputed":
        metric, Xq = "precomputed", K
    else:
        table = K

        def metric(a, b, table=table):
            return float(table[int(a[0]) - 1000, int(b[0])])

        Xq = (1000 + np.arange(n, dtype=float)).reshape(-1, 1)
    clf = ParzenWindowClassifier(n_neighbors=cfg.get("n_neighbors"), metric=metric, classes=classes,
                                 missing_label=lab.missing, cost_matrix=cost,
                                 class_prior=prior if np.isscalar(prior) else list(prior), random_state=0)
    used_prefix(ctx, "pwc", clf, Xtr, lab, cfg, Xq)
    try:
        clf.fit(Xtr, y, sample_weight=w)
    except Exception as e:
        if fit_error_ok(cfg, e):
            ctx.count("inadmissible_fit_rejected")
            return
        viol(ctx, "ParzenWindowClassifier", "fit", "raises", f"fit raised {type(e).__name__}: {e}", cfg)
        return
    k = len(clf.classes_)
    with _ArgpartitionSpy() as aps:
        F = clf.predict_freq(Xq)
    P = clf.predict_proba(Xq)
    ctx.count("kind_pwc_" + mode + ("_nn" if aps.out else ""))
    V = np.zeros((0, k)) if np.isscalar(clf.V_) else np.asarray(clf.V_, dtype=float)
    ptok = prior_tok(prior)
    if len(y) == 0:
        ctx.count("pwc_empty_training_set")
    elif aps.out:
        nn = cfg["n_neighbors"]
        idx = aps.out[0][:, -nn:]
        lines.append(f"pwcproba_nn {k} {n} {m} {flat_bits(K)} {flat_bits(V)} {nn} {' '.join(str(int(i)) for i in idx.ravel())} {ptok}")
        expect.append(("ok " + mat_bits(F) + " | " + mat_bits(P), dict(cfg, what="pwcproba_nn")))
    else:
        lines.append(f"pwcproba {k} {n} {m} {flat_bits(K)} {flat_bits(V)} {ptok}")
        expect.append(("ok " + mat_bits(F) + " | " + mat_bits(P), dict(cfg, what="pwcproba")))
    nontriv = k >= 2 and (has_labels(cfg) or np.any(np.asarray(prior) > 0) or cost is not None)
    ctx.case(("pwc", repr(cfg)), nontriv, sample=dict(kind="ParzenWindowClassifier", y=y, w=w, K=K, prior=prior, P=P))
    oracle_freq(ctx, "ParzenWindowClassifier", F, n, k, cfg)
    ok = oracle_proba(ctx, "ParzenWindowClassifier", P, n, k, cfg)
    if not has_labels(cfg) and np.all(np.asarray(prior) == 0) and ok:
        oracle_uniform(ctx, "ParzenWindowClassifier", P, k, cfg)
        ctx.count("no_labels_uniform_checked")
    try:
        y_pred, costs, noise, _, Pu = run_predict(ctx, clf, Xq, cfg["seed"])
    except Exception as ex:
        viol(ctx, type(clf).__name__ if type(clf).__name__ != "TableFreq" else "ClassFrequencyEstimator", "predict", "raises",
             f"predict raised {type(ex).__name__}: {ex}", cfg)
        return
    P = P if Pu is None else Pu
    Ct = true_cost(cfg, lab, clf.classes_)
    cost_lines(ctx, lines, expect, lab, cfg, clf)
    if ok:
        oracle_predict(ctx, "ParzenWindowClassifier", y_pred, P, Ct, clf.classes_, cfg)
    decision_lines(ctx, lines, expect, lab, clf.classes_, y_pred, costs, noise, P, Ct, cfg, "pwc")


def gen_common(rng, kmax=4, nmax=6, allow_none_classes=True, two_d=None):
    k = rng.randint(1, kmax)
    ntr = rng.choice([0, 1, 2, 3, 4, 5, nmax])
    mode = rng.choice(["none", "one", "sub", "mix", "mix", "mix"])
    y_idx = gen_label_idx(rng, ntr, k, mode)
    if two_d:
        y_idx = [[(i if rng.random() < 0.8 else None) if i is not None else (rng.randrange(k) if rng.random() < 0.3 else None)
                  for _ in range(two_d)] for i in y_idx]
    declared = True
    if allow_none_classes and rng.random() < 0.25 and any(i is not None for i in np.ravel(np.array(y_idx, dtype=object))):
        declared = False
    order = None
    if declared:
        order = list(range(k))
        rng.shuffle(order)
    cost = gen_cost(rng, k) if declared else None
    if two_d:
        w = None if rng.random() < 0.5 else [[dy(rng, 0, 9, 4) for _ in range(two_d)] for _ in range(ntr)]
    else:
        w = gen_weights(rng, ntr)
    return dict(k=k, label_kind=rng.choice(Labels.KINDS), y_idx=y_idx, classes_order=order, cost=cost, w=w,
                seed=rng.randrange(2**31 - 1))


def gen_prior(rng, k, declared):
    r = rng.random()
    if r < 0.55:
        return 0.0
    if r < 0.75 or not declared:
        return rng.choice([0.5, 1.0, 2.0])
    return [rng.choice([0.0, 0.5, 1.0]) for _ in range(k)]


def gen_pwc(rng):
    cfg = gen_common(rng)
    ntr = len(cfg["y_idx"])
    n = rng.randint(1, 3)
    cfg["kind"] = "pwc"
    cfg["K"] = [[rng.choice([0, 0, 0.25, 0.5, 1, 1, 2]) for _ in range(ntr)] for _ in range(n)]
    for row in cfg["K"]:
        # a query point far from every training sample: kernel values tiny but not zero (an RBF kernel at distance 6..27):
        # the row's frequency mass is positive and far below machine epsilon
        if rng.random() < 0.25:
            e = rng.choice([-60, -200, -1000])
            for j in range(ntr):
                row[j] = rng.choice([0.0, 2.0 ** e, 2.0 ** (e - 1), 2.0 ** (e + 2)])
    if ntr == 0:
        cfg["K"] = [[] for _ in range(n)]
    kk = observed_k(cfg)
    cfg["prior"] = gen_prior(rng, kk, cfg["classes_order"] is not None)
    cfg["metric_mode"] = rng.choice(["precomputed", "callable"]) if ntr > 0 else "callable"
    cfg["n_neighbors"] = rng.choice([None, None, 1, 2, 3, 8])
    return cfg


# ---------------------------------------------------------------------------------------------
# C. MixtureModelClassifier

def make_table_gm():
    from sklearn.mixture import GaussianMixture

    class TableGM(GaussianMixture):
        """A mixture model whose responsibilities are read from a table (row id = X[:, 0])."""

        def __init__(self, n_components=1, table=None):
            super().__init__(n_components=n_components)
            self.table = table

        def fit(self, X, y=None):
            self.converged_ = True
            self.weights_ = np.ones(self.n_components) / self.n_components
            self.means_ = np.zeros((self.n_components, 1))
            self.precisions_cholesky_ = np.ones((self.n_components, 1, 1))
            return self

        def predict_proba(self, X):
            X = np.asarray(X)
            return np.array([self.table[int(x[0])] for x in X], dtype=float).reshape(len(X), self.n_components)

    return TableGM


def case_mmc(ctx, lines, expect, cfg):
    from skactiveml.classifier import MixtureModelClassifier
    import skactiveml.classifier._mixture_model_classifier as M

    lab, y, w, classes, cost = materialize(cfg)
    prior = cfg["prior"]
    ntr = len(y)
    if cfg["mixture"] == "table":
        TableGM = make_table_gm()
        R, S = np.array(cfg["R"], dtype=float), np.array(cfg["S"], dtype=float)
        mcomp = cfg["m"]
        table = {i: R[i] for i in range(ntr)}
        table.update({1000 + i: S[i] for i in range(len(S))})
        mm = TableGM(n_components=mcomp, table=table)
        Xtr = np.arange(ntr, dtype=float).reshape(-1, 1)
        Xq = (1000 + np.arange(len(S), dtype=float)).reshape(-1, 1)
    else:
        from sklearn.mixture import BayesianGaussianMixture, GaussianMixture

        Xtr = np.array(cfg["Xtr"], dtype=float).reshape(ntr, -1) if ntr else np.zeros((0, 2))
        Xq = np.array(cfg["Xq"], dtype=float)
        mm = None if cfg["mixture"] == "default" else (
            GaussianMixture(n_components=cfg["m"], random_state=0) if cfg["mixture"] == "gm"
            else BayesianGaussianMixture(n_components=cfg["m"], random_state=0))
    clf = MixtureModelClassifier(mixture_model=mm, weight_mode=cfg["weight_mode"], classes=classes, missing_label=lab.missing,
                                 cost_matrix=cost, class_prior=prior if np.isscalar(prior) else list(prior), random_state=0)
    votes = []
    orig = M.compute_vote_vectors

    def spy(*a, **kw):
        r = orig(*a, **kw)
        votes.append(np.array(r, dtype=float).copy())
        return r

    M.compute_vote_vectors = spy
    try:
        try:
            clf.fit(Xtr, y, sample_weight=w)
        except Exception as e:
            if fit_error_ok(cfg, e) or cfg["mixture"] != "table":
                ctx.count("inadmissible_fit_rejected")   # e.g. fewer samples than mixture components
                return
            viol(ctx, "MixtureModelClassifier", "fit", "raises", f"fit raised {type(e).__name__}: {e}", cfg)
            return
    finally:
        M.compute_vote_vectors = orig
    k = len(clf.classes_)
    n = len(Xq)
    F = clf.predict_freq(Xq)
    P = clf.predict_proba(Xq)
    ctx.count("kind_mmc_" + cfg["mixture"] + "_" + cfg["weight_mode"])
    if cfg["mixture"] == "table" and ntr > 0 and votes:
        lines.append(f"mmcproba {k} {mcomp} {ntr} {flat_bits(R)} {flat_bits(votes[0])} {n} {flat_bits(S)} {prior_tok(prior)}")
        expect.append(("ok " + mat_bits(F) + " | " + mat_bits(P), dict(cfg, what="mmcproba")))
    nontriv = k >= 2 and (has_labels(cfg) or np.any(np.asarray(prior) > 0) or cost is not None)
    ctx.case(("mmc", repr(cfg)), nontriv, sample=dict(kind="MixtureModelClassifier", y=y, w=w, prior=prior, P=P))
    oracle_freq(ctx, "MixtureModelClassifier", F, n, k, cfg)
    ok = oracle_proba(ctx, "MixtureModelClassifier", P, n, k, cfg)
    if not has_labels(cfg) and np.all(np.asarray(prior) == 0) and ok:
        oracle_uniform(ctx, "MixtureModelClassifier", P, k, cfg)
        ctx.count("no_labels_uniform_checked")
    try:
        y_pred, costs, noise, _, Pu = run_predict(ctx, clf, Xq, cfg["seed"])
    except Exception as ex:
        viol(ctx, type(clf).__name__ if type(clf).__name__ != "TableFreq" else "ClassFrequencyEstimator", "predict", "raises",
             f"predict raised {type(ex).__name__}: {ex}", cfg)
        return
    P = P if Pu is None else Pu
    Ct = true_cost(cfg, lab, clf.classes_)
    cost_lines(ctx, lines, expect, lab, cfg, clf)
    if ok:
        oracle_predict(ctx, "MixtureModelClassifier", y_pred, P, Ct, clf.classes_, cfg)
    decision_lines(ctx, lines, expect, lab, clf.classes_, y_pred, costs, noise, P, Ct, cfg, "mmc")


def gen_mmc(rng, real=False):
    cfg = gen_common(rng)
    ntr = len(cfg["y_idx"])
    cfg["kind"] = "mmc"
    cfg["weight_mode"] = rng.choice(["responsibilities", "similarities"]) if real else "responsibilities"
    kk = observed_k(cfg)
    cfg["prior"] = gen_prior(rng, kk, cfg["classes_order"] is not None)
    nq = rng.randint(1, 3)
    if not real:
        m = rng.randint(1, 3)
        simplex_rows = [[1.0], [0.5, 0.5], [0.25, 0.75], [1.0, 0.0], [0.5, 0.25, 0.25], [0.0, 0.0, 1.0], [0.125, 0.375, 0.5]]

        def row():
            r = [x for x in simplex_rows if len(x) == m]
            r = list(rng.choice(r))
            rng.shuffle(r)
            return r

        cfg.update(mixture="table", m=m, R=[row() for _ in range(ntr)], S=[row() for _ in range(nq)])
    else:
        cfg.update(mixture=rng.choice(["gm", "bgm", "default"]), m=rng.randint(1, 2),
                   Xtr=[[float(rng.randint(-3, 3)), float(rng.randint(-3, 3))] for _ in range(ntr)],
                   Xq=[[float(rng.randint(-3, 3)), float(rng.randint(-3, 3))] for _ in range(nq)])
        if ntr >= 4 and rng.random() < 0.4:
            # repeated measurements: every mixture component collapses onto one point recorded several times (minimal
            # covariance, huge precision); the points themselves are queried (seed R11H06)
            m = rng.randint(2, min(3, ntr // 2))
            d = rng.choice([2, 3, 5])
            pts = [[round(rng.uniform(-5, 5), 2) for _ in range(d)] for _ in range(m)]
            cfg.update(mixture="gm", m=m, weight_mode=rng.choice(["similarities", "similarities", "responsibilities"]),
                       Xtr=[list(pts[i % m]) for i in range(ntr)],
                       Xq=[list(pts[i % m]) for i in range(m)] + [[round(rng.uniform(-5, 5), 2) for _ in range(d)] for _ in range(nq)],
                       repeated_measurements=True)
    return cfg


# ---------------------------------------------------------------------------------------------
# D./E. SklearnClassifier

def make_spy_clf():
    from sklearn.base import BaseEstimator, ClassifierMixin
    from sklearn.exceptions import NotFittedError

    class SpyClf(ClassifierMixin, BaseEstimator):
        """Returns rows of `table` (cycled) restricted to the classes it has seen; can raise / emit NaN."""

        def __init__(self, table=None, raise_on_fit=False, nan_at=None, full_width=False, has_partial=False):
            self.table = table
            self.raise_on_fit = raise_on_fit
            self.nan_at = nan_at
            self.full_width = full_width
            self.has_partial = has_partial

        def fit(self, X, y, sample_weight=None):
            if self.raise_on_fit:
                raise RuntimeError("spy estimator refuses to fit")
            self.classes_ = np.unique(y)
            self.fit_args_ = (np.array(X).copy(), np.array(y).copy(), None if sample_weight is None else np.array(sample_weight).copy())
            return self

        def __getattr__(self, name):
            if name == "partial_fit" and self.__dict__.get("has_partial"):
                return self._partial_fit
            raise AttributeError(name)

        def _partial_fit(self, X, y, classes=None, sample_weight=None):
            if self.raise_on_fit:
                raise RuntimeError("spy estimator refuses to fit")
            self.classes_ = np.array(classes)
            return self

        def predict_proba(self, X):
            if not hasattr(self, "classes_"):
                raise NotFittedError("spy not fitted")
            m = len(self.classes_)
            rows = self.table[m]
            P = np.array([rows[i % len(rows)] for i in range(len(X))], dtype=float).reshape(len(X), m)
            if self.nan_at is not None:
                P[self.nan_at[0] % len(X), self.nan_at[1] % m] = np.nan
            self.last_proba_ = P.copy()
            return P

        def predict(self, X):
            P = self.predict_proba(X)
            Pn = np.where(np.isnan(P), -1.0, P)
            self.last_pred_ = self.classes_[np.argmax(Pn, axis=1)]
            return self.last_pred_

    return SpyClf


SIMPLEX_TABLE = {
    1: [[1.0]],
    2: [[0.5, 0.5], [0.25, 0.75], [1.0, 0.0], [0.0, 1.0], [0.625, 0.375]],
    3: [[0.5, 0.25, 0.25], [0.0, 0.0, 1.0], [0.125, 0.375, 0.5], [0.25, 0.5, 0.25]],
    4: [[0.25, 0.25, 0.25, 0.25], [0.5, 0.0, 0.125, 0.375], [0.0, 1.0, 0.0, 0.0]],
    5: [[0.125, 0.125, 0.25, 0.25, 0.25], [0.0, 0.5, 0.0, 0.5, 0.0]],
}


def real_estimator(name):
    from sklearn.linear_model import LogisticRegression, SGDClassifier
    from sklearn.naive_bayes import GaussianNB
    from sklearn.tree import DecisionTreeClassifier
    from sklearn.neighbors import KNeighborsClassifier

    return {
        "gnb": lambda: GaussianNB(),
        "lr": lambda: LogisticRegression(max_iter=200),
        "tree": lambda: DecisionTreeClassifier(random_state=0),
        "sgd": lambda: SGDClassifier(loss="log_loss", random_state=0, max_iter=20, tol=None),
        "knn1": lambda: KNeighborsClassifier(n_neighbors=1),
    }[name]()


def case_skl(ctx, lines, expect, cfg):
    from skactiveml.classifier import SklearnClassifier

    lab, y, w, classes, cost = materialize(cfg)
    ntr = len(y)
    est_name = cfg["estimator"]
    if est_name == "spy":
        SpyClf = make_spy_clf()
        est = SpyClf(table=SIMPLEX_TABLE, raise_on_fit=cfg.get("raise_on_fit", False), nan_at=cfg.get("nan_at"),
                     has_partial=cfg.get("partial", False))
    else:
        est = real_estimator(est_name)
    clf = SklearnClassifier(est, classes=classes, missing_label=lab.missing, cost_matrix=cost, random_state=0)
    Xtr = np.array(cfg["Xtr"], dtype=float).reshape(ntr, -1) if ntr else np.zeros((0, 2))
    Xq = np.array(cfg["Xq"], dtype=float)
    n = len(Xq)
    fitfn = clf.partial_fit if cfg.get("partial") else clf.fit
    if not cfg.get("partial") and cfg["k"] >= 2 and ntr and cfg["seed"] % 3 == 0:
        # a USED object: the same classifier has been fitted before on the same rows with the labels rotated by one class
        # (another observed subset of the declared classes, same size) and asked for probabilities; `fit` starts from
        # scratch, so everything below must be as for a fresh object
        y_prior = lab.y([None if i is None else (i + 1) % cfg["k"] for i in cfg["y_idx"]])
        try:
            with np.errstate(all="ignore"):
                clf.fit(Xtr, y_prior, **({} if w is None else dict(sample_weight=w)))
                clf.predict_proba(Xq)
                clf.predict(Xq)
            ctx.count("skl_used_object_prefix")
        except Exception:  # noqa: BLE001  (an inadmissible earlier training set: no history then)
            ctx.count("skl_used_object_prefix_raised")
    try:
        if cfg.get("partial") and cfg.get("two_batches") and ntr >= 2:
            h = ntr // 2
            clf.partial_fit(Xtr[:h], y[:h], sample_weight=None if w is None else w[:h])
            clf.partial_fit(Xtr[h:], y[h:], sample_weight=None if w is None else w[h:])
        else:
            fitfn(Xtr, y, **({} if w is None else dict(sample_weight=w)))
    except Exception as e:
        if fit_error_ok(cfg, e):
            ctx.count("inadmissible_fit_rejected")
            return
        viol(ctx, "SklearnClassifier", "fit", "raises", f"fit raised {type(e).__name__}: {e}", cfg, est_name)
        return
    k = len(clf.classes_)
    fitted = bool(clf.is_fitted_)
    ctx.count(f"kind_skl_{est_name}" + ("_partial" if cfg.get("partial") else "") + ("" if fitted else "_unfitted"))
    # capture what the wrapped estimator returns
    cap = {}
    est_ = clf.estimator_
    if fitted:
        orig_pp = est_.predict_proba

        def pp(X, **kw):
            r = orig_pp(X, **kw)
            cap["P"] = np.array(r, dtype=float).copy()
            return r

        est_.predict_proba = pp
    try:
        P = clf.predict_proba(Xq)
    except Exception as e:
        viol(ctx, "SklearnClassifier", "predict_proba", "raises", f"predict_proba raised {type(e).__name__}: {e}", cfg, est_name)
        return
    estP = cap.get("P")
    counts = np.array(clf._label_counts, dtype=float)
    cls_int = lab.to_int(list(clf.classes_), clf.classes_)
    if fitted and estP is not None:
        est_classes = lab.to_int(list(est_.classes_), clf.classes_)
        wdt = estP.shape[1]
        ep = " ".join(f2bits(x) for x in estP.ravel())
    else:
        est_classes, wdt, ep = [], 0, ""
    line = (f"skproba {k} {' '.join(map(str, cls_int))} {int(fitted)} {len(est_classes)} {' '.join(map(str, est_classes))} "
            f"{n} {wdt} {ep} {flat_bits(counts)}")
    lines.append(" ".join(line.split()))
    if fitted and estP is not None:
        ci = np.searchsorted(clf.classes_, est_.classes_[np.isin(est_.classes_, clf.classes_)])
        ci_s = " ".join(str(int(i)) for i in ci)
    else:
        ci_s = ""
    expect.append((f"ok {ci_s} | " + mat_bits(P), dict(cfg, what="skproba")))
    nontriv = k >= 2 and (has_labels(cfg) or cost is not None)
    ctx.case(("skl", repr(cfg)), nontriv, sample=dict(kind="SklearnClassifier", estimator=est_name, y=y, fitted=fitted,
                                                      est_classes=None if not fitted else list(map(str, est_.classes_)),
                                                      classes_=list(map(str, clf.classes_)), P=P))
    if fitted and estP is not None:
        if estP.shape[1] < k:
            ctx.count("remap_subset_of_classes" + ("_single" if estP.shape[1] == 1 else ""))
        if np.any(np.isnan(estP)):
            ctx.count("estimator_returned_nan")
    # is the estimator's own output a probability matrix?  (precondition of the wrapper's row-sum clause)
    est_valid = True
    if fitted and estP is not None:
        est_valid = bool(not np.any(np.isnan(estP)) and np.all(estP >= 0) and np.all(np.abs(estP.sum(axis=1) - 1) <= TOL))
        if not est_valid:
            ctx.count("estimator_output_not_a_simplex")
    ok = oracle_proba(ctx, "SklearnClassifier", P, n, k, cfg, need_sum=est_valid or np.any(np.isnan(estP)), pre=est_name)
    # columns ordered as classes_: the estimator's column j must sit at the position of its class
    if ok and fitted and estP is not None and not np.any(np.isnan(estP)) and estP.shape[1] > 1:
        for j, c in enumerate(est_.classes_):
            pos = list(clf.classes_).index(c)
            if not np.array_equal(P[:, pos], estP[:, j]):
                viol(ctx, "SklearnClassifier", "predict_proba", "column-order",
                     f"column of class {c!r} is not at its position {pos} in classes_: P={P.tolist()} estimator={estP.tolist()}", cfg, est_name)
                break
        unseen = [i for i, c in enumerate(clf.classes_) if c not in list(est_.classes_)]
        if unseen and np.any(P[:, unseen] != 0):
            viol(ctx, "SklearnClassifier", "predict_proba", "column-order", f"unseen classes got probability mass: {P.tolist()}", cfg, est_name)
    if not has_labels(cfg) and ok:
        oracle_uniform(ctx, "SklearnClassifier", P, k, cfg)
        ctx.count("no_labels_uniform_checked")
    # predict: three branches
    try:
        y_pred, costs, noise, choice, Pu = run_predict(ctx, clf, Xq, cfg["seed"])
    except Exception as e:
        viol(ctx, "SklearnClassifier", "predict", "raises", f"predict raised {type(e).__name__}: {e}", cfg, est_name)
        return
    branch = "unfitted" if not fitted else ("cost" if cost is not None else "estimator")
    ctx.count("skl_predict_branch_" + branch)
    C = true_cost(cfg, lab, clf.classes_)
    cost_lines(ctx, lines, expect, lab, cfg, clf)
    if ok and (est_valid or branch != "estimator"):
        pre = "unfitted-estimator-samples-from-label-distribution" if branch == "unfitted" else est_name
        oracle_predict(ctx, "SklearnClassifier", y_pred, P, C, clf.classes_, cfg, pre=pre)
    pred_int = lab.to_int(list(y_pred), clf.classes_)
    if branch in ("cost", "unfitted"):
        if costs is None or noise is None:
            # the branch no longer goes through rand_argmin (e.g. it samples labels again): nothing to feed the model with
            msg = f"SklearnClassifier.predict ({branch} branch) did not call rand_argmin"
            if msg not in ctx.broken:
                ctx.broken.append(msg)
        else:
            Pd = P if Pu is None else Pu
            decision_lines(ctx, lines, expect, lab, clf.classes_, y_pred, costs, noise, Pd, C, cfg, "skl:" + branch)
            if is_dyadic(Pd) and is_dyadic(C, 8):
                lines.append(f"skpredict {k} {' '.join(map(str, cls_int))} {int(fitted)} {int(cost is not None)} {n} {' '.join(['0'] * n)} "
                             f"{flat_bits(Pd)} {flat_bits(C)} {flat_bits(noise)}")
                expect.append((" ".join(map(str, pred_int)), dict(cfg, what="skpredict:" + branch)))
    z = " ".join(["0"] * (n * k))
    if branch == "estimator" and est_name == "spy":
        ep_int = lab.to_int(list(est_.last_pred_), clf.classes_)
        lines.append(f"skpredict {k} {' '.join(map(str, cls_int))} 1 0 {n} {' '.join(map(str, ep_int))} {z} {' '.join(['0'] * (k * k))} {z}")
        expect.append((" ".join(map(str, pred_int)), dict(cfg, what="skpredict:estimator")))


def gen_skl(rng, est=None):
    cfg = gen_common(rng, kmax=5 if est in (None, "spy") else 4)
    ntr = len(cfg["y_idx"])
    cfg["kind"] = "skl"
    cfg["estimator"] = est or "spy"
    d = 2
    cfg["Xtr"] = [[float(rng.randint(-3, 3)) for _ in range(d)] for _ in range(ntr)]
    cfg["Xq"] = [[float(rng.randint(-3, 3)) for _ in range(d)] for _ in range(rng.randint(1, 4))]
    if cfg["estimator"] == "spy":
        cfg["raise_on_fit"] = rng.random() < 0.12
        cfg["nan_at"] = [rng.randrange(4), rng.randrange(4)] if rng.random() < 0.15 else None
        cfg["partial"] = rng.random() < 0.25
    else:
        cfg["partial"] = cfg["estimator"] == "sgd" and rng.random() < 0.6
        cfg["two_batches"] = rng.random() < 0.5
    if cfg["partial"] and cfg["classes_order"] is None:
        cfg["partial"] = False
    if cfg["estimator"] == "knn1":
        cfg["w"] = None      # the wrapper's fit signature mirrors the estimator's: no sample_weight parameter at all
    return cfg


# ---------------------------------------------------------------------------------------------
# F. SlidingWindowClassifier (pure delegation)

def case_swc(ctx, lines, expect, cfg):
    from skactiveml.classifier import ParzenWindowClassifier, SklearnClassifier, SlidingWindowClassifier

    lab, y, w, classes, cost = materialize(cfg)
    ntr = len(y)
    Xtr = np.array(cfg["Xtr"], dtype=float).reshape(ntr, -1) if ntr else np.zeros((0, 2))
    Xq = np.array(cfg["Xq"], dtype=float)
    kw = dict(classes=classes, missing_label=lab.missing, cost_matrix=cost, random_state=0)
    if cfg["inner"] == "pwc":
        inner = ParzenWindowClassifier(metric_dict={"gamma": 0.25}, class_prior=cfg["prior"], **kw)
    else:
        inner = SklearnClassifier(real_estimator(cfg["inner"]), **kw)
    clf = SlidingWindowClassifier(inner, window_size=cfg["window"], only_labeled=cfg["only_labeled"], **kw)
    try:
        if cfg["two_batches"] and ntr >= 2:
            h = ntr // 2
            clf.fit(Xtr[:h], y[:h], sample_weight=None if w is None else w[:h])
            clf.partial_fit(Xtr[h:], y[h:], sample_weight=None if w is None else w[h:])
        else:
            clf.fit(Xtr, y, sample_weight=w)
    except Exception as e:
        if fit_error_ok(cfg, e) or (cfg["two_batches"] and w is None and "sample_weight" in str(e)):
            ctx.count("inadmissible_fit_rejected")
            return
        # the window may hold no sample with a label although classes are undeclared
        if classes is None:
            ctx.count("inadmissible_fit_rejected")
            return
        viol(ctx, "SlidingWindowClassifier", "fit", "raises", f"fit raised {type(e).__name__}: {e}", cfg)
        return
    est_ = clf.estimator_
    k = len(est_.classes_)
    n = len(Xq)
    P = clf.predict_proba(Xq)
    P_in = est_.predict_proba(Xq)
    ctx.count("kind_swc_" + cfg["inner"])
    ctx.case(("swc", repr(cfg)), k >= 2 and has_labels(cfg), sample=dict(kind="SlidingWindowClassifier", inner=cfg["inner"], y=y, P=P))
    if not np.array_equal(P, P_in):
        ctx.disagree("SlidingWindowClassifier.predict_proba is estimator_.predict_proba", cfg, mat_bits(P_in), mat_bits(P))
    est_valid = True
    if cfg["inner"] != "pwc":
        est_valid = bool(np.all(np.isfinite(P)) and np.all(np.abs(P.sum(axis=1) - 1) <= TOL))   # wrapped sklearn estimator's accuracy
        if not est_valid:
            ctx.count("estimator_output_not_a_simplex")
    ok = oracle_proba(ctx, "SlidingWindowClassifier", P, n, k, cfg, need_sum=est_valid)
    if cfg["inner"] == "pwc":
        F = clf.predict_freq(Xq)
        oracle_freq(ctx, "SlidingWindowClassifier", F, n, k, cfg)
        if not np.array_equal(F, est_.predict_freq(Xq)):
            ctx.disagree("SlidingWindowClassifier.predict_freq is estimator_.predict_freq", cfg, "", "")
    in_window_labeled = np.any(np.array([not _is_missing(v, lab.missing) for v in np.ravel(np.array(clf.y_train_, dtype=object))])) if len(clf.y_train_) else False
    if not in_window_labeled and ok and (cfg["inner"] != "pwc" or cfg["prior"] == 0):
        oracle_uniform(ctx, "SlidingWindowClassifier", P, k, cfg)
        ctx.count("no_labels_uniform_checked")
    rs = SpyRS(cfg["seed"])
    est_.random_state_ = rs
    with Capture() as cap:
        y_pred = clf.predict(Xq)
    unf = cfg["inner"] != "pwc" and not est_.is_fitted_
    if ok and est_valid:
        # an unfitted wrapped SklearnClassifier samples its labels: same root cause as the wrapper's own finding
        oracle_predict(ctx, "SklearnClassifier" if unf else "SlidingWindowClassifier", y_pred, P, true_cost(cfg, lab, est_.classes_), est_.classes_, cfg,
                       pre="unfitted-estimator-samples-from-label-distribution" if unf else None)
    if cap.calls:
        noise = [x[1] for x in rs.log if x[0] == "random"][0]
        decision_lines(ctx, lines, expect, lab, est_.classes_, y_pred, cap.calls[0][0], noise, P, true_cost(cfg, lab, est_.classes_), cfg, "swc")
    cost_lines(ctx, lines, expect, lab, cfg, est_)


def _is_missing(v, missing):
    if missing is None:
        return v is None
    if isinstance(missing, float) and np.isnan(missing):
        try:
            return bool(np.isnan(v))
        except TypeError:
            return False
    return v == missing


def gen_swc(rng):
    cfg = gen_common(rng, kmax=3)
    ntr = len(cfg["y_idx"])
    cfg.update(kind="swc", inner=rng.choice(["pwc", "pwc", "gnb", "tree"]), window=rng.choice([None, 1, 2, 3, 10]),
               only_labeled=rng.random() < 0.4, two_batches=rng.random() < 0.5, prior=rng.choice([0.0, 0.0, 1.0]),
               Xtr=[[float(rng.randint(-3, 3)) for _ in range(2)] for _ in range(ntr)],
               Xq=[[float(rng.randint(-3, 3)) for _ in range(2)] for _ in range(rng.randint(1, 3))])
    return cfg


# ---------------------------------------------------------------------------------------------
# G. AnnotatorEnsembleClassifier

def make_member():
    from skactiveml.base import SkactivemlClassifier

    class TableMember(SkactivemlClassifier):
        """A member classifier with table-driven probabilities (rows cycled by query position)."""

        def __init__(self, table=None, shift=0, classes=None, missing_label=np.nan, cost_matrix=None, random_state=None):
            super().__init__(classes=classes, missing_label=missing_label, cost_matrix=cost_matrix, random_state=random_state)
            self.table = table
            self.shift = shift

        def fit(self, X, y, sample_weight=None):
            self._validate_data(X, y, sample_weight)
            self.seen_ = (np.array(y).copy(), None if sample_weight is None else np.array(sample_weight).copy())
            return self

        def predict_proba(self, X):
            k = len(self.classes_)
            rows = self.table[k]
            P = np.array([rows[(i + self.shift) % len(rows)] for i in range(len(X))], dtype=float).reshape(len(X), k)
            self.last_proba_ = P.copy()
            return P

        def predict(self, X):
            r = super().predict(X)
            self.last_pred_ = np.array(r).copy()
            return r

    return TableMember


def case_ens(ctx, lines, expect, cfg):
    from skactiveml.classifier import ParzenWindowClassifier
    from skactiveml.classifier.multiannotator import AnnotatorEnsembleClassifier

    lab, y, w, classes, cost = materialize(cfg)
    ntr = len(y)
    e = cfg["n_members"]
    y = y.reshape(ntr, e) if ntr else np.zeros((0, e))
    w = None if w is None else w.reshape(ntr, e)
    Xtr = np.array(cfg["Xtr"], dtype=float).reshape(ntr, -1) if ntr else np.zeros((0, 2))
    Xq = np.array(cfg["Xq"], dtype=float)
    n = len(Xq)
    TableMember = make_member()
    members = []
    mcls = classes if cfg.get("member_classes") else None
    for j in range(e):
        if cfg["members"] == "table":
            members.append((f"m{j}", TableMember(table=SIMPLEX_TABLE, shift=j, missing_label=lab.missing, random_state=j, classes=mcls)))
        else:
            members.append((f"m{j}", ParzenWindowClassifier(metric_dict={"gamma": 0.25}, missing_label=lab.missing, random_state=j, classes=mcls)))
    clf = AnnotatorEnsembleClassifier(members, voting=cfg["voting"], classes=classes, missing_label=lab.missing,
                                      cost_matrix=cost, random_state=0)
    used_prefix(ctx, "ens", clf, Xtr, lab, cfg, Xq, cols=e)
    try:
        clf.fit(Xtr, y, sample_weight=w)
    except Exception as ex:
        if fit_error_ok(cfg, ex):
            ctx.count("inadmissible_fit_rejected")
            return
        ident = classes is not None and sorted(classes) == list(range(len(classes)))
        viol(ctx, "AnnotatorEnsembleClassifier", "fit", "raises", f"fit raised {type(ex).__name__}: {ex}; classes = {classes}", cfg,
             "class-labels-not-0..k-1" if (mcls is not None and not ident) else None)
        return
    k = len(clf.classes_)
    ctx.count(f"kind_ens_{cfg['voting']}_{cfg['members']}")
    identity_classes = list(clf.classes_) == list(range(k))
    try:
        P = clf.predict_proba(Xq)
    except Exception as ex:
        pre = "class-labels-not-0..k-1" if not identity_classes else None
        viol(ctx, "AnnotatorEnsembleClassifier", "predict_proba", "raises",
             f"predict_proba ({cfg['voting']} voting) raised {type(ex).__name__}: {ex}; classes_ = {list(clf.classes_)}", cfg, pre)
        ctx.case(("ens", repr(cfg)), k >= 2 and has_labels(cfg), sample=dict(kind="AnnotatorEnsembleClassifier", voting=cfg["voting"], raised=str(ex)[:80]))
        return
    ctx.case(("ens", repr(cfg)), k >= 2 and has_labels(cfg), sample=dict(kind="AnnotatorEnsembleClassifier", voting=cfg["voting"], y=y, P=P))
    if ntr > 0 and cfg["members"] == "table":
        if cfg["voting"] == "soft":
            Ps = np.array([m.last_proba_ for _, m in clf.estimators_])           # (e, n, k)
            lines.append(f"enssoft {k} {n} {e} " + " ".join(f2bits(x) for x in np.transpose(Ps, (1, 0, 2)).ravel()))
            expect.append((mat_bits(P), dict(cfg, what="enssoft")))
        else:
            preds = np.array([m.last_pred_ for _, m in clf.estimators_]).T         # (n, e), member labels = class indices
            lines.append(f"enshard {k} {n} {e} " + " ".join(str(int(v)) for v in preds.ravel()))
            expect.append((mat_bits(P), dict(cfg, what="enshard")))
    ok = oracle_proba(ctx, "AnnotatorEnsembleClassifier", P, n, k, cfg)
    if not has_labels(cfg) and ok and (cfg["voting"] == "soft" and cfg["members"] == "pwc" or ntr == 0):
        oracle_uniform(ctx, "AnnotatorEnsembleClassifier", P, k, cfg)
        ctx.count("no_labels_uniform_checked")
    try:
        y_pred, costs, noise, _, Pu = run_predict(ctx, clf, Xq, cfg["seed"])
        P = P if Pu is None else Pu
    except Exception as ex:
        viol(ctx, "AnnotatorEnsembleClassifier", "predict", "raises", f"predict raised {type(ex).__name__}: {ex}", cfg)
        return
    if ok:
        Ct = true_cost(cfg, lab, clf.classes_)
        cost_lines(ctx, lines, expect, lab, cfg, clf)
        oracle_predict(ctx, "AnnotatorEnsembleClassifier", y_pred, P, Ct, clf.classes_, cfg)
        decision_lines(ctx, lines, expect, lab, clf.classes_, y_pred, costs, noise, P, Ct, cfg, "ens")


def gen_ens(rng):
    e = rng.randint(1, 3)
    cfg = gen_common(rng, kmax=4, two_d=e)
    ntr = len(cfg["y_idx"])
    if rng.random() < 0.7:
        cfg["label_kind"] = rng.choice(["int-nan", "int-neg1"])      # labels 0..k-1: the only ones hard voting supports
    cfg.update(kind="ens", n_members=e, voting=rng.choice(["hard", "soft"]), members=rng.choice(["table", "table", "pwc"]),
               member_classes=cfg["classes_order"] is not None and rng.random() < 0.3,
               Xtr=[[float(rng.randint(-3, 3)) for _ in range(2)] for _ in range(ntr)],
               Xq=[[float(rng.randint(-3, 3)) for _ in range(2)] for _ in range(rng.randint(1, 3))])
    return cfg


# ---------------------------------------------------------------------------------------------
# H. AnnotatorLogisticRegression (oracle only: softmax is not bit-reproducible)

def case_alr(ctx, lines, expect, cfg):
    from skactiveml.classifier.multiannotator import AnnotatorLogisticRegression

    lab, y, w, classes, cost = materialize(cfg)
    ntr = len(y)
    a = cfg["n_annot"]
    y = y.reshape(ntr, a) if ntr else np.zeros((0, a))
    w = None if w is None else w.reshape(ntr, a)
    Xtr = np.array(cfg["Xtr"], dtype=float).reshape(ntr, -1) if ntr else np.zeros((0, 2))
    Xq = np.array(cfg["Xq"], dtype=float)
    n = len(Xq)
    clf = AnnotatorLogisticRegression(n_annotators=a, classes=classes, missing_label=lab.missing, cost_matrix=cost,
                                      max_iter=5, random_state=0)
    if ntr and cfg["k"] >= 2 and cfg["seed"] % 2 == 0:
        # a USED object: the same classifier has been fitted before on the same rows with every annotator labelling every
        # row (labels cycling through the classes) and asked for probabilities; `fit` starts from scratch, so everything
        # below -- the uniform distribution for a training set without labels included -- must be as for a fresh object
        y_prior = lab.y([(i + j) % cfg["k"] for i in range(ntr) for j in range(a)]).reshape(ntr, a)
        try:
            with np.errstate(all="ignore"):
                clf.fit(Xtr, y_prior)
                clf.predict_proba(Xq)
            ctx.count("alr_used_object_prefix")
        except Exception:  # noqa: BLE001
            ctx.count("alr_used_object_prefix_raised")
    try:
        clf.fit(Xtr, y, sample_weight=w)
    except Exception as ex:
        if fit_error_ok(cfg, ex):
            ctx.count("inadmissible_fit_rejected")
            return
        rows_unl = [all(i is None for i in row) for row in cfg["y_idx"]]
        pre = "sample-weight-with-fully-unlabeled-row" if (w is not None and any(rows_unl) and not all(rows_unl)) else None
        viol(ctx, "AnnotatorLogisticRegression", "fit", "raises", f"fit raised {type(ex).__name__}: {ex}", cfg, pre)
        return
    k = len(clf.classes_)
    P = clf.predict_proba(Xq)
    ctx.count("kind_alr")
    ctx.case(("alr", repr(cfg)), k >= 2 and has_labels(cfg), sample=dict(kind="AnnotatorLogisticRegression", y=y, P=P))
    ok = oracle_proba(ctx, "AnnotatorLogisticRegression", P, n, k, cfg)
    if not has_labels(cfg) and ok:
        oracle_uniform(ctx, "AnnotatorLogisticRegression", P, k, cfg)
        ctx.count("no_labels_uniform_checked")
    try:
        y_pred, costs, noise, _, Pu = run_predict(ctx, clf, Xq, cfg["seed"])
    except Exception as ex:
        viol(ctx, type(clf).__name__ if type(clf).__name__ != "TableFreq" else "ClassFrequencyEstimator", "predict", "raises",
             f"predict raised {type(ex).__name__}: {ex}", cfg)
        return
    P = P if Pu is None else Pu
    if ok:
        Ct = true_cost(cfg, lab, clf.classes_)
        cost_lines(ctx, lines, expect, lab, cfg, clf)
        oracle_predict(ctx, "AnnotatorLogisticRegression", y_pred, P, Ct, clf.classes_, cfg)
        decision_lines(ctx, lines, expect, lab, clf.classes_, y_pred, costs, noise, P, Ct, cfg, "alr")


def gen_alr(rng):
    a = rng.randint(1, 3)
    cfg = gen_common(rng, kmax=3, two_d=a)
    ntr = len(cfg["y_idx"])
    cfg.update(kind="alr", n_annot=a,
               Xtr=[[float(rng.randint(-3, 3)) for _ in range(2)] for _ in range(ntr)],
               Xq=[[float(rng.randint(-3, 3)) for _ in range(2)] for _ in range(rng.randint(1, 3))])
    return cfg



# ---------------------------------------------------------------------------------------------
# I. ParzenWindowClassifier with its own kernels on real features (oracle only: rbf values are not dyadic). Bandwidths given as
#    numbers, left to the default, or resolved from the data (`gamma='mean'`; seed R9C11), through the classifier itself and
#    through a SlidingWindowClassifier.

def case_pwc_real(ctx, lines, expect, cfg):
    from skactiveml.classifier import ParzenWindowClassifier, SlidingWindowClassifier

    lab, y, w, classes, cost = materialize(cfg)
    ntr = len(y)
    Xtr = np.array(cfg["Xtr"], dtype=float).reshape(ntr, -1) if ntr else np.zeros((0, 2))
    Xq = np.array(cfg["Xq"], dtype=float)
    n = len(Xq)
    md = cfg["metric_dict"]
    clf = ParzenWindowClassifier(metric="rbf", metric_dict=None if md is None else dict(md), n_neighbors=cfg.get("n_neighbors"),
                                 classes=classes, missing_label=lab.missing, cost_matrix=cost, class_prior=cfg["prior"], random_state=0)
    name = "ParzenWindowClassifier"
    if cfg.get("sliding"):
        clf = SlidingWindowClassifier(clf, classes=classes, missing_label=lab.missing, cost_matrix=cost, random_state=0)
        name = "SlidingWindowClassifier"
    try:
        clf.fit(Xtr, y, sample_weight=w)
    except Exception as e:
        if fit_error_ok(cfg, e):
            ctx.count("inadmissible_fit_rejected")
            return
        viol(ctx, name, "fit", "raises", f"fit raised {type(e).__name__}: {e}", cfg, "rbf-" + str(md))
        return
    k = len(clf.classes_)
    try:
        P = clf.predict_proba(Xq)
    except Exception as e:
        viol(ctx, name, "predict_proba", "raises", f"predict_proba raised {type(e).__name__}: {e}", cfg, "rbf-" + str(md))
        return
    ctx.count("kind_pwc_real_" + ("default" if md is None else str(md.get("gamma"))) + ("_sliding" if cfg.get("sliding") else ""))
    ctx.case(("pwc-real", repr(cfg)), k >= 2 and has_labels(cfg), sample=dict(kind=name + " (rbf)", metric_dict=md, y=y, P=P))
    ok = oracle_proba(ctx, name, P, n, k, cfg)
    if ok and not has_labels(cfg) and np.isscalar(cfg["prior"]):
        oracle_uniform(ctx, name, P, k, cfg)
        ctx.count("no_labels_uniform_checked")
    try:
        y_pred, costs, noise, _, Pu = run_predict(ctx, clf, Xq, cfg["seed"])
    except Exception as ex:
        viol(ctx, name, "predict", "raises", f"predict raised {type(ex).__name__}: {ex}", cfg)
        return
    if ok:
        oracle_predict(ctx, name, y_pred, P if Pu is None else Pu, true_cost(cfg, lab, clf.classes_), clf.classes_, cfg)


def gen_pwc_real(rng):
    cfg = gen_common(rng, allow_none_classes=False)
    ntr = len(cfg["y_idx"])
    cfg.update(kind="pwc_real", Xtr=[[rng.randint(-4, 4) / 2.0, rng.randint(-4, 4) / 2.0] for _ in range(ntr)],
               Xq=[[rng.randint(-6, 6) / 2.0, rng.randint(-6, 6) / 2.0] for _ in range(rng.randint(1, 4))],
               metric_dict=rng.choice([None, {"gamma": "mean"}, {"gamma": "mean"}, {"gamma": 0.5}]),
               prior=rng.choice([0.0, 0.0, 0.5]), n_neighbors=rng.choice([None, None, 2]),
               sliding=ntr > 0 and rng.random() < 0.25)   # a window without any row has no feature dimension left: not a training set
    return cfg

# ---------------------------------------------------------------------------------------------

RUNNERS = dict(freq=case_freq, pwc=case_pwc, pwc_real=case_pwc_real, mmc=case_mmc, skl=case_skl, swc=case_swc, ens=case_ens, alr=case_alr)


def run_case(ctx, lines, expect, cfg):
    with warnings.catch_warnings():
        warnings.simplefilter("ignore")
        with np.errstate(all="ignore"):
            RUNNERS[cfg["kind"]](ctx, lines, expect, cfg)


def fixed_cases():
    """Deterministic corner cases run first (the corpus)."""
    out = []
    # no labels + non-trivial cost matrix: the unfitted branch of SklearnClassifier.predict
    out.append(dict(kind="skl", estimator="gnb", k=3, label_kind="int-nan", y_idx=[None, None], classes_order=[0, 1, 2],
                    cost=[[0, 1, 1], [5, 0, 5], [5, 5, 0]], w=None, seed=3, Xtr=[[0, 0], [1, 1]],
                    Xq=[[0, 0]] * 8, partial=False, two_batches=False))
    # declared but unobserved classes with non-contiguous labels
    out.append(dict(kind="skl", estimator="spy", k=4, label_kind="spread-nan", y_idx=[0, 2, 2, None], classes_order=[3, 1, 0, 2],
                    cost=None, w=None, seed=5, Xtr=[[0, 0], [1, 1], [2, 2], [3, 3]], Xq=[[0, 0], [1, 1], [2, 2]],
                    raise_on_fit=False, nan_at=None, partial=False))
    out.append(dict(kind="skl", estimator="spy", k=3, label_kind="str-none", y_idx=[1, 1, None], classes_order=[0, 1, 2],
                    cost=[[0, 1, 2], [1, 0, 1], [3, 1, 0]], w=[1.0, 0.5, 2.0], seed=6, Xtr=[[0, 0], [1, 1], [2, 2]],
                    Xq=[[0, 0], [1, 1]], raise_on_fit=False, nan_at=None, partial=False))
    out.append(dict(kind="pwc", k=3, label_kind="int-nan", y_idx=[None, None, None], classes_order=[0, 1, 2], cost=None, w=None,
                    seed=7, K=[[1, 0.5, 0.25], [0, 0, 0]], prior=0.0, metric_mode="precomputed", n_neighbors=None))
    out.append(dict(kind="ens", k=2, label_kind="spread-nan", y_idx=[[0, 1], [1, None], [0, 0]], classes_order=[0, 1], cost=None,
                    w=None, seed=8, n_members=2, voting="hard", members="pwc", Xtr=[[0, 0], [1, 1], [2, 2]], Xq=[[0, 0], [1, 1]]))
    out.append(dict(kind="ens", k=2, label_kind="int-nan", y_idx=[[0, 1], [1, None], [0, 0]], classes_order=[0, 1], cost=None,
                    w=None, seed=8, n_members=2, voting="hard", members="table", Xtr=[[0, 0], [1, 1], [2, 2]], Xq=[[0, 0], [1, 1]]))
    out.append(dict(kind="ens", k=2, label_kind="spread-nan", y_idx=[[0, 1], [1, None], [0, 0]], classes_order=[0, 1], cost=None,
                    w=None, seed=8, n_members=2, voting="soft", members="pwc", member_classes=True, Xtr=[[0, 0], [1, 1], [2, 2]],
                    Xq=[[0, 0], [1, 1]]))
    asym3 = [[0, 1, 4], [2, 0, 8], [16, 32, 0]]
    asym4 = [[0, 1, 2, 3], [4, 0, 5, 6], [7, 8, 0, 9], [10, 11, 12, 0]]
    for order, cost in (([1, 2, 0], asym3), ([2, 0, 1], asym3), ([1, 2, 3, 0], asym4), ([2, 0, 3, 1], asym4)):
        k = len(order)
        for lk in ("spread-nan", "str-none"):
            out.append(dict(kind="pwc", k=k, label_kind=lk, y_idx=[0, 1, 2, None, k - 1], classes_order=order, cost=cost, w=None, seed=21,
                            K=[[1, 0.5, 0.25, 1, 0.25], [0.25, 0.25, 1, 1, 0.5], [0, 0, 0, 0, 0]], prior=0.0, metric_mode="precomputed", n_neighbors=None))
            out.append(dict(kind="skl", estimator="spy", k=k, label_kind=lk, y_idx=list(range(k)) + [None], classes_order=order, cost=cost,
                            w=None, seed=22, Xtr=[[float(i), 0.0] for i in range(k + 1)], Xq=[[0.0, 0.0], [1.0, 1.0], [2.0, 2.0]],
                            raise_on_fit=False, nan_at=None, partial=False))
            out.append(dict(kind="freq", k=k, label_kind=lk, y_idx=[0], classes_order=order, cost=cost,
                            F=[[1.0] * k, [2.0] + [1.0] * (k - 1), [0.5] * (k - 1) + [2.0]], prior=0, seed=23))
    out.append(dict(kind="alr", k=2, label_kind="int-nan", y_idx=[[0, 1], [None, None], [1, 1]], classes_order=[0, 1], cost=None,
                    w=[[1.0, 1.0], [1.0, 1.0], [1.0, 1.0]], seed=9, n_annot=2, Xtr=[[0, 0], [1, 1], [2, 2]], Xq=[[0, 0], [1, 1]]))
    return out


def gen_any(rng):
    r = rng.random()
    if r < 0.14:
        return gen_freq(rng)
    if r < 0.27:
        return gen_pwc(rng)
    if r < 0.32:
        return gen_pwc_real(rng)
    if r < 0.42:
        return gen_mmc(rng, real=False)
    if r < 0.47:
        return gen_mmc(rng, real=True)
    if r < 0.67:
        return gen_skl(rng, "spy")
    if r < 0.80:
        return gen_skl(rng, rng.choice(["gnb", "lr", "tree", "sgd", "knn1"]))
    if r < 0.87:
        return gen_swc(rng)
    if r < 0.95:
        return gen_ens(rng)
    return gen_alr(rng)


def compare(ctx, lines, expect):
    outs = vlib.run_driver(lines)
    for line, out, (impl, case) in zip(lines, outs, expect):
        if canon(out) != canon(impl):
            ctx.disagree("SkaModel.Core.Classifier vs skactiveml classifiers (" + str(case.get("what")) + ")",
                         dict(case, line=line[:400]), out[:400], impl[:400])


def correspond(ctx):
    rng = ctx.rng
    lines, expect = [], []
    for cfg in fixed_cases():
        run_case(ctx, lines, expect, cfg)
    n_rand = 2000 if not ctx.thorough else 36000
    for _ in range(n_rand):
        run_case(ctx, lines, expect, gen_any(rng))
    if ctx.thorough:
        exhaustive_small(ctx, lines, expect)
    compare(ctx, lines, expect)
    ctx.notes["model_lines"] = len(lines)


def exhaustive_small(ctx, lines, expect):
    """All label patterns over {missing, c0, c1, c2} up to length 3 x declared classes (3) x {spy wrapper, PWC}
    and all frequency rows over {0, 1/2, 1}^3 for the normalisation."""
    cnt = 0
    for n in range(0, 4):
        for pat in itertools.product([None, 0, 1, 2], repeat=n):
            for cost in (None, [[0, 1, 2], [1, 0, 1], [3, 1, 0]]):
                base = dict(k=3, label_kind="spread-nan", y_idx=list(pat), classes_order=[0, 1, 2], cost=cost, w=None, seed=11 + cnt)
                run_case(ctx, lines, expect, dict(base, kind="skl", estimator="spy", Xtr=[[float(i), 0.0] for i in range(n)],
                                                  Xq=[[0.0, 0.0], [1.0, 1.0]], raise_on_fit=False, nan_at=None, partial=False))
                run_case(ctx, lines, expect, dict(base, kind="pwc", K=[[1.0] * n, [0.5] * n], prior=0.0,
                                                  metric_mode="callable", n_neighbors=None))
                cnt += 1
    for row in itertools.product([0.0, 0.5, 1.0], repeat=3):
        for prior in (0, 0.5):
            run_case(ctx, lines, expect, dict(kind="freq", k=3, label_kind="int-nan", y_idx=[0], classes_order=[0, 1, 2], cost=None,
                                              F=[list(row)], prior=prior, seed=1))
    ctx.notes["exhaustive_subrun"] = (f"all label patterns over {{missing,c0,c1,c2}}^n, n<=3, x 2 cost matrices through the spy-wrapped "
                                      f"SklearnClassifier and ParzenWindowClassifier ({cnt} patterns); all frequency rows over {{0,1/2,1}}^3 x 2 priors")
    ctx.exhaustive = False


def search(ctx):
    """Failing-input search on the implementation alone (property oracle), biased to the real estimators."""
    rng = ctx.rng
    lines, expect = [], []
    for _ in range(4000):
        r = rng.random()
        cfg = gen_skl(rng, rng.choice(["gnb", "lr", "tree", "sgd", "spy"])) if r < 0.5 else gen_any(rng)
        run_case(ctx, lines, expect, cfg)
        if ctx.violations:
            return


def replay(payload):
    ctx = vlib.Ctx("C11", "quick", 0)
    cfg = dict(payload.get("replay", {}))
    cfg.pop("_cls", None)
    lines, expect = [], []
    run_case(ctx, lines, expect, cfg)
    for v in ctx.violations:
        print("REPRODUCED:", v["key"], "--", v["what"][:300])
    return 1 if ctx.violations else 0
