"""C13 — fit is history-free and never rewrites constructor parameters.

Ties:
  * translation: `lean/SkaModel/Gen/EffectsC13.lean` is regenerated from the current source:
    `FrameOK summary_<Class>_<method>` for every public method of every classifier, regressor, budget
    manager and stream strategy, and `HistoryFree summary_<Class>_fit` (no fitted attribute is read
    before it is written); general theorems in `Props/C13.lean` / `Props/C05.lean`;
  * dynamic oracle on the real code: refit-vs-fresh-clone on different data (deterministic small
    estimators, predictions compared exactly), get_params(deep=True) + caller-owned dicts + input
    arrays before/after every public call in random call sequences (estimators), query/update
    sequences (stream strategies, budget managers);
  * the sliding-window clause is checked by a separate model (`_window.py`, `Props/C13w.lean`) when
    present.
"""
import os
import time

# tiny data: BLAS / OpenMP thread pools only add overhead (and nondeterministic summation order)
for _v in ("OMP_NUM_THREADS", "OPENBLAS_NUM_THREADS", "MKL_NUM_THREADS"):
    os.environ.setdefault(_v, "1")

import numpy as np

from .. import vlib
from ..translate import gen, oracles, zoo

try:  # a colleague's Lean model of SlidingWindowClassifier
    from ._window import correspond_window
except Exception:  # pragma: no cover
    correspond_window = None

PROP = "C13"
LEAN_TARGETS = ["SkaModel.Props.C13", "SkaModel.Gen.EffectsC13"]
if os.path.exists(os.path.join(vlib.LEAN, "SkaModel", "Props", "C13w.lean")):
    LEAN_TARGETS.append("SkaModel.Props.C13w")
LEVEL = "proof"
RULE = (
    "cases: (a) estimator configuration x seed: fit(set 1), every predict method, fit(set 2) compared with a fresh object "
    "fitted on set 2 (all predict methods, exact), (b) estimator configuration x random sequence of 6-10 public calls "
    "(fit/partial_fit on two data sets, predict*), (b') history, set_params(<param>=<other valid value from a table: window_size, "
    "metric_dict, n_neighbors, class_prior, priors, budget, w, theta, ...>), fit: used object vs fresh clone with the same "
    "parameters (predictions exact; SlidingWindowClassifier: deque capacity and contents), (c) stream strategy / budget manager configuration x query/update over "
    "all chunks; get_params(deep=True) (dict-valued parameters by content), caller-owned model objects and input arrays are "
    "compared before/after every call. non-trivial = the two training sets yield different models (a) / the sequence "
    "contains at least two fits or updates (b, c); distinct = distinct (case, seed, sequence)"
)
ASSUMPTIONS = [
    "the effect summary over-approximates the Python method (translator in the trusted base, validated by the snapshots of this run)",
    "history-freeness is proved for what fit reads and writes; attributes an earlier fit set that this fit neither writes nor reads are covered by the dynamic refit-vs-fresh comparison only",
    "third-party estimators wrapped by SklearnClassifier/SklearnRegressor are deterministic given random_state",
]
TRUSTED = [
    "harness/translate (AST -> effect summary) and its Python mirror; Lean's `decide` re-checks every emitted obligation",
    "sklearn.base.clone / copy.deepcopy as modelled",
]

EST_FAMILIES = ("classifier", "classifier_ma", "regressor")


def generate(ctx):
    ctx.gen = gen.generate(PROP, ctx)
    ctx.notes["generated_obligations_in_audit"] = ctx.notes.pop("generated_obligations", 0)
    ctx.notes.pop("generated_discharged", None)


def _gen(ctx):
    g = getattr(ctx, "gen", None)
    if g is None:
        g = gen.generate(PROP, None, write=False)
        ctx.gen = g
    return g


def key_of(cls, f):
    return f"C13/{cls}.{f.get('method', 'fit')}/{f['kind']}/{f['name']}"


def _report(ctx, case, findings, replay, observed):
    for f in findings:
        observed.setdefault(case.cls_name, set()).add((f.get("method", "fit"), f["kind"], f["name"]))
        ctx.violate(key_of(case.cls_name, f), f"{case.cls_name} [{case.config}]: {f['what']}", dict(replay, finding=f["kind"] + "/" + f["name"]))


def _scalar_zero(v):
    return v is None or (np.isscalar(v) and v == 0)


class SubsetCase:
    """The same zoo classifier case with a third declared class and training sets that observe different subsets of
    the declared classes: the first fit sees {0, 1}, the second {1, 2} (labels shifted by one)."""

    def __init__(self, case):
        self._case = case

    def __getattr__(self, name):
        return getattr(self._case, name)

    def build(self):
        obj = self._case.build()
        p = obj.get_params(deep=False)
        if "classes" in p and p.get("cost_matrix") is None and _scalar_zero(p.get("class_prior")):
            obj.set_params(classes=[0, 1, 2])
        return obj

    def data(self, seed):
        d = self._case.data(seed)
        for k in ("y2",):
            if k in d:
                d[k] = d[k] + 1
        return d


def applicable_subset(case):
    if case.family not in ("classifier", "classifier_ma"):
        return False
    p = case.build().get_params(deep=False)
    return "classes" in p and p.get("classes") is not None and p.get("cost_matrix") is None and _scalar_zero(p.get("class_prior"))


def run_estimator_case(ctx, case, seed, observed, n_seq=1, seq_len=6):
    findings, info = oracles.estimator_refit_vs_fresh(case, seed)
    ctx.case(("refit", case.key, seed), bool(info.get("discriminating")), sample=dict(kind="refit-vs-fresh", case=case.key, seed=seed, discriminating=info.get("discriminating"), findings=[f["kind"] + "/" + f["name"] for f in findings]))
    ctx.count("refit_vs_fresh")
    if info.get("discriminating") is False:
        ctx.count("refit_not_discriminating")
    _report(ctx, case, findings, dict(oracle="refit", case=case.key, seed=seed), observed)
    findings, info = oracles.estimator_refit_other_arguments(case, seed)
    ctx.case(("refit-args", case.key, seed), "skipped" not in info, sample=dict(kind="refit with / without sample_weight", case=case.key, seed=seed, findings=[f["kind"] + "/" + f["name"] for f in findings]))
    ctx.count("refit_other_arguments" + ("_skipped" if "skipped" in info else ""))
    _report(ctx, case, findings, dict(oracle="refit-args", case=case.key, seed=seed), observed)
    findings, info = oracles.estimator_refit_without_labels(case, seed)
    ctx.case(("refit-cold", case.key, seed), "continued" in info, sample=dict(kind="refit without labels, then continue", case=case.key, seed=seed, info=info, findings=[f["kind"] + "/" + f["name"] for f in findings]))
    ctx.count("refit_without_labels" + ("_raised" if "raised" in info else ("_skipped" if "skipped" in info else "")))
    _report(ctx, case, findings, dict(oracle="refit-cold", case=case.key, seed=seed), observed)
    if applicable_subset(case):
        try:
            findings, info = oracles.estimator_refit_vs_fresh(SubsetCase(case), seed)
        except Exception as e:  # noqa: BLE001  (the declared third class does not fit this configuration, e.g. nested estimators with their own `classes`)
            findings, info = [], dict(raised=f"{type(e).__name__}")
        ctx.case(("refit-subsets", case.key, seed), bool(info.get("discriminating")), sample=dict(kind="refit-vs-fresh, other observed class subset", case=case.key, seed=seed, findings=[f["kind"] + "/" + f["name"] for f in findings]))
        ctx.count("refit_vs_fresh_class_subsets" + ("_raised" if "raised" in info else ""))
        _report(ctx, case, findings, dict(oracle="refit-subsets", case=case.key, seed=seed), observed)
    for j in range(n_seq):
        sseed = seed * 1000 + j
        import random

        rng = random.Random(sseed * 7 + len(case.key))
        findings, info = oracles.estimator_call_sequence(case, seed, rng, length=seq_len)
        seq = info.get("seq", [])
        ctx.case(("seq", case.key, seed, tuple(seq)), sum(1 for s in seq if "fit" in s) >= 2, sample=dict(kind="call-sequence", case=case.key, seq=seq))
        ctx.count("call_sequences")
        if "raised" in info:
            ctx.count("sequence_raised:" + info["raised"].split(":")[1].strip())
        _report(ctx, case, findings, dict(oracle="sequence", case=case.key, seed=seed, sseed=sseed, length=seq_len), observed)
        # the same with a wrapped estimator the caller has trained already (prediction first, then incremental training)
        findings, info = oracles.estimator_call_sequence(case, seed, random.Random(sseed * 13 + len(case.key)), length=seq_len, prefitted=True)
        if str(info.get("raised", "")).startswith("Skip"):
            ctx.count("prefitted_sequences_not_applicable")
        else:
            seq = info.get("seq", [])
            ctx.case(("seq-prefitted", case.key, seed, tuple(seq)), True, sample=dict(kind="call-sequence, pre-trained wrapped estimator", case=case.key, seq=seq))
            ctx.count("prefitted_sequences" + ("_raised" if "raised" in info else ""))
            _report(ctx, case, findings, dict(oracle="sequence-prefitted", case=case.key, seed=seed, sseed=sseed, length=seq_len), observed)
    for j in range(n_seq + 1):
        # history, set_params(<param>=<other valid value>), refit: used object vs fresh clone with the same params
        import random

        sseed = seed * 1000 + 500 + j
        findings, info = oracles.estimator_setparams_refit(case, seed, random.Random(sseed * 11 + len(case.key)))
        ch = tuple(info.get("changes", ()))
        ctx.case(("setparams", case.key, seed, ch, tuple(info.get("history", ()))), bool(ch), sample=dict(kind="set_params-then-refit", case=case.key, changes=ch, history=info.get("history")))
        ctx.count("set_params_refits")
        for pname, _ in ch:
            ctx.count("set_params:" + pname)
        if "raised" in info or "set_params_raised" in info:
            ctx.count("set_params_refit_skipped")
        _report(ctx, case, findings, dict(oracle="setparams", case=case.key, seed=seed, sseed=sseed), observed)


def run_setparams_stream(ctx, case, seed, observed):
    import random

    findings, info = oracles.stream_setparams(case, seed, random.Random(seed * 13 + len(case.key)))
    ctx.case(("stream-setparams", case.key, seed, info.get("changed")), info.get("changed") is not None and "raised" not in info,
             sample=dict(kind="query/update with set_params in between", case=case.key, changed=info.get("changed")))
    ctx.count("stream_set_params_sequences")
    if info.get("changed"):
        ctx.count("set_params:" + info["changed"][0])
    if "raised" in info:
        ctx.count("stream_set_params_raised")
    _report(ctx, case, findings, dict(oracle="stream-setparams", case=case.key, seed=seed), observed)


def run_stream_case(ctx, case, seed, observed):
    run_setparams_stream(ctx, case, seed, observed)
    findings, info = oracles.stream_params(case, seed)
    ctx.case(("stream", case.key, seed), "raised" not in info, sample=dict(kind="stream query/update", case=case.key, seed=seed))
    ctx.count("stream_sequences")
    if "raised" in info:
        ctx.count("stream_raised:" + info["raised"][:40])
    _report(ctx, case, findings, dict(oracle="stream", case=case.key, seed=seed), observed)


def run_budget_case(ctx, case, seed, observed):
    run_setparams_stream(ctx, case, seed, observed)
    findings, info = oracles.budget_params(case, seed)
    ctx.case(("budget", case.key, seed), "raised" not in info, sample=dict(kind="budget query_by_utility/update", case=case.key, seed=seed))
    ctx.count("budget_sequences")
    if "raised" in info:
        ctx.count("budget_raised:" + info["raised"][:40])
    _report(ctx, case, findings, dict(oracle="budget", case=case.key, seed=seed), observed)
    # caller-owned generator as random_state, update before the first query (warm start)
    findings, info = oracles.budget_params(case, seed, warm_instance=True)
    if not str(info.get("raised", "")).startswith("Skip"):
        ctx.case(("budget-warm-instance", case.key, seed), "raised" not in info, sample=dict(kind="budget update-first, RandomState instance", case=case.key, seed=seed))
        ctx.count("budget_warm_instance_sequences")
        _report(ctx, case, findings, dict(oracle="budget-warm-instance", case=case.key, seed=seed), observed)


def correspond(ctx):
    g = _gen(ctx)
    flipped = {o["cls"] for o in g["flips"]}
    observed = {}
    t0 = time.time()
    seeds = [ctx.seed] if not ctx.thorough else [ctx.seed, ctx.seed + 101, ctx.seed + 202]
    cases = [c for c in zoo.cases() if c.family in EST_FAMILIES + ("stream", "budget")]
    cases.sort(key=lambda c: (c.cls_name not in flipped, c.family, c.cls_name, c.config))
    for case in cases:
        for seed in seeds:
            if case.family in EST_FAMILIES:
                run_estimator_case(ctx, case, seed, observed, n_seq=3 if ctx.thorough else 1, seq_len=10 if ctx.thorough else 6)
            elif case.family == "stream":
                run_stream_case(ctx, case, seed, observed)
            else:
                run_budget_case(ctx, case, seed, observed)
    ctx.notes["dynamic_seconds"] = round(time.time() - t0, 1)
    compare_with_summaries(ctx, g, observed)
    if correspond_window is not None:
        correspond_window(ctx)
    else:
        ctx.notes["sliding_window_model"] = "harness/props/_window.py not present in this run"


def compare_with_summaries(ctx, g, observed):
    exp = gen.load_expected()
    run_classes = {c.cls_name for c in zoo.cases() if c.family in EST_FAMILIES + ("stream", "budget")}
    by_cls = {}
    for o in g["obligations"]:
        by_cls.setdefault(o["cls"], []).append(o)
    for cls, obs in sorted(observed.items()):
        pred_params = {ld["attr"] for o in by_cls.get(cls, []) if o["kind"] == "frame" for ld in o["leads"] if ld["kind"] == "param-write"}
        pred_other = [ld for o in by_cls.get(cls, []) if o["kind"] == "frame" for ld in o["leads"] if ld["kind"] in ("mutation", "fit-receiver")]
        pred_hist = [o for o in by_cls.get(cls, []) if o["kind"] == "history" and not o["value"]]
        for m, kind, name in sorted(obs):
            if kind == "param-write" and name.split("__")[0] not in pred_params and not pred_other:
                ctx.broken.append(f"translator missed: {cls}.{m} changes get_params()['{name}'] on the real code but no summary of the class has such a write")
            if kind in ("history-leak", "stale-after-set_params", "window-not-last-w") and not pred_hist and not pred_params and not pred_other:
                ctx.broken.append(f"translator missed: refitting {cls} differs from a fresh clone ({name}) but fit_{cls}_historyFree and the frame obligations hold")
    for o in g["obligations"]:
        if o["value"] or o["cls"] not in run_classes:
            continue
        why = exp.get(o["name"], {}).get("why", "")
        if why.startswith("finding") and not observed.get(o["cls"]):
            ctx.broken.append(f"lead not reproduced: {o['name']} is recorded as a finding but no configuration shows it on the real code")
    ctx.notes["observed_effects"] = {k: sorted("/".join(t) for t in v) for k, v in observed.items()}


def search(ctx):
    g = _gen(ctx)
    flipped = {o["cls"] for o in g["flips"]}
    observed = {}
    t0 = time.time()
    cases = [c for c in zoo.cases() if c.family in EST_FAMILIES + ("stream", "budget")]
    cases.sort(key=lambda c: (c.cls_name not in flipped, c.cls_name))
    for rnd in range(5):
        for case in cases:
            if flipped and case.cls_name not in flipped and rnd > 0:
                continue
            seed = ctx.seed + 1000 + 31 * rnd
            if case.family in EST_FAMILIES:
                run_estimator_case(ctx, case, seed, observed, n_seq=4, seq_len=12)
            elif case.family == "stream":
                run_stream_case(ctx, case, seed, observed)
            else:
                run_budget_case(ctx, case, seed, observed)
            if time.time() - t0 > (600 if ctx.thorough else 120):
                return
        if ctx.violations:
            return


def replay(payload):
    import random

    r = payload.get("replay", {})
    case = next((c for c in zoo.cases() if c.key == r.get("case")), None)
    if case is None:
        print("unknown case", r.get("case"))
        return 2
    if r["oracle"] == "refit":
        findings, _ = oracles.estimator_refit_vs_fresh(case, r["seed"])
    elif r["oracle"] == "refit-args":
        findings, _ = oracles.estimator_refit_other_arguments(case, r["seed"])
    elif r["oracle"] == "refit-cold":
        findings, _ = oracles.estimator_refit_without_labels(case, r["seed"])
    elif r["oracle"] == "refit-subsets":
        findings, _ = oracles.estimator_refit_vs_fresh(SubsetCase(case), r["seed"])
    elif r["oracle"] == "sequence":
        findings, _ = oracles.estimator_call_sequence(case, r["seed"], random.Random(r["sseed"] * 7 + len(case.key)), length=r.get("length", 6))
    elif r["oracle"] == "sequence-prefitted":
        findings, _ = oracles.estimator_call_sequence(case, r["seed"], random.Random(r["sseed"] * 13 + len(case.key)), length=r.get("length", 6), prefitted=True)
    elif r["oracle"] == "setparams":
        findings, _ = oracles.estimator_setparams_refit(case, r["seed"], random.Random(r["sseed"] * 11 + len(case.key)))
    elif r["oracle"] == "stream-setparams":
        findings, _ = oracles.stream_setparams(case, r["seed"], random.Random(r["seed"] * 13 + len(case.key)))
    elif r["oracle"] == "stream":
        findings, _ = oracles.stream_params(case, r["seed"])
    elif r["oracle"] == "budget-warm-instance":
        findings, _ = oracles.budget_params(case, r["seed"], warm_instance=True)
    else:
        findings, _ = oracles.budget_params(case, r["seed"])
    for f in findings:
        print("REPRODUCED:", key_of(case.cls_name, f), "-", f["what"])
    if not findings:
        print("not reproduced")
    return 1 if findings else 0
