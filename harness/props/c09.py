"""C09 — results do not depend on how labels and missing labels are encoded.

Lean part (`SkaModel.Props.C09`): the encoding algebra (ExtLabelEncoder = sort+dedupe+index-of, missing -> -1,
`isUnlabeled`, decode; invariance under strictly increasing relabelings and under the choice of sentinel; cost-matrix
permutation).  This module ties the real strategies / classifiers to that algebra by *paired real runs*: the SAME
labeling is presented under four encodings and every observable output must coincide (indices, utilities,
probabilities) or be the re-encoded original (predictions, `classes_`).

  E0  classes [0,1,2]        missing_label np.nan   float y
  E1  classes [10,20,30]     missing_label -1       int y
  E2  classes ['a','b','c']  missing_label 'nan'    str y
  E3  classes ['a','b','c']  missing_label None     object y

Regression strategies take continuous targets, so only the sentinel varies there:
  R0 NaN (float y), R1 reserved number -1000.0 (float y), R2 None (object y).

Layout: `CONFIGS` (one entry per class configuration: how to build the strategy / classifier and every model it uses from an
`EncCtx`), `make_ds` (data sets, a function of (seed, kind, nmax) only), `evaluate` (the paired oracle on one
(configuration, data set) pair: E0 twice as reproducibility guard, then the other encodings; one failure kind per encoding,
collapsed over encodings into a precondition class), `paired_runs` / `search` / `replay`.
Finding keys: C09/<Class.method>/<failure-kind>/<[config-tag-]precondition>, precondition in {numeric-sentinel, string-sentinel,
none-sentinel, string-labels (= E2 and E3), any-non-default-encoding (= E1, E2 and E3), non-nan-sentinel (= R1 and R2)}.
"""
import time
import warnings

import numpy as np

from .. import vlib

LEAN_TARGETS = ["SkaModel.Props.C09"]
LEVEL = "proof"
RULE = (
    "cases (a) encoding algebra: random labelings (1-d / 2-d, 2-3 classes, any missing pattern, class list permuted, given or inferred) "
    "presented under E0..E3 to the real ExtLabelEncoder / is_unlabeled / SkactivemlClassifier._validate_data (cost matrix) and, as "
    "order-preserving integer codes, to the Lean model: model = implementation per encoding, and on the real code identical codes, masks "
    "and permuted cost matrices across encodings, decoded predictions re-encoded; "
    "(b) one (class configuration, data set) pair = the same labeling (12-30 samples, 2 features, 2 or 3 classes, "
    "some labeled / some unlabeled, optionally one class absent from the labels; 3 annotators for the multi-annotator "
    "classes; continuous targets for regression strategies) run on the real code under the encodings E0..E3 "
    "(R0..R2 for regression) with `classes` / `missing_label` set on the strategy and on every model it uses and the "
    "same random_state; E0 is run twice first (reproducibility guard). Oracle: identical query indices, identical "
    "utilities / predict_proba (bit-identical; merely-close values are counted, not alarmed), predictions and "
    "`classes_` equal after re-encoding, no exception under one encoding only. non-trivial = labeled and unlabeled "
    "samples both present and >= 2 classes among the labels; distinct = distinct (configuration, data set) pairs"
)
ASSUMPTIONS = [
    "labels reach the Lean model as kind tags and order-preserving integer codes computed by the harness per case (see c16.py)",
    "the Lean theorems are about the encoding algebra (ExtLabelEncoder, is_unlabeled, decode, cost-matrix permutation) only; "
    "that a strategy / classifier factors through that algebra is established per class by paired real runs, not proved",
    "strategies whose clustering is not seeded by the strategy (TypiClust, ProbCover, Clue, DropQuery) are given "
    "cluster_algo_dict={'random_state': 0, 'n_init': 1}; every model gets a fixed integer random_state",
    "relabelings tried are the strictly increasing ones 0,1,2 -> 10,20,30 -> 'a','b','c'; sentinels NaN, -1, 'nan', None "
    "(regression: NaN, -1000.0, None)",
    "configurations that are not reproducible under the same encoding (E0 run twice) are skipped and counted",
]
TRUSTED = [
    "numpy dtype inference for str / object label arrays; sklearn estimators are deterministic given random_state",
    "the harness passes classes / missing_label to every sub-model (checked by construction in `EncCtx.clf`)",
]

CLOSE_RTOL, CLOSE_ATOL = 1e-9, 1e-12


# ---------------------------------------------------------------------------------------------
# encodings

class Enc:
    def __init__(self, name, base, ml, dtype, sentinel):
        self.name, self.base, self.ml, self.dtype, self.sentinel = name, base, ml, dtype, sentinel

    def classes(self, K):
        return list(self.base[:K])

    def y(self, yi):
        """encode an int index array (-1 = missing) of any shape"""
        yi = np.asarray(yi)
        out = np.empty(yi.shape, dtype=object)
        for pos in np.ndindex(yi.shape):
            out[pos] = self.ml if yi[pos] < 0 else self.base[int(yi[pos])]
        if self.dtype is object:
            return out
        if self.dtype is str:
            return np.array(out.tolist(), dtype=str)
        return np.array(out.tolist(), dtype=self.dtype)

    def is_missing(self, v):
        if self.ml is None:
            return v is None
        if isinstance(self.ml, float) and self.ml != self.ml:
            try:
                return bool(np.isnan(v))
            except TypeError:
                return False
        return v == self.ml

    def dec(self, vals):
        """decode label values to class indices (-1 missing, -9 not a member of classes)"""
        vals = np.asarray(vals)
        out = np.full(vals.shape, -9, dtype=int)
        for pos in np.ndindex(vals.shape):
            v = vals[pos]
            if self.is_missing(v):
                out[pos] = -1
                continue
            for i, c in enumerate(self.base):
                try:
                    if v == c:
                        out[pos] = i
                        break
                except Exception:
                    pass
        return out


ENC = {
    "E0": Enc("E0", [0, 1, 2], np.nan, float, "nan-sentinel"),
    "E1": Enc("E1", [10, 20, 30], -1, int, "numeric-sentinel"),
    "E2": Enc("E2", ["a", "b", "c"], "nan", str, "string-sentinel"),
    "E3": Enc("E3", ["a", "b", "c"], None, object, "none-sentinel"),
    # class names of different lengths ('c1' < 'c10' < 'c2' is an order-preserving renaming of 0 < 1 < 2): string arrays built
    # from single labels then differ in item size (seed R7C09)
    "E4": Enc("E4", ["c1", "c10", "c2"], "?", str, "string-sentinel"),
}
CLF_ENCS = ["E0", "E1", "E2", "E3"]


class RegEnc:
    """sentinel-only encodings of a continuous target"""

    def __init__(self, name, ml, dtype, sentinel):
        self.name, self.ml, self.dtype, self.sentinel = name, ml, dtype, sentinel

    def y(self, t, mask):
        if self.dtype is object:
            out = np.empty(len(t), dtype=object)
            for i in range(len(t)):
                out[i] = float(t[i]) if mask[i] else None
            return out
        out = np.array(t, dtype=float)
        out[~mask] = self.ml
        return out


RENC = {
    "R0": RegEnc("R0", np.nan, float, "nan-sentinel"),
    "R1": RegEnc("R1", -1000.0, float, "numeric-sentinel"),
    "R2": RegEnc("R2", None, object, "none-sentinel"),
}
REG_ENCS = ["R0", "R1", "R2"]


# ---------------------------------------------------------------------------------------------
# data sets (fully determined by (seed, kind))

class DS:
    pass


DS_KINDS = ["c3", "c2", "c3abs", "c3few", "c3cold"]


def make_ds(seed, kind, nmax=30):
    """12-30 samples, 2 features. kind: c3 (3 classes), c2 (2 classes), c3abs (3 classes declared, one absent
    from the labels), c3few (3 classes, exactly one label per class), c3cold (no label at all)."""
    rs = np.random.RandomState(seed % (2**31))
    d = DS()
    d.seed, d.kind, d.nmax = int(seed), kind, int(nmax)
    K = 2 if kind == "c2" else 3
    n = int(rs.randint(12, nmax + 1))
    centers = rs.uniform(-2.0, 2.0, size=(K, 2))
    t = np.arange(n) % K
    rs.shuffle(t)
    X = centers[t] + 0.8 * rs.randn(n, 2)
    X = np.round(X, 3)
    mask = np.zeros(n, dtype=bool)
    present = list(range(K))
    if kind == "c3abs":
        present = sorted(rs.choice(K, size=2, replace=False).tolist())
    per = 1 if kind == "c3few" else int(rs.randint(2, 4))
    if kind == "c3cold":
        present = []
    for c in present:
        idx = np.flatnonzero(t == c)
        mask[rs.choice(idx, size=min(per, len(idx)), replace=False)] = True
    if kind not in ("c3few",):
        extra = rs.rand(n) < 0.15
        extra &= np.isin(t, present)
        mask |= extra
    # keep at least 4 unlabeled samples
    lab = np.flatnonzero(mask)
    while n - mask.sum() < 4 and len(lab):
        mask[lab[-1]] = False
        lab = lab[:-1]
    yi = np.where(mask, t, -1)
    # label noise on one labeled sample (when that keeps all present classes)
    d.n, d.K, d.X, d.t, d.mask, d.yi = n, K, X, t, mask, yi
    d.Xt = np.round(rs.uniform(-3, 3, size=(7, 2)), 3)
    d.Xc = np.round(rs.uniform(-3, 3, size=(5, 2)), 3)       # candidates given as samples
    d.w = np.round(rs.uniform(0.5, 2.0, size=n), 2)          # sample weights
    # three annotators
    A = 3
    yma = np.full((n, A), -1, dtype=int)
    for a in range(A):
        sel = rs.rand(n) < 0.45
        lab_a = t.copy()
        flip = rs.rand(n) < 0.2
        lab_a[flip] = rs.randint(0, K, size=int(flip.sum()))
        yma[sel, a] = lab_a[sel]
    for c in range(K):                                     # every class seen by annotators 0 and 1
        i = np.flatnonzero(t == c)[0]
        yma[i, 0] = c
        yma[i, 1] = c
    if kind == "c3cold":
        yma[:] = -1
    free = np.flatnonzero(~mask)[:3]
    yma[free] = -1                                         # some samples without any label
    d.yma = yma
    # continuous target
    d.treg = np.round(X[:, 0] + 0.5 * X[:, 1] ** 2 + 0.1 * rs.randn(n), 3)
    d.cost = (np.array([[0, 1, 2], [3, 0, 1], [1, 2, 0]], dtype=float))[:K, :K]
    lbl = yi[mask]
    d.nontrivial = bool(mask.any() and (~mask).any() and len(set(lbl.tolist())) >= 2)
    d.all_present = len(set(lbl.tolist())) == K
    return d


def ds_desc(d):
    return dict(ds_seed=d.seed, ds_kind=d.kind, ds_nmax=d.nmax, n=d.n, K=d.K, n_labeled=int(d.mask.sum()))


# ---------------------------------------------------------------------------------------------
# per-encoding context handed to a configuration's run function

class EncCtx:
    def __init__(self, enc, ds):
        self.enc, self.ds = enc, ds
        self.K = ds.K
        self.ml = enc.ml
        if isinstance(enc, Enc):
            self.classes = enc.classes(ds.K)
            self.y = enc.y(ds.yi)
            self.yma = enc.y(ds.yma)
        else:
            self.classes = None
            self.y = enc.y(ds.treg, ds.mask)
        self.X = ds.X.copy()

    # classifiers -----------------------------------------------------------------------------
    def clf(self, kind="pwc", classes=True, cost=False, **kw):
        from skactiveml.classifier import (
            MixtureModelClassifier,
            ParzenWindowClassifier,
            SklearnClassifier,
            SlidingWindowClassifier,
        )

        common = dict(classes=self.classes if classes else None, missing_label=self.ml, random_state=0)
        if cost:
            common["cost_matrix"] = self.ds.cost
        if kind == "pwc":
            return ParzenWindowClassifier(**common, **kw)
        if kind == "pwc-gamma-mean":
            return ParzenWindowClassifier(metric_dict={"gamma": "mean"}, **common)
        if kind == "pwc-knn":
            return ParzenWindowClassifier(n_neighbors=3, class_prior=0.5, **common)
        if kind == "mmc":
            from sklearn.mixture import BayesianGaussianMixture

            return MixtureModelClassifier(
                mixture_model=BayesianGaussianMixture(n_components=2, random_state=0), **common, **kw
            )
        if kind == "mmc-default":
            return MixtureModelClassifier(**common, **kw)
        if kind == "mmc-sim":
            from sklearn.mixture import GaussianMixture

            return MixtureModelClassifier(
                mixture_model=GaussianMixture(n_components=2, random_state=0), weight_mode="similarities",
                class_prior=1.0, **common
            )
        if kind in SK_EST:
            return SklearnClassifier(SK_EST[kind](), **common, **kw)
        if kind.startswith("sw-"):
            inner = self.clf(kind[3:], classes=classes, cost=cost)
            return SlidingWindowClassifier(inner, **common, **kw)
        raise KeyError(kind)

    def ensemble(self, kind="bag"):
        if kind == "bag":
            return self.clf("bag")
        if kind == "rf":
            return self.clf("rf")
        if kind == "clfs":
            return [self.clf("pwc"), self.clf("gnb"), self.clf("tree")]
        raise KeyError(kind)

    def reg(self, kind="nic"):
        from skactiveml.regressor import NICKernelRegressor, SklearnNormalRegressor, SklearnRegressor

        if kind == "nic":
            return NICKernelRegressor(missing_label=self.ml, random_state=0)
        if kind == "lin":
            from sklearn.linear_model import LinearRegression

            return SklearnRegressor(LinearRegression(), missing_label=self.ml, random_state=0)
        if kind == "tree":
            from sklearn.tree import DecisionTreeRegressor

            return SklearnRegressor(
                DecisionTreeRegressor(min_samples_leaf=2, random_state=0), missing_label=self.ml, random_state=0
            )
        if kind == "gp":
            from sklearn.gaussian_process import GaussianProcessRegressor

            return SklearnNormalRegressor(GaussianProcessRegressor(random_state=0), missing_label=self.ml, random_state=0)
        if kind == "bagreg":
            from sklearn.ensemble import BaggingRegressor
            from sklearn.linear_model import LinearRegression

            return SklearnRegressor(
                BaggingRegressor(LinearRegression(), n_estimators=3, random_state=0), missing_label=self.ml, random_state=0
            )
        raise KeyError(kind)


def _sk(name):
    def mk():
        if name == "gnb":
            from sklearn.naive_bayes import GaussianNB

            return GaussianNB()
        if name == "lr":
            from sklearn.linear_model import LogisticRegression

            return LogisticRegression(random_state=0)
        if name == "tree":
            from sklearn.tree import DecisionTreeClassifier

            return DecisionTreeClassifier(random_state=0, max_depth=3)
        if name == "rf":
            from sklearn.ensemble import RandomForestClassifier

            return RandomForestClassifier(n_estimators=4, max_depth=3, random_state=0)
        if name == "bag":
            from sklearn.ensemble import BaggingClassifier
            from sklearn.naive_bayes import GaussianNB

            return BaggingClassifier(GaussianNB(), n_estimators=3, random_state=0)
        if name == "sgd":
            from sklearn.linear_model import SGDClassifier

            return SGDClassifier(loss="log_loss", random_state=0, max_iter=20, tol=None)
        if name == "perceptron":
            from sklearn.linear_model import Perceptron

            return Perceptron(random_state=0, max_iter=20, tol=None)
        raise KeyError(name)

    return mk


SK_EST = {k: _sk(k) for k in ["gnb", "lr", "tree", "rf", "bag", "sgd", "perceptron"]}


# ---------------------------------------------------------------------------------------------
# configurations

class Cfg:
    def __init__(self, name, cls, meth, run, group="clf", kinds=("c3", "c2"), tag="", encs=None, need_all=False, heavy=False, nmax=30):
        self.name, self.cls, self.meth, self.run = name, cls, meth, run
        self.group, self.kinds, self.tag, self.need_all, self.heavy, self.nmax = group, kinds, tag, need_all, heavy, nmax
        self.encs = encs or (REG_ENCS if group == "reg" else CLF_ENCS)


CONFIGS = []


def add(*a, **k):
    CONFIGS.append(Cfg(*a, **k))


# -- classifiers ----------------------------------------------------------------------------------

def run_clf(kind, classes=True, cost=False, weights=False, partial=False, **kw):
    def run(e):
        c = e.clf(kind, classes=classes, cost=cost, **kw)
        sw = e.ds.w if weights else None
        if partial:
            h = e.ds.n // 2
            c.partial_fit(e.X[:h], e.y[:h], None if sw is None else sw[:h])
            c.partial_fit(e.X[h:], e.y[h:], None if sw is None else sw[h:])
        elif sw is None:
            c.fit(e.X, e.y)
        else:
            c.fit(e.X, e.y, sw)
        out = {"proba": c.predict_proba(e.ds.Xt), "pred": c.predict(e.ds.Xt), "classes_": np.asarray(c.classes_)}
        if hasattr(c, "predict_freq"):
            try:
                out["util_freq"] = c.predict_freq(e.ds.Xt)
            except AttributeError:
                pass
        return out

    return run


ALLK = ("c3", "c2", "c3abs", "c3few")
for kind, cname in [
    ("pwc", "ParzenWindowClassifier"),
    ("pwc-gamma-mean", "ParzenWindowClassifier"),
    ("pwc-knn", "ParzenWindowClassifier"),
    ("mmc", "MixtureModelClassifier"),
    ("mmc-default", "MixtureModelClassifier"),
    ("mmc-sim", "MixtureModelClassifier"),
    ("gnb", "SklearnClassifier"),
    ("lr", "SklearnClassifier"),
    ("tree", "SklearnClassifier"),
    ("rf", "SklearnClassifier"),
    ("sw-pwc", "SlidingWindowClassifier"),
    ("sw-gnb", "SlidingWindowClassifier"),
]:
    add(f"{kind}", cname, "fit", run_clf(kind), kinds=ALLK)
    add(f"{kind}/cost", cname, "fit", run_clf(kind, cost=True), kinds=ALLK, tag="cost_matrix")
    add(f"{kind}/classes=None", cname, "fit", run_clf(kind, classes=False), kinds=("c3", "c2", "c3few"), need_all=True, tag="classes-None")
    add(f"{kind}/weights", cname, "fit", run_clf(kind, weights=True), kinds=("c3", "c2"))
add("sgd/partial_fit", "SklearnClassifier", "partial_fit", run_clf("sgd", partial=True))
add("gnb/partial_fit", "SklearnClassifier", "partial_fit", run_clf("gnb", partial=True))
add("perceptron/no-proba", "SklearnClassifier", "fit", lambda e: (lambda c: {"pred": c.fit(e.X, e.y).predict(e.ds.Xt), "classes_": np.asarray(c.classes_)})(e.clf("perceptron")))
add("sw-gnb/window+only_labeled", "SlidingWindowClassifier", "partial_fit", run_clf("sw-gnb", partial=True, window_size=10, only_labeled=True))
add("sw-pwc/window", "SlidingWindowClassifier", "partial_fit", run_clf("sw-pwc", partial=True, window_size=8))


def run_sw_stream(kind, window_size):
    """the stream loop: fit on the first samples, then one partial_fit per arriving sample with arrays built from that sample
    alone (their dtype follows their own content); the samples of the middle class arrive last, when the window is full"""
    def run(e):
        c = e.clf(kind, window_size=window_size)
        order = sorted(range(e.ds.n), key=lambda i: (int(e.ds.yi[i]) == 1, i))
        first = order[:2]
        c.fit(e.X[first], np.array([e.y[i] for i in first], dtype=e.y.dtype if e.y.dtype == object else None))
        for i in order[2:]:
            yi = np.empty(1, dtype=object) if e.y.dtype == object else None
            if yi is None:
                yi = np.array([e.y[i]])
            else:
                yi[0] = e.y[i]
            c.partial_fit(e.X[i:i + 1], yi)
        return {"proba": c.predict_proba(e.ds.Xt), "pred": c.predict(e.ds.Xt), "classes_": np.asarray(c.classes_)}

    return run


add("sw-pwc/stream-loop", "SlidingWindowClassifier", "partial_fit", run_sw_stream("sw-pwc", 4), encs=("E0", "E1", "E2", "E3", "E4"))
add("sw-gnb/stream-loop", "SlidingWindowClassifier", "partial_fit", run_sw_stream("sw-gnb", 5), encs=("E0", "E2", "E4"))
add("pwc/string-lengths", "ParzenWindowClassifier", "fit", run_clf("pwc"), encs=("E0", "E4"))
add("gnb/partial_fit/string-lengths", "SklearnClassifier", "partial_fit", run_clf("gnb", partial=True), encs=("E0", "E4"))


def run_maclf(which, classes=True, cost=False, voting="hard", member_classes=False):
    def run(e):
        from skactiveml.classifier.multiannotator import AnnotatorEnsembleClassifier, AnnotatorLogisticRegression

        common = dict(classes=e.classes if classes else None, missing_label=e.ml, random_state=0)
        if cost:
            common["cost_matrix"] = e.ds.cost
        if which == "alr":
            c = AnnotatorLogisticRegression(max_iter=20, **common)
        else:
            ests = [(f"a{a}", e.clf(k, classes=member_classes)) for a, k in enumerate(["pwc", "gnb", "pwc"])]
            c = AnnotatorEnsembleClassifier(estimators=ests, voting=voting, **common)
        c.fit(e.X, e.yma)
        out = {"proba": c.predict_proba(e.ds.Xt), "pred": c.predict(e.ds.Xt), "classes_": np.asarray(c.classes_)}
        if hasattr(c, "predict_annotator_perf"):
            out["util_annot_perf"] = c.predict_annotator_perf(e.ds.Xt)
        return out

    return run


add("alr", "AnnotatorLogisticRegression", "fit", run_maclf("alr"), group="maclf")
add("alr/cost", "AnnotatorLogisticRegression", "fit", run_maclf("alr", cost=True), group="maclf", tag="cost_matrix")
add("alr/classes=None", "AnnotatorLogisticRegression", "fit", run_maclf("alr", classes=False), group="maclf", tag="classes-None")
# AnnotatorEnsembleClassifier: members without `classes` (they get arange(K) in fit) ...
add("aec/hard", "AnnotatorEnsembleClassifier", "predict_proba", run_maclf("aec"), group="maclf", tag="hard-voting")
add("aec/hard-cost", "AnnotatorEnsembleClassifier", "predict_proba", run_maclf("aec", cost=True), group="maclf", tag="hard-voting")
add("aec/hard-classes=None", "AnnotatorEnsembleClassifier", "predict_proba", run_maclf("aec", classes=False), group="maclf", tag="hard-voting")
add("aec/soft", "AnnotatorEnsembleClassifier", "fit", run_maclf("aec", voting="soft"), group="maclf")
add("aec/soft-cost", "AnnotatorEnsembleClassifier", "fit", run_maclf("aec", voting="soft", cost=True), group="maclf", tag="cost_matrix")
add("aec/soft-classes=None", "AnnotatorEnsembleClassifier", "fit", run_maclf("aec", voting="soft", classes=False), group="maclf", tag="classes-None")
# ... and members that carry the same `classes` as the ensemble (the configuration `_validate_estimators` asks for)
add("aec/soft-member-classes", "AnnotatorEnsembleClassifier", "fit", run_maclf("aec", voting="soft", member_classes=True), group="maclf", tag="member-classes")


def run_ieam(mode):
    def run(e):
        from skactiveml.pool.multiannotator import IntervalEstimationAnnotModel

        m = IntervalEstimationAnnotModel(classes=e.classes, missing_label=e.ml, mode=mode, random_state=0)
        m.fit(e.X, e.yma)
        return {"util_annot_perf": m.predict_annotator_perf(e.ds.Xt)}

    return run


for mode in ["upper", "lower", "mean"]:
    add(f"ieam/{mode}", "IntervalEstimationAnnotModel", "fit", run_ieam(mode), group="maclf")


# -- pool strategies ----------------------------------------------------------------------------------

def run_pool(make, bs=2, cand=None, **qk):
    """make(e) -> (query strategy, dict of extra query kwargs)"""

    def run(e):
        qs, kw = make(e)
        kw = dict(kw)
        kw.update(qk)
        if cand == "idx":
            kw["candidates"] = np.flatnonzero(~e.ds.mask)[::2]
        elif cand == "X":
            kw["candidates"] = e.ds.Xc
        idx, u = qs.query(e.X, e.y, batch_size=bs, return_utilities=True, **kw)
        return {"idx": np.asarray(idx), "util": np.asarray(u, dtype=float)}

    return run


def P():
    import skactiveml.pool as p

    return p


CL = {"random_state": 0, "n_init": 1}


def pool(name, cls, make, kinds=("c3", "c2", "c3abs"), tag="", bs=2, cand=None, heavy=False, nmax=30, **qk):
    add(name, cls, "query", run_pool(make, bs=bs, cand=cand, **qk), group="pool", kinds=kinds, tag=tag, heavy=heavy, nmax=nmax)


pool("RandomSampling", "RandomSampling", lambda e: (P().RandomSampling(missing_label=e.ml, random_state=0), {}))
pool("ProbabilisticAL", "ProbabilisticAL", lambda e: (P().ProbabilisticAL(missing_label=e.ml, random_state=0), {"clf": e.clf("pwc")}))
pool("ProbabilisticAL/m2-weights", "ProbabilisticAL", lambda e: (P().ProbabilisticAL(prior=0.5, m_max=2, missing_label=e.ml, random_state=0), {"clf": e.clf("pwc"), "sample_weight": e.ds.w, "utility_weight": e.ds.w}))
pool("ProbabilisticAL/candX", "ProbabilisticAL", lambda e: (P().ProbabilisticAL(missing_label=e.ml, random_state=0), {"clf": e.clf("pwc")}), cand="X", tag="candidates-2d")
for m in ["least_confident", "margin_sampling", "entropy", "expected_average_precision"]:
    pool(f"UncertaintySampling/{m}", "UncertaintySampling", lambda e, m=m: (P().UncertaintySampling(method=m, missing_label=e.ml, random_state=0), {"clf": e.clf("pwc")}))
pool("UncertaintySampling/gnb-entropy", "UncertaintySampling", lambda e: (P().UncertaintySampling(method="entropy", missing_label=e.ml, random_state=0), {"clf": e.clf("gnb")}))
pool("UncertaintySampling/lr-margin-nofit", "UncertaintySampling", lambda e: (P().UncertaintySampling(method="margin_sampling", missing_label=e.ml, random_state=0), {"clf": e.clf("lr").fit(e.X, e.y), "fit_clf": False}))
pool("UncertaintySampling/cost-lc", "UncertaintySampling", lambda e: (P().UncertaintySampling(method="least_confident", cost_matrix=e.ds.cost, missing_label=e.ml, random_state=0), {"clf": e.clf("pwc")}), tag="cost_matrix")
pool("UncertaintySampling/cost-margin", "UncertaintySampling", lambda e: (P().UncertaintySampling(method="margin_sampling", cost_matrix=e.ds.cost, missing_label=e.ml, random_state=0), {"clf": e.clf("pwc")}), tag="cost_matrix")
pool("UncertaintySampling/cand-idx", "UncertaintySampling", lambda e: (P().UncertaintySampling(missing_label=e.ml, random_state=0), {"clf": e.clf("pwc")}), cand="idx")
pool("UncertaintySampling/candX", "UncertaintySampling", lambda e: (P().UncertaintySampling(missing_label=e.ml, random_state=0), {"clf": e.clf("pwc")}), cand="X", tag="candidates-2d")
pool("EpistemicUncertaintySampling/pwc", "EpistemicUncertaintySampling", lambda e: (P().EpistemicUncertaintySampling(missing_label=e.ml, random_state=0), {"clf": e.clf("pwc")}), kinds=("c2",))
pool("EpistemicUncertaintySampling/pwc-precompute", "EpistemicUncertaintySampling", lambda e: (P().EpistemicUncertaintySampling(precompute=True, missing_label=e.ml, random_state=0), {"clf": e.clf("pwc")}), kinds=("c2",))
pool("EpistemicUncertaintySampling/lr", "EpistemicUncertaintySampling", lambda e: (P().EpistemicUncertaintySampling(missing_label=e.ml, random_state=0), {"clf": e.clf("lr")}), kinds=("c2",), heavy=True, tag="LogisticRegression")
for nm, kw in [
    ("misclassification_loss", dict()),
    ("log_loss", dict(method="log_loss")),
    ("cost", dict(cost_matrix="COST")),
    ("subtract_current", dict(subtract_current=True)),
]:
    pool(
        f"MonteCarloEER/{nm}", "MonteCarloEER",
        lambda e, kw=kw: (P().MonteCarloEER(missing_label=e.ml, random_state=0, **{k: (e.ds.cost if v == "COST" else v) for k, v in kw.items()}), {"clf": e.clf("pwc")}),
        tag=nm if nm in ("subtract_current",) else "", nmax=16, heavy=nm in ("log_loss", "cost"),
    )
pool("MonteCarloEER/candX", "MonteCarloEER", lambda e: (P().MonteCarloEER(missing_label=e.ml, random_state=0), {"clf": e.clf("pwc")}), cand="X", tag="candidates-2d", nmax=16)
pool("MonteCarloEER/X_eval", "MonteCarloEER", lambda e: (P().MonteCarloEER(missing_label=e.ml, random_state=0), {"clf": e.clf("pwc"), "X_eval": e.ds.Xt}), tag="X_eval", nmax=16)
pool("MonteCarloEER/X_eval-subtract_current", "MonteCarloEER", lambda e: (P().MonteCarloEER(subtract_current=True, missing_label=e.ml, random_state=0), {"clf": e.clf("pwc"), "X_eval": e.ds.Xt}), tag="X_eval", nmax=16)
pool("MonteCarloEER/gnb-weights", "MonteCarloEER", lambda e: (P().MonteCarloEER(missing_label=e.ml, random_state=0), {"clf": e.clf("gnb"), "sample_weight": e.ds.w, "ignore_partial_fit": False}), nmax=14, heavy=True)
for nm, kw in [
    ("default", dict()),
    ("no-unlabeled", dict(consider_unlabeled=False)),
    ("no-labeled", dict(consider_labeled=False)),
    ("no-cand-to-labeled", dict(candidate_to_labeled=False)),
    ("normalize", dict(normalize=True)),
    ("cost", dict(cost_matrix="COST")),
    ("subtract_current", dict(subtract_current=True)),
    ("subtract_current-normalize", dict(subtract_current=True, normalize=True)),
    ("subtract_current-no-unlabeled", dict(subtract_current=True, consider_unlabeled=False)),
]:
    pool(
        f"ValueOfInformationEER/{nm}", "ValueOfInformationEER",
        lambda e, kw=kw: (P().ValueOfInformationEER(missing_label=e.ml, random_state=0, **{k: (e.ds.cost if v == "COST" else v) for k, v in kw.items()}), {"clf": e.clf("pwc")}),
        tag="subtract_current" if "subtract_current" in kw else "", nmax=16, heavy=nm not in ("default", "subtract_current"),
    )
pool("ValueOfInformationEER/gnb-cand-idx", "ValueOfInformationEER", lambda e: (P().ValueOfInformationEER(missing_label=e.ml, random_state=0), {"clf": e.clf("gnb")}), cand="idx", nmax=16, heavy=True)
for m in ["KL_divergence", "vote_entropy", "variation_ratios"]:
    pool(f"QueryByCommittee/{m}-bag", "QueryByCommittee", lambda e, m=m: (P().QueryByCommittee(method=m, missing_label=e.ml, random_state=0), {"ensemble": e.ensemble("bag")}), tag=f"sklearn-ensemble-{m}")
    pool(f"QueryByCommittee/{m}-clfs", "QueryByCommittee", lambda e, m=m: (P().QueryByCommittee(method=m, missing_label=e.ml, random_state=0), {"ensemble": e.ensemble("clfs")}), tag=f"clf-list-{m}")
for m in ["KL_divergence", "vote_entropy", "variation_ratios"]:
    # committee members simulated by sampling class-probability vectors from one probabilistic classifier
    pool(f"QueryByCommittee/{m}-sampled", "QueryByCommittee",
         lambda e, m=m: (P().QueryByCommittee(method=m, sample_predictions_method_name="sample_proba", sample_predictions_dict={"n_samples": 5},
                                              missing_label=e.ml, random_state=0), {"ensemble": e.clf("pwc")}), tag=f"sampled-predictions-{m}")
pool("Quire", "Quire", lambda e: (P().Quire(classes=e.classes, missing_label=e.ml, random_state=0), {}))
pool("Quire/cand-idx", "Quire", lambda e: (P().Quire(classes=e.classes, lmbda=0.5, metric_dict={"gamma": 0.5}, missing_label=e.ml, random_state=0), {}), cand="idx")
pool("FourDs", "FourDs", lambda e: (P().FourDs(missing_label=e.ml, random_state=0), {"clf": e.clf("mmc")}))
pool("FourDs/lmbda-weights", "FourDs", lambda e: (P().FourDs(lmbda=0.3, missing_label=e.ml, random_state=0), {"clf": e.clf("mmc"), "sample_weight": e.ds.w}), bs=3)
pool("CostEmbeddingAL", "CostEmbeddingAL", lambda e: (P().CostEmbeddingAL(classes=e.classes, missing_label=e.ml, random_state=0), {}), heavy=True)
pool("CostEmbeddingAL/cost", "CostEmbeddingAL", lambda e: (P().CostEmbeddingAL(classes=e.classes, cost_matrix=e.ds.cost, missing_label=e.ml, random_state=0), {}), tag="cost_matrix", heavy=True)
pool("DiscriminativeAL", "DiscriminativeAL", lambda e: (P().DiscriminativeAL(missing_label=e.ml, random_state=0), {"discriminator": e.clf("pwc")}))
pool("DiscriminativeAL/greedy", "DiscriminativeAL", lambda e: (P().DiscriminativeAL(greedy_selection=True, missing_label=e.ml, random_state=0), {"discriminator": e.clf("gnb")}))
pool("BatchBALD/bag", "BatchBALD", lambda e: (P().BatchBALD(missing_label=e.ml, random_state=0), {"ensemble": e.ensemble("bag")}), tag="sklearn-ensemble")
pool("BatchBALD/clfs-mc", "BatchBALD", lambda e: (P().BatchBALD(n_MC_samples=8, missing_label=e.ml, random_state=0), {"ensemble": e.ensemble("clfs")}))
pool("GreedyBALD/bag", "GreedyBALD", lambda e: (P().GreedyBALD(missing_label=e.ml, random_state=0), {"ensemble": e.ensemble("bag")}), tag="sklearn-ensemble")
pool("GreedyBALD/clfs", "GreedyBALD", lambda e: (P().GreedyBALD(missing_label=e.ml, random_state=0), {"ensemble": e.ensemble("clfs")}))
pool("Clue", "Clue", lambda e: (P().Clue(cluster_algo_dict=dict(CL), missing_label=e.ml, random_state=0), {"clf": e.clf("pwc")}))
pool("Clue/margin", "Clue", lambda e: (P().Clue(cluster_algo_dict=dict(CL), method="margin_sampling", missing_label=e.ml, random_state=0), {"clf": e.clf("gnb")}))
pool("DropQuery", "DropQuery", lambda e: (P().DropQuery(cluster_algo_dict=dict(CL), missing_label=e.ml, random_state=0), {"clf": e.clf("pwc")}))
pool("CoreSet", "CoreSet", lambda e: (P().CoreSet(missing_label=e.ml, random_state=0), {}))
pool("CoreSet/candX", "CoreSet", lambda e: (P().CoreSet(missing_label=e.ml, random_state=0), {}), cand="X", tag="candidates-2d")
pool("TypiClust", "TypiClust", lambda e: (P().TypiClust(cluster_algo_dict=dict(CL), k=3, missing_label=e.ml, random_state=0), {}))
pool("Badge", "Badge", lambda e: (P().Badge(missing_label=e.ml, random_state=0), {"clf": e.clf("pwc")}))
pool("Badge/lr", "Badge", lambda e: (P().Badge(missing_label=e.ml, random_state=0), {"clf": e.clf("lr")}))
pool("ProbCover", "ProbCover", lambda e: (P().ProbCover(cluster_algo_dict=dict(CL), missing_label=e.ml, random_state=0), {}))
# index candidates that are a proper subset of the unlabeled samples: what a strategy infers from the *other* samples (number of
# classes, clusters, labeled set) must not depend on how "missing" is written (seed R9C09)
pool("ProbCover/cand-idx", "ProbCover", lambda e: (P().ProbCover(cluster_algo_dict=dict(CL), missing_label=e.ml, random_state=0), {}), cand="idx")
pool("TypiClust/cand-idx", "TypiClust", lambda e: (P().TypiClust(cluster_algo_dict=dict(CL), k=3, missing_label=e.ml, random_state=0), {}), cand="idx")
pool("CoreSet/cand-idx", "CoreSet", lambda e: (P().CoreSet(missing_label=e.ml, random_state=0), {}), cand="idx")
pool("Badge/cand-idx", "Badge", lambda e: (P().Badge(missing_label=e.ml, random_state=0), {"clf": e.clf("pwc")}), cand="idx")
pool("Clue/cand-idx", "Clue", lambda e: (P().Clue(cluster_algo_dict=dict(CL), missing_label=e.ml, random_state=0), {"clf": e.clf("pwc")}), cand="idx")
pool("ProbCover/n_classes", "ProbCover", lambda e: (P().ProbCover(n_classes=e.K, cluster_algo_dict=dict(CL), missing_label=e.ml, random_state=0), {}))
pool("ContrastiveAL", "ContrastiveAL", lambda e: (P().ContrastiveAL(nearest_neighbors_dict={"n_neighbors": 2}, missing_label=e.ml, random_state=0), {"clf": e.clf("pwc")}))
pool("Falcun", "Falcun", lambda e: (P().Falcun(missing_label=e.ml, random_state=0), {"clf": e.clf("pwc")}))
pool("Falcun/gnb-gamma1", "Falcun", lambda e: (P().Falcun(gamma=1, missing_label=e.ml, random_state=0), {"clf": e.clf("gnb")}), bs=3)
pool("SubSamplingWrapper/US", "SubSamplingWrapper", lambda e: (P().SubSamplingWrapper(query_strategy=P().UncertaintySampling(missing_label=e.ml, random_state=0), max_candidates=0.5, missing_label=e.ml, random_state=0), {"clf": e.clf("pwc")}))
pool("SubSamplingWrapper/US-exclude", "SubSamplingWrapper", lambda e: (P().SubSamplingWrapper(query_strategy=P().UncertaintySampling(method="entropy", missing_label=e.ml, random_state=0), max_candidates=4, exclude_non_subsample=True, missing_label=e.ml, random_state=0), {"clf": e.clf("pwc")}))
pool("ParallelUtilityEstimationWrapper/US", "ParallelUtilityEstimationWrapper", lambda e: (P().ParallelUtilityEstimationWrapper(query_strategy=P().UncertaintySampling(missing_label=e.ml, random_state=0), n_jobs=1, missing_label=e.ml, random_state=0), {"clf": e.clf("pwc")}), bs=1)
pool("GreedySamplingX/class-labels", "GreedySamplingX", lambda e: (P().GreedySamplingX(missing_label=e.ml, random_state=0), {}))
pool("GreedySamplingX/class-labels-candX", "GreedySamplingX", lambda e: (P().GreedySamplingX(missing_label=e.ml, random_state=0), {}), cand="X", tag="candidates-2d")


# -- multi-annotator pool strategies ---------------------------------------------------------------------

def run_mapool(make, bs=2, **qk):
    def run(e):
        qs, kw = make(e)
        kw = dict(kw)
        kw.update(qk)
        idx, u = qs.query(e.X, e.yma, batch_size=bs, return_utilities=True, **kw)
        return {"idx": np.asarray(idx), "util": np.asarray(u, dtype=float)}

    return run


def PM():
    import skactiveml.pool.multiannotator as pm

    return pm


def aec(e):
    from skactiveml.classifier.multiannotator import AnnotatorEnsembleClassifier

    ests = [(f"a{a}", e.clf(k, classes=False)) for a, k in enumerate(["pwc", "gnb", "pwc"])]
    return AnnotatorEnsembleClassifier(estimators=ests, voting="soft", classes=e.classes, missing_label=e.ml, random_state=0)


def mv(e):
    """majority vote that is told the sentinel (the wrapper's default aggregation is not)"""
    from skactiveml.utils import majority_vote

    return lambda y: majority_vote(y, classes=e.classes, missing_label=e.ml, random_state=0)


def mapool(name, cls, make, tag="", bs=2, heavy=False, encs=None, **qk):
    add(name, cls, "query", run_mapool(make, bs=bs, **qk), group="mapool", kinds=("c3", "c2"), tag=tag, heavy=heavy, encs=encs)


mapool("SingleAnnotatorWrapper/Random", "SingleAnnotatorWrapper", lambda e: (PM().SingleAnnotatorWrapper(P().RandomSampling(missing_label=e.ml, random_state=0), missing_label=e.ml, random_state=0), {}), tag="default-y_aggregate", encs=("E0", "E1"))
mapool("SingleAnnotatorWrapper/US", "SingleAnnotatorWrapper", lambda e: (PM().SingleAnnotatorWrapper(P().UncertaintySampling(missing_label=e.ml, random_state=0), missing_label=e.ml, random_state=0), {"clf": e.clf("pwc"), "n_annotators_per_sample": 2}), tag="default-y_aggregate", encs=("E0", "E1"))
mapool("SingleAnnotatorWrapper/Random-mv", "SingleAnnotatorWrapper", lambda e: (PM().SingleAnnotatorWrapper(P().RandomSampling(missing_label=e.ml, random_state=0), y_aggregate=mv(e), missing_label=e.ml, random_state=0), {}))
mapool("SingleAnnotatorWrapper/US-mv", "SingleAnnotatorWrapper", lambda e: (PM().SingleAnnotatorWrapper(P().UncertaintySampling(missing_label=e.ml, random_state=0), y_aggregate=mv(e), missing_label=e.ml, random_state=0), {"clf": e.clf("pwc"), "n_annotators_per_sample": 2}))
mapool("SingleAnnotatorWrapper/US-mv-A_perf", "SingleAnnotatorWrapper", lambda e: (PM().SingleAnnotatorWrapper(P().UncertaintySampling(method="entropy", missing_label=e.ml, random_state=0), y_aggregate=mv(e), missing_label=e.ml, random_state=0), {"clf": e.clf("gnb"), "A_perf": np.array([0.9, 0.5, 0.7])}))
mapool("IntervalEstimationThreshold/aec", "IntervalEstimationThreshold", lambda e: (PM().IntervalEstimationThreshold(missing_label=e.ml, random_state=0), {"clf": aec(e)}), bs="adaptive")
mapool("IntervalEstimationThreshold/aec-bs2", "IntervalEstimationThreshold", lambda e: (PM().IntervalEstimationThreshold(epsilon=0.5, alpha=0.2, missing_label=e.ml, random_state=0), {"clf": aec(e)}), bs=2)
mapool("IntervalEstimationThreshold/alr", "IntervalEstimationThreshold", lambda e: (PM().IntervalEstimationThreshold(missing_label=e.ml, random_state=0), {"clf": __import__("skactiveml.classifier.multiannotator", fromlist=["x"]).AnnotatorLogisticRegression(max_iter=10, classes=e.classes, missing_label=e.ml, random_state=0)}), bs=2, heavy=True)


# -- stream strategies -----------------------------------------------------------------------------------

def run_stream(make, fit_clf, chunks=((0, 3), (3, 5), (5, 7))):
    """several query rounds with an update in between; candidates = chunks of the test points"""

    def run(e):
        qs, clf, extra = make(e)
        out = {}
        for r, (lo, hi) in enumerate(chunks):
            cand = e.ds.Xt[lo:hi]
            if clf is None:
                idx, u = qs.query(cand, return_utilities=True)
            elif fit_clf:
                idx, u = qs.query(cand, clf=clf, X=e.X, y=e.y, fit_clf=True, return_utilities=True, **extra)
            else:
                if r == 0:
                    clf.fit(e.X, e.y)
                idx, u = qs.query(cand, clf=clf, return_utilities=True, **extra)
            out[f"idx{r}"] = np.asarray(idx)
            out[f"util{r}"] = np.asarray(u, dtype=float)
            if clf is None:
                qs.update(cand, idx)
            else:
                qs.update(cand, idx, budget_manager_param_dict={"utilities": u})
        return out

    return run


def S():
    import skactiveml.stream as s

    return s


def stream(name, make, with_clf=True, tag=""):
    cls = name.split("/")[0]
    if with_clf:
        add(name + "/prefit", cls, "query", run_stream(make, False), group="stream", kinds=("c3", "c2", "c3abs"), tag=tag)
        add(name + "/fit_clf", cls, "query", run_stream(make, True), group="stream", kinds=("c3", "c2"), tag=tag)
    else:
        add(name, cls, "query", run_stream(make, False), group="stream", kinds=("c3",), tag=tag)


stream("StreamRandomSampling", lambda e: (S().StreamRandomSampling(budget=0.5, random_state=0), None, {}), with_clf=False)
stream("PeriodicSampling", lambda e: (S().PeriodicSampling(budget=0.5, random_state=0), None, {}), with_clf=False)
stream("FixedUncertainty", lambda e: (S().FixedUncertainty(classes=e.classes, budget=0.5, random_state=0), e.clf("pwc"), {}))
stream("VariableUncertainty", lambda e: (S().VariableUncertainty(budget=0.5, random_state=0), e.clf("pwc"), {}))
stream("RandomVariableUncertainty", lambda e: (S().RandomVariableUncertainty(budget=0.5, random_state=0), e.clf("pwc"), {}))
stream("Split", lambda e: (S().Split(budget=0.5, random_state=0), e.clf("gnb"), {}))
stream("StreamProbabilisticAL", lambda e: (S().StreamProbabilisticAL(budget=0.5, random_state=0), e.clf("pwc"), {}))
stream("StreamDensityBasedAL", lambda e: (S().StreamDensityBasedAL(budget=0.5, window_size=5, random_state=0), e.clf("pwc"), {}))
stream("CognitiveDualQueryStrategy", lambda e: (S().CognitiveDualQueryStrategy(force_full_budget=True, budget=0.5, cognition_window_size=3, random_state=0), e.clf("pwc"), {}))
stream("CognitiveDualQueryStrategyRan", lambda e: (S().CognitiveDualQueryStrategyRan(force_full_budget=True, budget=0.5, cognition_window_size=3, random_state=0), e.clf("pwc"), {}))
stream("CognitiveDualQueryStrategyRanVarUn", lambda e: (S().CognitiveDualQueryStrategyRanVarUn(force_full_budget=True, budget=0.5, cognition_window_size=3, random_state=0), e.clf("pwc"), {}))
stream("CognitiveDualQueryStrategyVarUn", lambda e: (S().CognitiveDualQueryStrategyVarUn(force_full_budget=True, budget=0.5, cognition_window_size=3, random_state=0), e.clf("gnb"), {}))
stream("CognitiveDualQueryStrategyFixUn", lambda e: (S().CognitiveDualQueryStrategyFixUn(classes=e.classes, force_full_budget=True, budget=0.5, cognition_window_size=3, random_state=0), e.clf("pwc"), {}))


# -- regression strategies (sentinel-only encodings) --------------------------------------------------------

def run_reg(make, bs=2, cand=None, **qk):
    def run(e):
        qs, kw = make(e)
        kw = dict(kw)
        kw.update(qk)
        if cand == "X":
            kw["candidates"] = e.ds.Xc
        elif cand == "idx":
            kw["candidates"] = np.flatnonzero(~e.ds.mask)[::2]
        idx, u = qs.query(e.X, e.y, batch_size=bs, return_utilities=True, **kw)
        return {"idx": np.asarray(idx), "util": np.asarray(u, dtype=float)}

    return run


def regq(name, cls, make, tag="", bs=2, cand=None, heavy=False, encs=None, **qk):
    add(name, cls, "query", run_reg(make, bs=bs, cand=cand, **qk), group="reg", kinds=("c3",), tag=tag, heavy=heavy, encs=encs)


regq("GreedySamplingX/reg", "GreedySamplingX", lambda e: (P().GreedySamplingX(missing_label=e.ml, random_state=0), {}))
regq("GreedySamplingX/reg-candX", "GreedySamplingX", lambda e: (P().GreedySamplingX(missing_label=e.ml, random_state=0), {}), cand="X", tag="candidates-2d")
regq("GreedySamplingTarget/GSi", "GreedySamplingTarget", lambda e: (P().GreedySamplingTarget(method="GSi", missing_label=e.ml, random_state=0), {"reg": e.reg("lin")}))
regq("GreedySamplingTarget/GSy", "GreedySamplingTarget", lambda e: (P().GreedySamplingTarget(method="GSy", missing_label=e.ml, random_state=0), {"reg": e.reg("tree")}))
regq("GreedySamplingTarget/GSi-candX", "GreedySamplingTarget", lambda e: (P().GreedySamplingTarget(method="GSi", missing_label=e.ml, random_state=0), {"reg": e.reg("lin")}), cand="X")
regq("GreedySamplingTarget/GSi-nGSx", "GreedySamplingTarget", lambda e: (P().GreedySamplingTarget(method="GSi", n_GSx_samples=100, missing_label=e.ml, random_state=0), {"reg": e.reg("lin")}))
regq("ExpectedModelChangeMaximization", "ExpectedModelChangeMaximization", lambda e: (P().ExpectedModelChangeMaximization(missing_label=e.ml, random_state=0), {"reg": e.reg("lin")}))
for short, cname in [("ExpectedModelOutputChange", "ExpectedModelOutputChange"), ("ExpectedModelVarianceReduction", "ExpectedModelVarianceReduction"), ("KLDivergenceMaximization", "KLDivergenceMaximization")]:
    regq(f"{short}/nic", cname, lambda e, cname=cname: (getattr(P(), cname)(missing_label=e.ml, random_state=0), {"reg": e.reg("nic")}), tag="NICKernelRegressor")
    regq(f"{short}/gp", cname, lambda e, cname=cname: (getattr(P(), cname)(missing_label=e.ml, random_state=0), {"reg": e.reg("gp")}), tag="SklearnNormalRegressor")
for m in ["random", "diversity", "representativity"]:
    regq(f"RegressionTreeBasedAL/{m}", "RegressionTreeBasedAL", lambda e, m=m: (P().RegressionTreeBasedAL(method=m, missing_label=e.ml, random_state=0), {"reg": e.reg("tree")}))
regq("QueryByCommittee/reg", "QueryByCommittee", lambda e: (P().QueryByCommittee(missing_label=e.ml, random_state=0), {"ensemble": e.reg("bagreg")}), tag="regressor-ensemble")
regq("RandomSampling/reg", "RandomSampling", lambda e: (P().RandomSampling(missing_label=e.ml, random_state=0), {}))
regq("CoreSet/reg", "CoreSet", lambda e: (P().CoreSet(missing_label=e.ml, random_state=0), {}))
regq("TypiClust/reg", "TypiClust", lambda e: (P().TypiClust(cluster_algo_dict=dict(CL), k=3, missing_label=e.ml, random_state=0), {}))

CFG_BY_NAME = {c.name: c for c in CONFIGS}
assert len(CFG_BY_NAME) == len(CONFIGS), "duplicate configuration names"


# ---------------------------------------------------------------------------------------------
# the paired oracle

def _run_one(cfg, encname, ds):
    enc = ENC.get(encname) or RENC[encname]
    e = EncCtx(enc, ds)
    try:
        with warnings.catch_warnings():
            warnings.simplefilter("ignore")
            with np.errstate(all="ignore"):
                np.random.seed(12345)   # any accidental use of the global RNG is made identical across encodings
                out = cfg.run(e)
        return ("ok", out)
    except Exception as ex:  # noqa: BLE001  (the kind of exception is the observation)
        # name of the first builtin class in the MRO (numpy's UFuncTypeError -> TypeError, ...)
        name = next((c.__name__ for c in type(ex).__mro__ if c.__module__ == "builtins"), type(ex).__name__)
        return ("raise", name, str(ex)[:200])


def _num_cmp(a, b):
    """-> ('same'|'close'|'differ', max abs diff)"""
    a, b = np.asarray(a, dtype=float), np.asarray(b, dtype=float)
    if a.shape != b.shape:
        return "differ", float("inf")
    if np.array_equal(a, b, equal_nan=True):
        return "same", 0.0
    na, nb = np.isnan(a), np.isnan(b)
    if not np.array_equal(na, nb):
        return "differ", float("inf")
    fin = ~na
    with np.errstate(all="ignore"):
        d = np.abs(a[fin] - b[fin])
    d = d[~np.isnan(d)]                      # inf - inf
    mx = float(d.max()) if d.size else 0.0
    if np.allclose(a[fin], b[fin], rtol=CLOSE_RTOL, atol=CLOSE_ATOL, equal_nan=True):
        return "close", mx
    return "differ", mx


def compare(ref, oth, enc_ref, enc_oth):
    """compare two output dicts. Returns list of (failure-kind, detail) and list of ('close', key, maxdiff)."""
    fails, close = [], []
    for k in ref:
        if k not in oth:
            fails.append(("output-missing", k))
            continue
        a, b = ref[k], oth[k]
        if k.startswith("idx"):
            if not (np.shape(a) == np.shape(b) and np.array_equal(a, b)):
                fails.append(("indices-differ", f"{k}: {np.asarray(a).tolist()} vs {np.asarray(b).tolist()}"))
        elif k.startswith("util") or k.startswith("proba"):
            verdict, mx = _num_cmp(a, b)
            kind = "utilities-differ" if k.startswith("util") else "proba-differ"
            if verdict == "differ":
                fails.append((kind, f"{k}: max abs diff {mx:.3g}"))
            elif verdict == "close":
                close.append((k, mx))
        elif k.startswith("pred"):
            da, db = enc_ref.dec(a), enc_oth.dec(b)
            if (db == -9).any():
                fails.append(("predict-not-in-classes", f"{np.asarray(b).tolist()[:8]}"))
            elif not np.array_equal(da, db):
                fails.append(("predict-not-reencoded", f"class indices {da.tolist()} vs {db.tolist()}"))
        elif k == "classes_":
            da, db = enc_ref.dec(a), enc_oth.dec(b)
            if not np.array_equal(da, db) or (db < 0).any():
                fails.append(("classes-differ", f"{np.asarray(a).tolist()} vs {np.asarray(b).tolist()}"))
    return fails, close


PRIORITY = ["raises", "output-missing", "classes-differ", "proba-differ", "utilities-differ", "predict-not-in-classes", "predict-not-reencoded", "indices-differ"]


def _main_failure(fails):
    """one failure kind per (configuration, data set, encoding): the most basic one; the others go into the text"""
    def rank(k):
        for i, p in enumerate(PRIORITY):
            if k.startswith(p):
                return i
        return len(PRIORITY)

    fails = sorted(fails, key=lambda f: rank(f[0]))
    kind = fails[0][0]
    detail = "; ".join(f"{k}: {d}" if d else k for k, d in fails)
    return kind, detail


def _precondition(cfg, encnames):
    """precondition class of a failure observed under exactly these encodings (besides the reference)"""
    others = [e for e in cfg.encs[1:]]
    names = sorted(encnames)
    if len(others) > 1 and names == sorted(others):
        pre = "any-non-default-encoding" if cfg.group != "reg" else "non-nan-sentinel"
    elif names == ["E2", "E3"]:
        pre = "string-labels"
    else:
        pre = "+".join((ENC.get(n) or RENC[n]).sentinel for n in names)
    return (cfg.tag + "-" if cfg.tag else "") + pre


def vkey(cfg, kind, encnames):
    return f"C09/{cfg.cls}.{cfg.meth}/{kind}/{_precondition(cfg, encnames)}"


def evaluate(ctx, cfg, ds, summary):
    """one (configuration, data set) pair through the paired oracle. Returns number of violations added."""
    encs = list(cfg.encs)
    e_ref = encs[0]
    enc_ref = ENC.get(e_ref) or RENC[e_ref]
    row = summary.setdefault(cfg.name, dict(cls=cfg.cls, pairs=0, ok=0, bit_identical=0, close=0, skipped=0, max_abs_diff=0.0, violations={}))
    r0 = _run_one(cfg, e_ref, ds)
    r0b = _run_one(cfg, e_ref, ds)
    sample = dict(config=cfg.name, **ds_desc(ds))
    # reproducibility guard: the reference encoding twice
    repro = r0[0] == r0b[0]
    if repro and r0[0] == "ok":
        f, c = compare(r0[1], r0b[1], enc_ref, enc_ref)
        repro = not f and not c
    if not repro:
        ctx.count(f"skipped_not_reproducible/{cfg.cls}")
        row["skipped"] += 1
        return 0
    results = {e_ref: r0}
    for en in encs[1:]:
        results[en] = _run_one(cfg, en, ds)
    if all(r[0] == "raise" for r in results.values()):
        # raises under every encoding: not an encoding matter (harness configuration or another property's defect)
        ctx.count(f"skipped_raises_under_all_encodings/{cfg.cls}")
        ctx.notes.setdefault("raises_under_all_encodings", {}).setdefault(cfg.name, f"{r0[1]}: {r0[2][:120]}")
        row["skipped"] += 1
        return 0
    ctx.case((cfg.name, ds.seed, ds.kind), ds.nontrivial, sample=dict(sample, encodings=encs, outputs=sorted(r0[1]) if r0[0] == "ok" else r0[1]))
    ctx.count(f"dataset_kind/{ds.kind}")
    row["pairs"] += 1
    any_close = False
    by_kind = {}          # failure kind -> [(encoding name, detail)]
    for en in encs[1:]:
        enc = ENC.get(en) or RENC[en]
        ro = results[en]
        if r0[0] == "ok" and ro[0] == "raise":
            by_kind.setdefault(f"raises-{ro[1]}", []).append((en, f"raises {ro[1]} under {en} but not under {e_ref}: {ro[2][:140]}"))
        elif r0[0] == "raise" and ro[0] == "ok":
            by_kind.setdefault(f"raises-{r0[1]}-under-{enc_ref.sentinel}", []).append((en, f"raises {r0[1]} under {e_ref} but not under {en}: {r0[2][:140]}"))
        elif r0[0] == "raise":
            if r0[1] != ro[1]:
                ctx.count(f"different_exception_types/{cfg.cls}")
        else:
            fails, close = compare(r0[1], ro[1], enc_ref, enc)
            if fails:
                kind, detail = _main_failure(fails)
                by_kind.setdefault(kind, []).append((en, f"{e_ref} vs {en}: {detail[:200]}"))
            elif close:
                any_close = True
                mx = max(m for _, m in close)
                row["max_abs_diff"] = max(row["max_abs_diff"], mx)
                ctx.count(f"close_not_bit_identical/{cfg.cls}")
    nviol = 0
    for kind, lst in sorted(by_kind.items()):
        names = [en for en, _ in lst]
        key = vkey(cfg, kind, names)
        what = f"{cfg.cls} [{cfg.name}] {kind} under {'/'.join(names)} ({_precondition(cfg, names)}); " + lst[0][1]
        rp = dict(config=cfg.name, cls=cfg.cls, ds_seed=ds.seed, ds_kind=ds.kind, ds_nmax=ds.nmax, encodings=[e_ref] + names)
        ctx.violate(key, what, rp)
        nviol += 1
        short = key.split("/", 2)[2]
        row["violations"][short] = row["violations"].get(short, 0) + 1
        ctx.count(f"violation/{cfg.cls}/{kind}")
    if nviol == 0:
        row["ok"] += 1
        if any_close:
            row["close"] += 1
            ctx.count(f"ok_close/{cfg.cls}")
        else:
            row["bit_identical"] += 1
            ctx.count(f"ok_bit_identical/{cfg.cls}")
    return nviol


def _datasets(ctx, cfg, n_ds, salt):
    """data sets for one configuration, derived from ctx (deterministic given VERIF_SEED)"""
    rs = ctx.np_rng(salt)
    out = []
    kinds = list(cfg.kinds)
    for j in range(n_ds):
        kind = kinds[j % len(kinds)]
        for _ in range(20):
            ds = make_ds(int(rs.randint(0, 2**31 - 1)), kind, cfg.nmax)
            if cfg.need_all and not ds.all_present:
                continue
            break
        out.append(ds)
    return out


def _single_thread():
    """context manager: native libraries limited to one thread (tiny problems: thread start-up dominates otherwise,
    x50 slower). Everything is imported first so that libraries loaded lazily are limited too."""
    import sklearn.cluster  # noqa: F401
    import sklearn.ensemble  # noqa: F401
    import sklearn.gaussian_process  # noqa: F401
    import sklearn.metrics.pairwise  # noqa: F401
    import sklearn.mixture  # noqa: F401
    import skactiveml.classifier.multiannotator  # noqa: F401
    import skactiveml.pool.multiannotator  # noqa: F401
    import skactiveml.regressor  # noqa: F401
    import skactiveml.stream  # noqa: F401

    try:
        from threadpoolctl import threadpool_limits

        return threadpool_limits(limits=1)
    except ImportError:  # pragma: no cover
        import contextlib

        return contextlib.nullcontext()


DECISIONS = [
    "regression strategies (continuous targets): class relabeling does not apply; the sentinel varies over NaN / reserved number -1000.0 / "
    "None (object y) -- all three are documented values of `missing_label` for these strategies and for the regressors, so differences are violations",
    "SingleAnnotatorWrapper with its default aggregation is run under E0/E1 only (E2/E3 fail earlier, in the shared multi-annotator "
    "validation, which the configurations with an explicit majority vote report once)",
    "EpistemicUncertaintySampling is defined for two classes only: 2-class data sets only",
    "CognitiveDualQueryStrategy* run with force_full_budget=True (the update IndexError of the filtered-chunk path is C10's finding, "
    "it raises under every encoding)",
    "stream strategies have no missing_label parameter; the encoding reaches them through `classes` and the classifier",
    "raises under every encoding incl. E0 = not an encoding matter: skipped and counted (skipped_raises_under_all_encodings/*)",
    "merely-close (rtol 1e-9) utilities / probabilities are counted (close_not_bit_identical/*), not alarmed",
    "all-unlabeled (cold start) data sets are used by search() only: under E3 they make y an all-None object array, "
    "which numpy converts where a string array is rejected -- same root causes under other precondition names",
]


def self_test(ctx):
    """the oracle must see a real difference: swapping two labels changes predict_proba / utilities (guards against a comparator
    or an encoder that makes everything look equal)"""
    ds = make_ds(424242, "c3")
    ds2 = make_ds(424242, "c3")
    lab = np.flatnonzero(ds2.mask)
    a = lab[0]
    ds2.yi = ds2.yi.copy()
    ds2.yi[a] = (ds2.yi[a] + 1) % ds2.K
    for name in ["pwc", "UncertaintySampling/entropy"]:
        cfg = CFG_BY_NAME[name]
        r1, r2 = _run_one(cfg, "E0", ds), _run_one(cfg, "E2", ds2)
        ok = r1[0] == "ok" and r2[0] == "ok" and bool(compare(r1[1], r2[1], ENC["E0"], ENC["E2"])[0])
        if not ok:
            ctx.broken.append(f"C09 oracle self-test: a changed label went unnoticed for configuration {name}")
    for en, enc in ENC.items():
        yi = np.array([-1, 0, 1, 2, -1, 2])
        if not np.array_equal(enc.dec(enc.y(yi)), yi):
            ctx.broken.append(f"C09 harness encoder round trip failed for {en}")
    ctx.count("oracle_self_test_run")


def paired_runs(ctx, only=None, n_ds=None, stop_at_first=False):
    """Paired real runs of every configuration under the encodings; fills ctx."""
    t0 = time.time()
    summary = {}
    if n_ds is None:
        n_ds = 14 if ctx.thorough else 2
    timing = {}
    with _single_thread():
        self_test(ctx)
        _loop(ctx, only, n_ds, stop_at_first, summary, timing)
    _finish(ctx, summary, timing, t0)
    return summary


def _loop(ctx, only, n_ds, stop_at_first, summary, timing):
    for ci, cfg in enumerate(CONFIGS):
        if only is not None and cfg.name not in only and cfg.cls not in only:
            continue
        k = n_ds
        if cfg.heavy:
            k = max(1, n_ds // 2)
        elif not ctx.thorough and len(cfg.kinds) >= 3:
            k = 3
        t1 = time.time()
        for ds in _datasets(ctx, cfg, k, salt=1000 + ci):
            nv = evaluate(ctx, cfg, ds, summary)
            if nv and stop_at_first:
                break
        timing[cfg.name] = round(time.time() - t1, 2)
        if stop_at_first and ctx.violations:
            break


_LAST_TIMING = {}


def _finish(ctx, summary, timing, t0):
    _LAST_TIMING.clear()
    _LAST_TIMING.update(timing)
    # summary table: per class
    per_cls = {}
    for name, row in summary.items():
        c = per_cls.setdefault(row["cls"], dict(configs=0, pairs=0, ok=0, bit_identical=0, close=0, skipped=0, max_abs_diff=0.0, violations={}))
        c["configs"] += 1
        for k in ("pairs", "ok", "bit_identical", "close", "skipped"):
            c[k] += row[k]
        c["max_abs_diff"] = max(c["max_abs_diff"], row["max_abs_diff"])
        for k, v in row["violations"].items():
            c["violations"][k] = c["violations"].get(k, 0) + v
    ctx.notes["paired_runs_summary"] = per_cls
    ctx.notes["paired_runs_by_config"] = {k: v for k, v in summary.items() if v["violations"] or v["close"] or v["skipped"]}
    ctx.notes["paired_runs_seconds"] = round(time.time() - t0, 1)
    ctx.notes["paired_runs_slowest"] = sorted(timing.items(), key=lambda kv: -kv[1])[:8]
    ctx.notes["encodings"] = {k: dict(classes=v.base, missing_label=repr(v.ml), dtype=getattr(v.dtype, "__name__", str(v.dtype))) for k, v in ENC.items()}
    ctx.notes["decisions"] = DECISIONS
    ctx.notes["configurations"] = len(CONFIGS)
    ctx.exhaustive = False


def encoding_algebra(ctx, only_case=None):
    """Lean-driver part: the encoding algebra of `SkaModel/Core/Label.lean` against the real `ExtLabelEncoder`,
    `is_unlabeled` and `SkactivemlClassifier._validate_data` (cost-matrix permutation) on random labelings presented under
    the four encodings.  Checks (a) model = implementation under each encoding (correspondence), (b) on the real code:
    encoded arrays, masks and permuted cost matrices identical across encodings, decoded predictions re-encoded."""
    from skactiveml.classifier import ParzenWindowClassifier
    from skactiveml.utils import ExtLabelEncoder, is_unlabeled

    from .c16 import Coder, arr_like_tokens, err_enum, kind_of

    rng = ctx.rng
    n_cases = 150 if not ctx.thorough else 1500
    lines, expect = [], []
    todo = []
    if only_case is not None:
        todo.append((np.array(only_case["yi"]), list(only_case["perm"]), bool(only_case["classes_given"]), list(only_case["pred"]), int(only_case.get("ci", 0))))
    else:
        for ci in range(n_cases):
            K = rng.choice([2, 3, 3])
            n = rng.randint(1, 7)
            m = rng.choice([None, None, 1, 2, 3])
            shape = (n,) if m is None else (n, m)
            p_missing = rng.choice([0.0, 0.3, 0.5, 1.0])
            yi = np.array([-1 if rng.random() < p_missing else rng.randrange(K) for _ in range(int(np.prod(shape)))]).reshape(shape)
            perm = list(range(K))
            rng.shuffle(perm)
            todo.append((yi, perm, rng.random() < 0.7, [rng.randrange(-1, K) for _ in range(rng.randint(0, 5))], ci))
    for yi, perm, given, pred, ci in todo:
        K = len(perm)
        shape = yi.shape
        n = shape[0]
        m = None if yi.ndim == 1 else shape[1]
        C = np.array([[0.0 if i == j else float(1 + ((3 * i + 5 * j + ci) % 7)) for j in range(K)] for i in range(K)])
        X = np.array([[float(i), float((i * 7) % 5)] for i in range(n)])
        per_enc = {}
        for en in CLF_ENCS:
            enc = ENC[en]
            y = enc.y(yi)
            classes = [enc.base[i] for i in perm] if given else None
            coder = Coder(y.ravel().tolist(), enc.ml, classes, list(enc.base[:K]))
            rec = dict(enc=en)
            # --- real code
            try:
                le = ExtLabelEncoder(classes=classes, missing_label=enc.ml).fit(y)
                codes = le.transform(y)
                rec["classes_"] = list(le.classes_)
                rec["codes"] = np.asarray(codes)
                kk = len(le.classes_)
                pr = [c for c in pred if c < kk]
                rec["pred"] = pr
                rec["decoded"] = le.inverse_transform(np.array(pr, dtype=int)) if pr else np.array([])
                back = le.inverse_transform(codes)
                impl = " ; ".join([
                    ("ok " + kind_of(np.empty(0, dtype=le._dtype)) + " " + coder.toks(list(le.classes_))).strip(),
                    ("ok " + " ".join(str(int(v)) for v in np.asarray(codes).ravel())).strip(),
                    ("ok " + coder.toks(np.asarray(back).ravel().tolist())).strip(),
                    ("ok " + coder.toks(np.asarray(rec["decoded"]).ravel().tolist())).strip(),
                ])
            except Exception as ex:  # noqa: BLE001
                rec["error"] = err_enum(ex)
                impl = rec["error"]
                pr = []
            try:
                rec["mask"] = np.asarray(is_unlabeled(y, missing_label=enc.ml))
            except Exception as ex:  # noqa: BLE001
                rec["mask_error"] = err_enum(ex)
            if given and m is None:
                try:
                    clf = ParzenWindowClassifier(classes=classes, missing_label=enc.ml, cost_matrix=C).fit(X, y)
                    rec["cost_matrix_"] = np.asarray(clf.cost_matrix_)
                except Exception as ex:  # noqa: BLE001
                    rec["cost_error"] = err_enum(ex)
            per_enc[en] = rec
            # --- model lines
            cls_tok = "0" if classes is None else f"1 {kind_of(np.array(classes))} {len(classes)} {coder.toks(list(classes))}"
            ytok = arr_like_tokens(coder, None, y.ravel().tolist(), shape, y)
            lines.append(" ".join(f"enc {coder.ml(enc.ml)} {cls_tok} {ytok} {ytok} {len(pr)} {' '.join(str(c) for c in pr)}".split()))
            expect.append((" ".join(impl.split()), dict(part="encoder", enc=en, yi=yi.tolist(), perm=perm, classes_given=given, pred=pr)))
            if "mask" in rec:
                lines.append(" ".join(f"lbl 0 {coder.ml(enc.ml)} {ytok}".split()))
                expect.append(("MASK " + " ".join("1" if b else "0" for b in rec["mask"].ravel()), dict(part="mask", enc=en, yi=yi.tolist())))
            if classes is not None:
                lines.append(f"argsortperm {len(classes)} {coder.toks(list(classes))}")
                expect.append(("ARGSORT", dict(part="argsort", enc=en, perm=perm, rec=rec, C=C)))
        # --- (b) across encodings on the real code
        ref = per_enc["E0"]
        case = dict(part="encoding-algebra", yi=yi.tolist(), perm=perm, classes_given=given, pred=pred, ci=ci)
        ctx.case(("alg", yi.tolist(), tuple(perm), given, tuple(pred)), bool((yi < 0).any() and (yi >= 0).any() and len(set(yi[yi >= 0].tolist())) >= 2), sample=dict(case, codes_E0=ref.get("codes", ref.get("error"))))
        ctx.count("algebra_cases")
        for en in CLF_ENCS[1:]:
            o = per_enc[en]
            pre = ENC[en].sentinel
            if ("error" in ref) != ("error" in o) or ("error" in ref and ref["error"] != o["error"]):
                ctx.violate(f"C09/ExtLabelEncoder.fit_transform/raises-differently/{pre}", f"encoder outcome differs between E0 and {en}: {ref.get('error', 'ok')} vs {o.get('error', 'ok')}", dict(case, encodings=["E0", en]))
                continue
            if "error" in ref:
                continue
            if not np.array_equal(ref["codes"], o["codes"]):
                ctx.violate(f"C09/ExtLabelEncoder.transform/encoded-array-differs/{pre}", f"the encoded label array differs between E0 and {en}", dict(case, encodings=["E0", en]))
            if "mask" in ref and "mask" in o and not np.array_equal(ref["mask"], o["mask"]):
                ctx.violate(f"C09/is_unlabeled/mask-differs/{pre}", f"is_unlabeled differs between E0 and {en}", dict(case, encodings=["E0", en]))
            if not np.array_equal(ENC["E0"].dec(ref["decoded"]), ENC[en].dec(o["decoded"])):
                ctx.violate(f"C09/ExtLabelEncoder.inverse_transform/not-reencoded/{pre}", f"decoded predictions under {en} are not the re-encoded ones of E0", dict(case, encodings=["E0", en]))
            if "cost_matrix_" in ref and "cost_matrix_" in o and not np.array_equal(ref["cost_matrix_"], o["cost_matrix_"]):
                ctx.violate(f"C09/SkactivemlClassifier._validate_data/cost-matrix-permutation-differs/{pre}", f"cost_matrix_ differs between E0 and {en}", dict(case, encodings=["E0", en]))
    outs = vlib.run_driver(lines)
    for line, out, (impl, case) in zip(lines, outs, expect):
        if impl == "ARGSORT":
            rec, C = case["rec"], case["C"]
            if "cost_matrix_" in rec:
                idx = [int(t) for t in out.split()]
                want = C[idx][:, idx]
                if not np.array_equal(want, rec["cost_matrix_"]):
                    ctx.disagree("SkaModel.Core.Label.argsort/permuteMatrix vs SkactivemlClassifier._validate_data", dict(part="argsort", enc=case["enc"], perm=case["perm"], line=line), out, np.asarray(rec["cost_matrix_"]).tolist())
                ctx.count("algebra_cost_matrix_checked")
            continue
        if impl.startswith("MASK "):
            got = out.split("|")[0].split()
            if got[:1] != ["ok"] or got[1:] != impl.split()[1:]:
                ctx.disagree("SkaModel.Core.Label.isUnlabeledArr vs skactiveml.utils.is_unlabeled", dict(case, line=line), out, impl)
            continue
        if out.split() != impl.split():
            ctx.disagree("SkaModel.Core.Label encoder vs skactiveml.utils.ExtLabelEncoder", dict(case, line=line), out, impl)


def correspond(ctx):
    # ---- Lean-driver part (encoding algebra: model vs ExtLabelEncoder / is_unlabeled / cost-matrix permutation) ----
    encoding_algebra(ctx)
    # ---- paired real runs of every classifier / strategy under the four encodings ---------------------------------
    paired_runs(ctx)


def search(ctx):
    """More data sets / seeds through the same paired oracle (incl. cold-start data sets with no label at all), steered to
    the flagged call sites first; stops at the first violation."""
    flagged = ["ValueOfInformationEER", "MonteCarloEER", "GreedySamplingTarget", "GreedySamplingX", "FourDs", "ParzenWindowClassifier"]
    order = sorted(range(len(CONFIGS)), key=lambda i: (CONFIGS[i].cls not in flagged, i))
    summary = {}
    with _single_thread():
        for rnd in range(3):
            for i in order:
                cfg = CONFIGS[i]
                if cfg.heavy and rnd:
                    continue
                dss = _datasets(ctx, cfg, 2, salt=50000 + 1000 * rnd + i)
                if cfg.group != "reg":
                    dss.append(make_ds(int(ctx.np_rng(70000 + 1000 * rnd + i).randint(0, 2**31 - 1)), "c3cold", cfg.nmax))
                for ds in dss:
                    evaluate(ctx, cfg, ds, summary)
                    if ctx.violations:
                        return


def replay(payload):
    """Re-run one recorded case (configuration name, data-set seed / kind / size bound) on the real code under all
    encodings of that configuration; reports the recorded finding class if it shows again."""
    r = payload.get("replay", payload)
    if r.get("part") == "encoding-algebra":
        ctx = vlib.Ctx("C09", "quick", 0)
        encoding_algebra(ctx, only_case=r)
        for v in ctx.violations:
            print("REPRODUCED:", v["key"], "|", v["what"])
        return 1 if ctx.violations else 0
    cfg = CFG_BY_NAME.get(r.get("config"))
    if cfg is None:
        print("unknown configuration", r.get("config"))
        return 0
    ds = make_ds(int(r["ds_seed"]), r["ds_kind"], int(r.get("ds_nmax", 30)))
    ctx = vlib.Ctx("C09", "quick", 0)
    with _single_thread():
        evaluate(ctx, cfg, ds, {})
    want = payload.get("key")
    hits = [v for v in ctx.violations if want is None or v["key"] == want]
    for v in hits:
        print("REPRODUCED:", v["key"], "|", v["what"])
    if not hits and ctx.violations:
        print("not reproduced under the recorded key; other findings on this input:", sorted({v["key"] for v in ctx.violations}))
    return 1 if hits else 0
