"""C10 — stream update commits exactly what query simulated.

Theorems: SkaModel/Props/C10.lean (`…_query_wellformed`, `…_update_commits` / `…_update_accepts_query`,
`chunk_invariance_X` for fixed, variable, split, random, BIQF, periodic, stream random sampling;
`cognitive_update_counterexample`).  Tie: the models run at Float against the real classes, here also with
`update` fed index lists that did not come from `query` (incl. out-of-range -> IndexError) and with pairs
of chunkings of one stream.  Oracles on the real code: update accepts what query returned, indices
strictly increasing ints in range, one utility per candidate, chunk invariance of grants and final state
for the deterministic managers and baselines; for every strategy class of skactiveml.stream x every
budget manager it accepts: the same well-formedness / acceptance oracles, and for the classes that only
forward to the manager also chunk invariance."""
import functools

import numpy as np

from .. import vlib
from . import _stream as S
from .c03 import cls_of, density_windows

LEAN_TARGETS = ["SkaModel.Props.C10", "SkaModel.Props.C03dens"]
# theorems about, and the executable of, the model translated from the current Python source on every run
GEN_TARGETS = ["SkaModel.Props.StreamGen", "skagendriver"]

LEVEL = "proof"
RULE = (
    "cases: (a) budget manager / baseline streams with random chunkings, 30% of the chunks updated with an index list that "
    "did not come from query, 40% of the cases ending in an out-of-range index (model and code must both raise IndexError); "
    "(b) one stream under 4 chunkings (all ones, one chunk, two random); (c) strategies: 11 classes x every manager they accept, "
    "integer grid candidates with repeats so that some instances fail the density filters, chunk sizes 1..5, both values of "
    "force_full_budget. non-trivial = at least two chunks, one of size >= 2, and at least one granted label; distinct = "
    "distinct (class, manager, parameters, seed, chunking, stream)"
)
ASSUMPTIONS = [
    "a RandomState is a cursor into a fixed stream (draws captured from the real run); chunk invariance of the managers that draw uniform numbers is relative to that stream, which is what a fixed seed gives",
    "the state an object is left in after update raised is not modelled (cases end at the first raised update)",
    "chunk invariance is claimed and checked only where the property claims it: fixed / variable / split / random / BIQF managers, the baselines, and the strategies that only forward utilities to such a manager",
]
TRUSTED = [
    "translator harness/translate/pystream.py (Python subset -> Lean, typing table of the attributes, generator = cursor into the captured "
    "draw streams, lazily initialised attributes = initial object): validated on every run by executing the translated model bit-exactly "
    "against the real classes; the equality translated model = hand-written model is proved in Lean for all inputs (Lemmas/StreamGen.lean)",
    "known genuine defect (no small fix): StreamDensityBasedAL / CognitiveDualQueryStrategy judge every instance of a chunk against the manager state from before the chunk (Lean: density_chunk_dependence_counterexample); reported under the chunk-dependence keys",
    "the density / cognition window logic is an oracle of the Lean model (a pass bit per instance); on the implementation it is exercised as is",
    "classifier, distance function and np.quantile are oracles",
]

COG_KEY = "C10/CognitiveDualQueryStrategy.update/index-error/force_full_budget=False"
COG_KEY2 = "C10/CognitiveDualQueryStrategy.update/misaddressed-indices/force_full_budget=False"
CHUNK_DEP_KEY = "C10/{cls}.query/chunk-dependence/manager-state-not-advanced-within-chunk"
DEFAULT_KIND = {"FixedUncertainty": "fixed", "VariableUncertainty": "var", "Split": "split", "RandomVariableUncertainty": "randvar",
                "StreamProbabilisticAL": "biqf", "StreamDensityBasedAL": "dbsplit", "CognitiveDualQueryStrategy": "randvar",
                "CognitiveDualQueryStrategyRan": "random", "CognitiveDualQueryStrategyFixUn": "fixed",
                "CognitiveDualQueryStrategyVarUn": "var", "CognitiveDualQueryStrategyRanVarUn": "randvar"}


def manager_case(ctx, lines, expect, spec):
    cname = cls_of(spec["kind"])
    meth = "query" if spec["kind"] in S.BASELINE_KINDS else "query_by_utility"
    run = S.run_case(spec, check_purity=False)
    lines.append(S.model_line(spec, run))
    expect.append((S.impl_text(run), spec))
    ctx.case(("m", spec["kind"], repr(sorted(spec["params"].items())), spec["seed"], tuple(spec["chunks"]), repr(spec.get("utils")), repr(spec.get("ovr"))),
             len(spec["chunks"]) >= 2 and max(spec["chunks"]) >= 2 and len(run.grants) >= 1,
             sample=dict(kind=spec["kind"], params=spec["params"], chunks=spec["chunks"], ovr=spec.get("ovr"), granted=run.grants[:10],
                         result=run.segments[-1][:80] if run.segments else None))
    ctx.count(f"manager_{spec['kind']}")
    if run.stopped:
        ctx.count("update_raised_IndexError_on_foreign_indices")
    if spec.get("ovr"):
        ctx.count("updates_with_foreign_indices", len(spec["ovr"]))
    if run.query_exc:
        ctx.violate(f"C10/{cname}.{meth}/raises", f"{cname}.{meth} raised {run.query_exc[0][1]} (chunk {run.query_exc[0][0]})",
                    dict(spec=spec, oracle="accepts"))
    if run.illformed:
        ctx.violate(f"C10/{cname}.{meth}/illformed-indices",
                    f"{cname}.{meth} returned {run.illformed[0][1]} for a chunk of {spec['chunks'][run.illformed[0][0]]} candidates "
                    "(not strictly increasing ints in range, or utilities of the wrong length)", dict(spec=spec, oracle="wellformed"))
    if run.update_exc:
        ctx.violate(f"C10/{cname}.update/raises-on-query-result",
                    f"{cname}.update raised on the indices returned by {meth}: {run.update_exc[0]}", dict(spec=spec, oracle="accepts"))
    return run


def chunk_pair(ctx, lines, expect, spec, rng):
    n = sum(spec["chunks"])
    base = None
    for ch in ([1] * n, [n], S.gen_chunks(rng, n), S.gen_chunks(rng, n, maxc=3)):
        sp = dict(spec, chunks=ch)
        sp.pop("ovr", None)
        run = manager_case(ctx, lines, expect, sp)
        sig = (run.grants, run.states[-1] if run.states else None, S.rs_fingerprint(run.rs) if run.rs is not None else None)
        if base is None:
            base = (sig, ch)
        elif sig != base[0]:
            cname = cls_of(spec["kind"])
            ctx.violate(f"C10/{cname}/chunking-dependent",
                        f"{cname}: granted labels / final state / generator differ between chunkings {base[1][:10]} and {ch[:10]}: "
                        f"{base[0][0][:12]} {base[0][1]} vs {sig[0][:12]} {sig[1]}",
                        dict(spec=sp, oracle="chunk-invariance", chunks_a=base[1], chunks_b=ch))
            return
    ctx.count("chunk_invariance_groups")


# ---------------------------------------------------------------------------------------------
# strategies

def strategy_stream(ctx, rng, name, mk):
    default_mgr = mk is None
    cognitive = name.startswith("CognitiveDual")
    ffb = rng.random() < 0.5 if cognitive else False
    b = rng.choice([0.25, 0.5, 1.0, 0.125])
    seed = rng.randrange(2**31 - 1)
    n = rng.randint(3, 16)
    cand = S.gen_candidates(rng, n)
    chunks = S.gen_chunks(rng, n, maxc=5)
    payload = dict(strategy=name, manager=("default" if default_mgr else mk), budget=b, seed=seed, ffb=ffb, chunks=chunks,
                   candidates=cand.tolist())
    if rng.random() < 0.15:
        payload["cand_list"] = True
        ctx.count("strategy_candidates_as_lists")
    if (cognitive or name == "StreamDensityBasedAL") and rng.random() < 0.3:
        # the density test with the library's own distance function and a non-default metric (seed R12I05)
        payload["dist_dict"] = {"metric": rng.choice(["chebyshev", "cityblock"])}
        ctx.count("strategy_dist_func_dict")
    res = run_strategy(payload)
    granted = sum(len(q) for q in res["queries"])
    ctx.case(("s", name, mk, seed, b, ffb, tuple(chunks)), len(chunks) >= 2 and max(chunks) >= 2 and granted >= 1,
             sample=dict(strategy=name, manager=payload["manager"], budget=b, ffb=ffb, chunks=chunks, queries=res["queries"][:6]))
    ctx.count(f"strategy_{name}")
    ctx.count(f"strategy_manager_{payload['manager']}")
    if res["filtered"]:
        ctx.count("instances_failing_density_filter", res["filtered"])
    report_strategy(ctx, payload, res)
    kind = mk if mk is not None else DEFAULT_KIND[name]
    if res["exc"] is not None or res["query_exc"] is not None or kind not in S.CHUNK_INVARIANT:
        return
    if not cognitive and name != "StreamDensityBasedAL":
        # strategies that only forward utilities to a deterministic manager
        r2 = run_strategy(dict(payload, chunks=[1] * n))
        if (res["grants"], res["final_manager"]) != (r2["grants"], r2["final_manager"]):
            ctx.violate(f"C10/{name}/chunking-dependent",
                        f"{name}+{payload['manager']}: grants / manager state differ between chunking {chunks} and one-by-one",
                        dict(payload, oracle="chunk-invariance"))
        ctx.count("strategy_chunk_invariance_pairs")
    else:
        chunk_dependence(ctx, payload, res)


def chunk_dependence(ctx, payload, res=None):
    """StreamDensityBasedAL / CognitiveDualQueryStrategy over a deterministic manager: the labels granted over a stream
    must not depend on the chunking (C10).  They do: query judges every instance of a chunk by a one-element
    query_by_utility against the manager state from before the chunk.  Chunkings into ones never differ from the
    reference (it *is* the reference)."""
    name = payload["strategy"]
    key_cls = "CognitiveDualQueryStrategy" if name.startswith("CognitiveDual") else name
    n = len(payload["candidates"])
    res = res or run_strategy(payload)
    ctx.count("density_strategy_streams_compared_with_one_by_one")
    if all(c == 1 for c in payload["chunks"]):
        return False
    r1 = run_strategy(dict(payload, chunks=[1] * n))
    if r1["exc"] is not None or r1["query_exc"] is not None or res["grants"] == r1["grants"]:
        return False
    # shrink: the shortest prefix that, taken as one chunk, already differs from one-by-one
    small = None
    for m in range(2, n + 1):
        pm = dict(payload, candidates=payload["candidates"][:m], chunks=[m])
        ra, rb = run_strategy(pm), run_strategy(dict(pm, chunks=[1] * m))
        if ra["exc"] is None and rb["exc"] is None and ra["grants"] != rb["grants"]:
            small = (pm, ra, rb)
            break
    pm, ra, rb = small if small else (payload, res, r1)
    ctx.count("density_strategy_grants_depend_on_chunking")
    if len(ra["grants"]) > len(rb["grants"]):
        ctx.count("density_strategy_grants_more_labels_when_chunked")
    ctx.violate(CHUNK_DEP_KEY.format(cls=key_cls),
                f"{name}+{payload['manager']} (budget {payload['budget']}): chunking {pm['chunks']} grants the labels {ra['grants']}, "
                f"one instance per call grants {rb['grants']}: query judges every instance of a chunk against the budget-manager state "
                "from before the chunk (one-element query_by_utility calls, never advanced), so the result depends on how the stream is cut",
                dict(pm, oracle="chunk-dependence"))
    return True


def corpus_chunk_dependence(ctx):
    """fixed minimal streams (run every time): VariableUncertainty manager w=4, budget 0.25; four distinct points."""
    cand = [[0.0, 0.0], [4.0, 4.0], [2.0, 2.0], [1.0, 1.0]]
    for name, ffb in (("StreamDensityBasedAL", False), ("CognitiveDualQueryStrategy", True), ("CognitiveDualQueryStrategy", False)):
        payload = dict(strategy=name, manager="var", budget=0.25, seed=0, ffb=ffb, chunks=[4], candidates=cand)
        ctx.case(("corpus", name, ffb), True)
        fired = chunk_dependence(ctx, payload)
        ctx.count("corpus_chunk_dependence_" + ("fired" if fired else "silent"))


def run_strategy(payload):
    """query -> update over the chunks; records well-formedness, exceptions of update, density-filter outcomes."""
    name = payload["strategy"]
    mk = None if payload["manager"] == "default" else payload["manager"]
    qs = S.make_strategy(name, mk, payload["budget"], payload["seed"], ffb=payload["ffb"], default_mgr=(mk is None),
                         dist_dict=payload.get("dist_dict"))
    cand = np.array(payload["candidates"], dtype=float)
    cognitive = name.startswith("CognitiveDual")
    ldf_log = []
    if hasattr(qs, "_calculate_ldf"):
        orig = qs._calculate_ldf

        def spy(c):
            r = orig(c)
            ldf_log.append(int(r))
            return r

        qs._calculate_ldf = spy
    out = dict(queries=[], grants=[], illformed=None, exc=None, query_exc=None, misaddressed=None, filtered=0, final_manager=None)
    off = 0
    recv = []

    def spy_manager():
        bm_ = getattr(qs, "budget_manager_", None)
        if bm_ is None or getattr(bm_, "_verif_spy", False):
            return
        orig_u = bm_.update

        @functools.wraps(orig_u)
        def upd(*a, **k):
            cands = k.get("candidates", a[0] if a else None)
            qi = k.get("queried_indices", a[1] if len(a) > 1 else None)
            recv.append((len(cands), [int(i) for i in qi]))
            return orig_u(*a, **k)

        bm_.update = upd
        bm_._verif_spy = True

    with np.errstate(all="ignore"):
        for ci, c in enumerate(payload["chunks"]):
            chunk = cand[off:off + c]
            if payload.get("cand_list"):
                chunk = chunk.tolist()       # array-like candidates: nested lists are as admissible as ndarrays
            try:
                idx, ut = S.strat_query(qs, chunk)
            except Exception as e:  # noqa: BLE001
                out["query_exc"] = (ci, S.err_enum(e))
                break
            if not S.wellformed(idx, c) or len(ut) != c:
                out["illformed"] = (ci, [int(i) for i in idx], len(ut))
            idx = [int(i) for i in idx]
            out["queries"].append(idx)
            out["grants"] += [off + i for i in idx]
            del ldf_log[:]
            del recv[:]
            spy_manager()
            try:
                S.strat_update(qs, chunk, idx, ut)
            except Exception as e:  # noqa: BLE001
                out["exc"] = (ci, S.err_enum(e), idx, c)
                break
            passed = [True] * c
            if ldf_log:
                thr = getattr(qs, "density_threshold", 1)
                passes = [(l >= thr) if cognitive else (l > 0) for l in ldf_log]
                out["filtered"] += passes.count(False)
                if cognitive and not payload["ffb"]:
                    passed = passes  # failing instances are dropped from new_candidates
            # what the budget manager must be told: one candidate per instance passed on, and for each queried instance
            # its position among the instances passed on
            expect = (passed.count(True), [passed[:i].count(True) for i in idx])
            if not all(passed[i] for i in idx) or (recv and recv[-1] != expect):
                out["misaddressed"] = (ci, idx, [bool(x) for x in passed], recv[-1] if recv else None, expect)
            off += c
    bm = getattr(qs, "budget_manager_", None)
    out["final_manager"] = S.snap_obj(bm) if bm is not None else None
    return out


def report_strategy(ctx, payload, res):
    name = payload["strategy"]
    cognitive = name.startswith("CognitiveDual")
    key_cls = "CognitiveDualQueryStrategy" if cognitive else name
    if res["query_exc"]:
        ctx.violate(f"C10/{key_cls}.query/raises",
                    f"{name}+{payload['manager']}: query raised {res['query_exc'][1]} in a plain query/update stream (chunk {res['query_exc'][0]})",
                    dict(payload, oracle="accepts"))
    if res["illformed"]:
        ctx.violate(f"C10/{key_cls}.query/illformed-indices",
                    f"{name}+{payload['manager']}: query returned {res['illformed'][1]} / {res['illformed'][2]} utilities for chunk {res['illformed'][0]}",
                    dict(payload, oracle="wellformed"))
    if res["exc"]:
        ci, en, idx, c = res["exc"]
        if cognitive and not payload["ffb"] and en == "err index-error":
            ctx.violate(COG_KEY,
                        f"{name}(force_full_budget=False).update raised IndexError on the result of its own query: chunk of {c} candidates, "
                        f"queried_indices={idx}; instances that fail the density filter are dropped from new_candidates while the indices still "
                        "address the unfiltered chunk", dict(payload, oracle="accepts"))
        else:
            ctx.violate(f"C10/{key_cls}.update/raises-on-query-result",
                        f"{name}+{payload['manager']}: update raised {en} on the result of query (chunk {ci}, indices {idx})",
                        dict(payload, oracle="accepts"))
    elif res["misaddressed"]:
        ci, idx, passed, got, expect = res["misaddressed"]
        key = COG_KEY2 if (cognitive and not payload["ffb"]) else f"C10/{key_cls}.update/misaddressed-indices"
        ctx.violate(key,
                    f"{name}.update: query returned {idx} for chunk {ci} (instances passed on to the manager: {passed}); the budget manager "
                    f"received (len(candidates), queried_indices) = {got}, expected {expect}: the label is booked on a different instance",
                    dict(payload, oracle="misaddressed"))


def generate(ctx):
    from ..translate import pystream

    if pystream.generate(ctx) is None:
        ctx.gen_failed = False  # the previous generated file is still in place; its tie is reported broken above


def correspond(ctx):
    rng = ctx.rng
    lines, expect = [], []
    per_kind = 60 if not ctx.thorough else 400
    for kind in S.MANAGER_KINDS + S.BASELINE_KINDS:
        for t in range(per_kind):
            spec = S.gen_case(rng, kind, boundary=(t % 3 == 0), n=rng.randint(2, 40), with_ovr=(t % 2 == 0))
            manager_case(ctx, lines, expect, spec)
        if kind in S.CHUNK_INVARIANT:
            for t in range(10 if not ctx.thorough else 80):
                chunk_pair(ctx, lines, expect, S.gen_case(rng, kind, boundary=(t % 2 == 0), n=rng.randint(4, 40)), rng)
    S.compare_models(ctx, lines, expect)
    density_windows(ctx, 60 if not ctx.thorough else 600)   # ties Core/Density.lean (C03dens.density_update_commits_query)
    names, missing = S.strategy_grid()
    if missing:
        ctx.broken.append(f"classes exported by skactiveml.stream that the C10 grid does not cover: {missing}")
    reps = 5 if not ctx.thorough else 30
    pairs = S.grid_pairs()
    corpus_chunk_dependence(ctx)  # first, so that the stored replay of the known defect is the minimal one
    for name, mk in pairs:
        for _ in range(reps if mk is not None else 3 * reps):
            strategy_stream(ctx, rng, name, mk)
    ctx.notes["strategy_grid"] = (f"{len(names)} strategy classes; {len(pairs)} (strategy, manager) pairs = every budget manager each "
                                  f"class accepts + its default manager; {reps} streams per pair (3x for the default manager)")


def ctx_known(ctx, v):
    return any(k.get("property") == "C10" and k.get("status", "open") == "open" and k["key"] == v["key"] for k in vlib.load_known())


def search(ctx):
    rng = ctx.rng
    lines, expect = [], []
    # leads first: the (manager kind, utility style, parameters) on which model and implementation disagreed
    leads = []
    for d in ctx.disagreements:
        sp = (d.get("case") or {}).get("spec") or {}
        if sp.get("kind") in S.CHUNK_INVARIANT and (sp["kind"], sp.get("style")) not in [(k, st) for k, st, _ in leads]:
            leads.append((sp["kind"], sp.get("style"), sp.get("params")))
    for kind, style, params in leads[:8]:
        for _ in range(60):
            ctx.count("search_lead_cases")
            spec = S.gen_case(rng, kind, boundary=rng.random() < 0.5, n=rng.randint(4, 30), style=style if kind not in S.BASELINE_KINDS else None)
            if params is not None and rng.random() < 0.5:
                spec["params"] = params
            chunk_pair(ctx, lines, expect, spec, rng)
            if [v for v in ctx.violations if "chunk-dependence" not in v["key"] and not ctx_known(ctx, v)]:
                return
    for _ in range(100):
        for kind in S.MANAGER_KINDS + S.BASELINE_KINDS:
            manager_case(ctx, lines, expect, S.gen_case(rng, kind, n=rng.randint(2, 40)))
            if kind in S.CHUNK_INVARIANT:
                chunk_pair(ctx, lines, expect, S.gen_case(rng, kind, boundary=True, n=rng.randint(4, 30)), rng)
        if [v for v in ctx.violations if "chunk-dependence" not in v["key"]]:
            return
    for _ in range(5):
        for name, mk in S.grid_pairs():
            strategy_stream(ctx, rng, name, mk)


def replay(payload):
    ctx = vlib.Ctx("C10", "quick", 0)
    r = payload.get("replay", {})
    if "strategy" in r:
        res = run_strategy(r)
        print("queries per chunk:", res["queries"])
        print("update exception:", res["exc"], "| misaddressed:", res["misaddressed"], "| illformed:", res["illformed"])
        report_strategy(ctx, r, res)
        if r.get("oracle") == "chunk-dependence":
            r2 = run_strategy(dict(r, chunks=[1] * len(r["candidates"])))
            print("chunking", r["chunks"], "grants", res["grants"], "| one by one grants", r2["grants"])
            bad = res["grants"] != r2["grants"]
            print("REPRODUCED: chunk-dependent" if bad else "not reproduced")
            return 1 if bad else 0
        if r.get("oracle") == "chunk-invariance":
            r2 = run_strategy(dict(r, chunks=[1] * len(r["candidates"])))
            if (res["grants"], res["final_manager"]) != (r2["grants"], r2["final_manager"]):
                print("REPRODUCED: chunking-dependent", res["grants"], r2["grants"])
                return 1
    elif "spec" in r:
        spec = r["spec"]
        if r.get("oracle") == "chunk-invariance":
            ra = S.run_case(dict(spec, chunks=r["chunks_a"]), check_purity=False)
            rb = S.run_case(dict(spec, chunks=r["chunks_b"]), check_purity=False)
            print("chunks_a:", r["chunks_a"], "grants", ra.grants, "state", ra.states[-1:])
            print("chunks_b:", r["chunks_b"], "grants", rb.grants, "state", rb.states[-1:])
            bad = (ra.grants, ra.states[-1:]) != (rb.grants, rb.states[-1:]) or (
                ra.rs is not None and S.rs_fingerprint(ra.rs) != S.rs_fingerprint(rb.rs))
            print("REPRODUCED: chunking-dependent" if bad else "not reproduced")
            return 1 if bad else 0
        manager_case(ctx, [], [], spec)
    for v in ctx.violations:
        print("REPRODUCED:", v["what"])
    return 1 if ctx.violations else 0
