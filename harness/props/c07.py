"""C07 — multi-annotator pool query returns distinct, available sample-annotator pairs.

Correspondence of `SingleAnnotatorWrapper.query` (around many single-annotator strategies) and
`IntervalEstimationThreshold.query` with the Lean model `SkaModel/Core/MultiAnnot.lean`, plus the
property's own oracle on every implementation output.  Every real call runs under a SIGALRM
(20 s); a timeout is canonicalised as `err non-termination`."""
import signal

import numpy as np

from .. import vlib
from ..vlib import f2bits

LEAN_TARGETS = ["SkaModel.Props.C07"]
# theorems about, and the executable of, `_n_to_assign_annotators` translated from the current source on every run
GEN_TARGETS = ["SkaModel.Props.AnnotGen", "skaannotgendriver"]
LEVEL = "proof"
RULE = (
    "cases: SingleAnnotatorWrapper(inner).query / IntervalEstimationThreshold.query on random label matrices "
    "(3-7 samples, 1-4 annotators, random missing patterns) x the 3x3 ways of giving candidates (None / index array / "
    "feature rows) and annotators (None / index array / Boolean matrix) x batch sizes 1..#pairs+2 x n_annotators_per_sample "
    "(int and array) x A_perf None/vector/matrix; the inner strategy's result, the annotator utilities, A_cand (with dtype), "
    "mapping and every rand_argmax / simple_batch noise draw are captured from the real run and fed to the model. "
    "non-trivial = at least 2 available pairs and a batch size >= 2; distinct = distinct (class, inner, arguments, seed) tuples"
)
ASSUMPTIONS = [
    "index arrays are passed to the model as np.unique(...) of what the real call receives (check_indices is validation glue)",
    "tie-breaking noise is recovered by replaying RandomState.get_state() snapshots taken by module-level spies",
    "a real call that does not return within the alarm (20 s; 2 s once the captured arguments of _n_to_assign_annotators "
    "already show sum(n_max_chosen) < batch_size) is recorded as non-termination",
    "n_annotators_per_sample >= 1 (ints are validated by the code, arrays are generated that way)",
    "theorems are over an exact linear ordered field: rank + u with u in [0,1) stays below rank + 1 (the IEEE rounding corner "
    "of this addition is executed faithfully by the driver at Float but is outside the theorems); no arithmetic on the inner "
    "utilities is involved since repair 79ce7853; rand_argmax noise is assumed strictly positive (2^-53 corner, see C18)",
    "the wrapped single-annotator strategy obeys its own contract (distinct picks, non-NaN utility at each pick); cases where "
    "it does not are counted and left to C01/C02",
]
TRUSTED = [
    "scipy.stats.rankdata(method='ordinal') is a stable ordinal ranking (modelled by ordRank)",
    "IntervalEstimationThreshold's utility values (classifier, interval estimation) are taken from the real run; the model "
    "covers its selection skeleton",
]

ALARM_S = 20
SHORT_ALARM_S = 2

# availability matrix with an all-False row, batch_size=1: _n_to_assign_annotators did not terminate before repair
# 6c5fda89 when the inner strategy picks sample 0 (kept as a regression case)
# TypiClust returns -inf utilities (also at its picks): before repair 79ce7853 the wrapper then failed to rank the chosen
# sample first and returned the pair (0, 0) twice while (1, 0), (1, 1) were still available (kept as a regression case)
NEG_INF_INNER = dict(
    X=[[-1.75, 1.0], [2.0, -0.5], [1.5, 1.5], [-2.0, 0.0], [2.0, -0.5], [-1.25, 1.75]],
    y=[[0, None], [1, None], [None, None], [None, None], [None, None], [None, None]], cmode="idx", amode="none",
    candidates=[1, 4, 0], annotators=None, int_y=False, batch_size=5, naps=1, A_perf=None, seed=354488296,
)
MINIMAL_DIVERGENCE = dict(
    X=[[0.0, 1.0], [2.0, 3.0], [4.0, 5.0]], y=[[None, None], [None, None], [None, None]], cmode="none", amode="mat",
    candidates=None, annotators=[[False, False], [True, True], [True, True]], int_y=False, batch_size=1, naps=1,
    A_perf=None, seed=0,
)


class Timeout(Exception):
    pass


def _on_alarm(signum, frame):
    raise Timeout()


# ---------------------------------------------------------------------------------------------
# problems


def make_problem(rng, cmode=None, amode=None, int_y=False, empty_rows=False, near_pairs=False):
    """A random query problem; everything derives from `rng` (random.Random)."""
    nS = rng.randint(3, 7)
    m = rng.randint(1, 4)
    X = [[rng.randint(-8, 8) / 4.0, rng.randint(-8, 8) / 4.0] for _ in range(nS)]
    miss = rng.choice([0.3, 0.5, 0.7, 0.9])
    y = [[(None if rng.random() < miss else rng.randint(0, 1)) for _ in range(m)] for _ in range(nS)]
    # make sure both classes occur and something is unlabeled
    y[0][0] = 0
    y[1][0] = 1
    if all(v is not None for row in y for v in row):
        y[nS - 1][m - 1] = None
    if rng.random() < 0.5:
        y[nS - 1] = [None] * m
    cmode = cmode or rng.choice(["none", "idx", "feat"])
    amode = amode or rng.choice(["none", "idx", "mat"])
    cand = None
    if cmode == "idx":
        k = rng.randint(1, nS)
        cand = rng.sample(range(nS), k)
        if amode == "mat":
            pass                          # any order: row i of the matrix belongs to candidates[i] (repaired in 18267286)
        elif rng.random() < 0.3:
            cand = cand + [rng.choice(cand) for _ in range(rng.randint(1, 2))]      # duplicates are removed by check_indices
    elif cmode == "feat":
        k = rng.randint(1, 5)
        cand = [[rng.randint(-8, 8) / 4.0, rng.randint(-8, 8) / 4.0] for _ in range(k)]
    n_cand = nS if cmode == "none" else len(set(cand)) if cmode == "idx" else len(cand)
    annot = None
    if amode == "idx":
        k = rng.randint(1, m)
        annot = rng.sample(range(m), k)
        if rng.random() < 0.2:
            annot = annot + [annot[0]]
    elif amode == "mat":
        p = rng.choice([0.4, 0.7, 0.9])
        annot = [[rng.random() < p for _ in range(m)] for _ in range(n_cand)]
        if not empty_rows:
            for row in annot:
                if not any(row):
                    row[rng.randrange(m)] = True
        else:
            annot[rng.randrange(n_cand)] = [False] * m
            if not any(any(r) for r in annot):
                annot[0][0] = True
                if n_cand == 1:
                    annot[0] = [True] + [False] * (m - 1)
    prob = dict(X=X, y=y, cmode=cmode, amode=amode, candidates=cand, annotators=annot, int_y=bool(int_y))
    n_pairs = len(avail_pairs(prob)[0])
    if near_pairs:
        b = max(1, n_pairs + rng.choice([-1, 0, 0, 1, 2]))
    else:
        b = rng.choice([1, 2, 2, 3, 4, max(1, n_pairs - 1), max(1, n_pairs), n_pairs + 2])
    prob["batch_size"] = int(b)
    if rng.random() < 0.6:
        prob["naps"] = rng.randint(1, m + 1)
    else:
        prob["naps"] = [rng.randint(1, m + 1) for _ in range(rng.randint(1, 4))]
    ap = rng.random()
    if ap < 0.5:
        prob["A_perf"] = None
    elif ap < 0.75:
        prob["A_perf"] = [rng.randint(0, 4) / 4.0 for _ in range(m)]
    else:
        prob["A_perf"] = [[rng.randint(0, 8) / 8.0 for _ in range(m)] for _ in range(n_cand)]
    prob["seed"] = rng.randrange(2**31 - 1)
    return prob


def make_naps_problem(rng):
    """Array-valued `n_annotators_per_sample` that is shorter than the ranking: all annotators available for every
    candidate, a non-constant array of length 1..3 and a batch that reaches at least two ranked samples beyond it."""
    m = rng.randint(2, 4)
    L = rng.randint(1, 3)
    while True:
        arr = [rng.randint(1, m) for _ in range(L)]
        last = arr[-1]
        if L == 1 or len(set(arr)) > 1:
            break
    if L >= 2 and arr[0] == last:
        arr[0] = last % m + 1                      # cycling through the array differs from repeating the last entry
    n_cand = rng.randint(L + 2, L + 4)
    nS = max(n_cand, rng.randint(3, 7))
    X = [[rng.randint(-8, 8) / 4.0, rng.randint(-8, 8) / 4.0] for _ in range(nS)]
    y = [[(None if rng.random() < 0.6 else rng.randint(0, 1)) for _ in range(m)] for _ in range(nS)]
    y[0][0] = 0
    y[1][0] = 1
    kind = rng.choice(["idx", "feat", "none-idx"])
    if kind == "idx":
        cmode, amode, cand, annot = "idx", "none", sorted(rng.sample(range(nS), n_cand)), None
    elif kind == "feat":
        cmode, amode, annot = "feat", "none", None
        cand = [[rng.randint(-8, 8) / 4.0, rng.randint(-8, 8) / 4.0] for _ in range(n_cand)]
    else:
        cmode, amode, cand, annot = "none", "idx", None, list(range(m))
        n_cand = nS
    beyond = rng.randint(2, max(2, min(3, n_cand - L)))      # ranked samples beyond the array
    b = sum(arr) + last * beyond - rng.choice([0, 0, last - 1])
    prob = dict(X=X, y=y, cmode=cmode, amode=amode, candidates=cand, annotators=annot, int_y=False,
                batch_size=int(max(1, b)), naps=arr, seed=rng.randrange(2**31 - 1))
    ap = rng.random()
    prob["A_perf"] = None if ap < 0.6 else [rng.randint(0, 4) / 4.0 for _ in range(m)]
    return prob


def arrays(prob):
    """numpy arguments of the real call."""
    X = np.array(prob["X"], dtype=float)
    if prob["int_y"]:
        y = np.array([[(-1 if v is None else v) for v in row] for row in prob["y"]], dtype=int)
        ml = -1
    else:
        y = np.array([[(np.nan if v is None else v) for v in row] for row in prob["y"]], dtype=float)
        ml = np.nan
    cand = prob["candidates"]
    if prob["cmode"] == "idx":
        cand = np.array(cand, dtype=int)
    elif prob["cmode"] == "feat":
        cand = np.array(cand, dtype=float)
    annot = prob["annotators"]
    if prob["amode"] == "idx":
        annot = np.array(annot, dtype=int)
    elif prob["amode"] == "mat":
        annot = np.array(annot, dtype=bool)
    A_perf = None if prob.get("A_perf") is None else np.array(prob["A_perf"], dtype=float)
    return X, y, ml, cand, annot, A_perf


def unl_matrix(prob):
    return [[v is None for v in row] for row in prob["y"]]


def aligned_matrix(prob):
    """rows of a Boolean `annotators` matrix in the order of the validated (sorted, unique) index candidates: row i of the
    caller's matrix belongs to the caller's candidates[i]"""
    M = prob["annotators"]
    if prob["cmode"] != "idx":
        return M
    cand = list(prob["candidates"])
    return [M[cand.index(s)] for s in sorted(set(cand))]


def avail_pairs(prob):
    """The available pairs *as defined by the arguments* (independent of the model and the code),
    in the index space of the output, and the number of output rows."""
    nS, m = len(prob["y"]), len(prob["y"][0])
    cm, am = prob["cmode"], prob["amode"]
    if cm == "none":
        rows, n_out = list(range(nS)), nS
    elif cm == "idx":
        rows, n_out = sorted(set(prob["candidates"])), nS
    else:
        rows, n_out = list(range(len(prob["candidates"]))), len(prob["candidates"])
    pairs = set()
    for pos, s in enumerate(rows):
        for j in range(m):
            if am == "none":
                ok = prob["y"][s][j] is None if cm == "none" else True
            elif am == "idx":
                ok = j in prob["annotators"]
            else:
                ok = bool(aligned_matrix(prob)[pos][j])
            if ok:
                pairs.add((s, j))
    return pairs, n_out


def bits(M):
    return " ".join("1" if b else "0" for row in M for b in row)


def spec_tokens(prob):
    nS, m = len(prob["y"]), len(prob["y"][0])
    unl = unl_matrix(prob)
    s = f"{nS} {m} {nS} {m} {bits(unl)}"
    if prob["cmode"] == "none":
        s += " N"
    elif prob["cmode"] == "idx":
        c = sorted(set(prob["candidates"]))
        s += f" I {len(c)} " + " ".join(map(str, c))
    else:
        s += f" F {len(prob['candidates'])}"
    if prob["amode"] == "none":
        s += " N"
    elif prob["amode"] == "idx":
        a = sorted(set(prob["annotators"]))
        s += f" I {len(a)} " + " ".join(map(str, a))
    else:
        M = aligned_matrix(prob)
        s += f" M {len(M)} {m} {bits(M)}"
    return " ".join(s.split())


# ---------------------------------------------------------------------------------------------
# inner strategies (light models)


def inner_factories():
    import skactiveml.pool as P
    from sklearn.ensemble import BaggingClassifier
    from sklearn.naive_bayes import GaussianNB
    from skactiveml.classifier import ParzenWindowClassifier, SklearnClassifier

    def pwc(ml):
        return ParzenWindowClassifier(classes=[0, 1], missing_label=ml, random_state=0)

    def ens(ml):
        return SklearnClassifier(
            BaggingClassifier(GaussianNB(), n_estimators=3, random_state=0), classes=[0, 1], missing_label=ml, random_state=0
        )

    F = {
        "RandomSampling": lambda ml, s: (P.RandomSampling(missing_label=ml, random_state=s), {}),
        "UncertaintySampling": lambda ml, s: (P.UncertaintySampling(missing_label=ml, random_state=s), dict(clf=pwc(ml))),
        "UncertaintySamplingEntropy": lambda ml, s: (
            P.UncertaintySampling(method="entropy", missing_label=ml, random_state=s),
            dict(clf=pwc(ml)),
        ),
        "ProbabilisticAL": lambda ml, s: (P.ProbabilisticAL(missing_label=ml, random_state=s), dict(clf=pwc(ml))),
        "EpistemicUncertaintySampling": lambda ml, s: (
            P.EpistemicUncertaintySampling(missing_label=ml, random_state=s),
            dict(clf=pwc(ml)),
        ),
        "QueryByCommittee": lambda ml, s: (P.QueryByCommittee(missing_label=ml, random_state=s), dict(ensemble=ens(ml))),
        "MonteCarloEER": lambda ml, s: (P.MonteCarloEER(missing_label=ml, random_state=s), dict(clf=pwc(ml))),
        "ValueOfInformationEER": lambda ml, s: (P.ValueOfInformationEER(missing_label=ml, random_state=s), dict(clf=pwc(ml))),
        "GreedySamplingX": lambda ml, s: (P.GreedySamplingX(missing_label=ml, random_state=s), {}),
        "DiscriminativeAL": lambda ml, s: (P.DiscriminativeAL(missing_label=ml, random_state=s), dict(discriminator=pwc(ml))),
        "Falcun": lambda ml, s: (P.Falcun(missing_label=ml, random_state=s), dict(clf=pwc(ml))),
        "ContrastiveAL": lambda ml, s: (
            P.ContrastiveAL(missing_label=ml, random_state=s, nearest_neighbors_dict=dict(n_neighbors=2)),
            dict(clf=pwc(ml)),
        ),
        "CoreSet": lambda ml, s: (P.CoreSet(missing_label=ml, random_state=s), {}),
        "Badge": lambda ml, s: (P.Badge(missing_label=ml, random_state=s), dict(clf=pwc(ml))),
        "CostEmbeddingAL": lambda ml, s: (P.CostEmbeddingAL(classes=[0, 1], missing_label=ml, random_state=s), {}),
        "TypiClust": lambda ml, s: (P.TypiClust(missing_label=ml, random_state=s, cluster_algo_dict={"random_state": 0}), {}),
        "ProbCover": lambda ml, s: (P.ProbCover(missing_label=ml, random_state=s, cluster_algo_dict={"random_state": 0}), {}),
        "SubSamplingWrapper": lambda ml, s: (
            P.SubSamplingWrapper(P.RandomSampling(missing_label=ml, random_state=s), max_candidates=1000, missing_label=ml, random_state=s),
            {},
        ),
    }
    return F


FAST_INNER = [
    "RandomSampling", "UncertaintySampling", "UncertaintySamplingEntropy", "ProbabilisticAL", "EpistemicUncertaintySampling",
    "QueryByCommittee", "GreedySamplingX", "Falcun", "SubSamplingWrapper", "DiscriminativeAL",
]
SLOW_INNER = ["MonteCarloEER", "ValueOfInformationEER", "ContrastiveAL", "CoreSet", "Badge", "CostEmbeddingAL", "TypiClust", "ProbCover"]


# ---------------------------------------------------------------------------------------------
# running the real code with spies


def err_enum(e):
    if isinstance(e, Timeout):
        return "err non-termination"
    if isinstance(e, IndexError):
        return "err index"
    s = str(e)
    if isinstance(e, ValueError) and ("infinity" in s or "too large" in s):
        return "err infinite"
    if isinstance(e, (ValueError, TypeError)) and "batch_size" in s:
        return "err batch-size"
    return f"err other:{type(e).__name__}:{s[:70]}"


def replay_noise(state, shape):
    rs = np.random.RandomState()
    rs.set_state(state)
    return rs.random(shape)


def run_wrapper(prob, inner_name, alarm_s=ALARM_S, short_alarm=True):
    """Real `SingleAnnotatorWrapper.query` with spies.  Returns a dict with `status` (`ok` / an error
    enum), the outputs and everything the model is parametric in."""
    from skactiveml.pool.multiannotator import SingleAnnotatorWrapper
    from skactiveml.pool.multiannotator import _wrapper as wmod

    X, y, ml, cand, annot, A_perf = arrays(prob)
    inner, kw = inner_factories()[inner_name](ml, prob["seed"] % 1000)
    w = SingleAnnotatorWrapper(inner, missing_label=ml, random_state=prob["seed"] % 100003)
    spy = dict(noises=[], inner=None, tca=None, qa=None, nas=None)

    real_inner_query = inner.query

    def inner_query(*a, **k):
        r = real_inner_query(*a, **k)
        spy["inner"] = (np.array(r[0]).copy(), np.array(r[1], dtype=float).copy(), k.get("batch_size"))
        return r

    inner.query = inner_query

    real_tca = w._transform_cand_annot

    def tca(*a, **k):
        r = real_tca(*a, **k)
        spy["tca"] = (None if r[1] is None else np.array(r[1]).copy(), np.array(r[2]).copy())
        return r

    w._transform_cand_annot = tca

    real_qa = w._query_annotators

    def qa(A_cand, batch_size, sample_utilities, annotator_utilities, return_utilities, pref_n_annotators, qs_indices):
        spy["qa"] = dict(
            A_cand=np.array(A_cand).copy(), batch_size=int(batch_size), sample_utilities=np.array(sample_utilities).copy(),
            annotator_utilities=np.array(annotator_utilities).copy(), pref=np.array(pref_n_annotators).copy(),
            sample_indices=np.array(qs_indices).copy(),
        )
        return real_qa(A_cand, batch_size, sample_utilities, annotator_utilities, return_utilities, pref_n_annotators, qs_indices)

    w._query_annotators = qa

    real_nas = w._n_to_assign_annotators

    def nas(batch_size, A, s_indices, pref_n_annotators):
        if short_alarm:
            try:
                nmax = np.sum(np.asarray(A) != 0, axis=1)[np.asarray(s_indices)]
                if float(np.sum(nmax)) < float(batch_size):
                    signal.alarm(SHORT_ALARM_S)   # the loop's own exit condition is unreachable: no need to wait 20 s
                    spy["saturated"] = True
            except Exception:
                pass
        r = real_nas(batch_size, A, s_indices, pref_n_annotators)
        spy["nas"] = np.array(r).copy()
        try:
            s_arr = np.asarray(s_indices).astype(int).ravel()
            spy["nas_args"] = dict(b=int(batch_size), A=(np.asarray(A) != 0).copy(), s=s_arr.copy(),
                                   pref=np.broadcast_to(np.asarray(pref_n_annotators).astype(int), s_arr.shape).copy())
        except Exception:  # noqa: BLE001
            spy.pop("nas_args", None)
        return r

    w._n_to_assign_annotators = nas

    real_ra = wmod.rand_argmax

    def ra(a, random_state=None, **k):
        st = random_state.get_state() if isinstance(random_state, np.random.RandomState) else None
        r = real_ra(a, random_state=random_state, **k)
        if st is not None:
            spy["noises"].append(replay_noise(st, np.asarray(a).shape))
        else:
            spy["noises"].append(None)
        return r

    wmod.rand_argmax = ra
    old = signal.signal(signal.SIGALRM, _on_alarm)
    res = dict(spy=spy)
    signal.alarm(alarm_s)
    try:
        with np.errstate(all="ignore"):
            Q, U = w.query(
                X, y, candidates=cand, annotators=annot, batch_size=prob["batch_size"],
                n_annotators_per_sample=(prob["naps"] if isinstance(prob["naps"], int) else np.array(prob["naps"], dtype=int)),
                A_perf=A_perf, return_utilities=True, **kw,
            )
        res.update(status="ok", Q=np.array(Q), U=np.array(U))
    except BaseException as e:  # Timeout derives from Exception; keep KeyboardInterrupt out
        if isinstance(e, KeyboardInterrupt):
            raise
        res.update(status=err_enum(e), exc=e)
    finally:
        signal.alarm(0)
        signal.signal(signal.SIGALRM, old)
        wmod.rand_argmax = real_ra
    return res


def run_iet(prob, alarm_s=ALARM_S):
    from skactiveml.classifier.multiannotator import AnnotatorLogisticRegression
    from skactiveml.pool.multiannotator import IntervalEstimationThreshold
    from skactiveml.pool.multiannotator import _interval_estimation_threshold as imod

    X, y, ml, cand, annot, _ = arrays(prob)
    clf = AnnotatorLogisticRegression(classes=[0, 1], missing_label=ml, max_iter=3, random_state=0)
    q = IntervalEstimationThreshold(missing_label=ml, random_state=prob["seed"] % 100003)
    spy = dict(sb=None, tca=None)
    real_tca = q._transform_cand_annot

    def tca(*a, **k):
        r = real_tca(*a, **k)
        spy["tca"] = (None if r[1] is None else np.array(r[1]).copy(), np.array(r[2]).copy())
        return r

    q._transform_cand_annot = tca
    real_sb = imod.simple_batch

    def sb(utilities, random_state=None, batch_size=1, return_utilities=False, method="max"):
        u0 = np.array(utilities, dtype=float).copy()
        st = random_state.get_state() if isinstance(random_state, np.random.RandomState) else None
        spy["sb"] = dict(u=u0, batch_size=batch_size, noises=[])
        r = real_sb(utilities, random_state, batch_size=batch_size, return_utilities=return_utilities, method=method)
        k = len(r[0]) if return_utilities else len(r)
        if st is not None:
            rs = np.random.RandomState()
            rs.set_state(st)
            spy["sb"]["noises"] = [rs.random(u0.shape) for _ in range(k)]
        return r

    imod.simple_batch = sb
    old = signal.signal(signal.SIGALRM, _on_alarm)
    res = dict(spy=spy)
    signal.alarm(alarm_s)
    try:
        with np.errstate(all="ignore"):
            Q, U = q.query(X, y, clf, candidates=cand, annotators=annot, batch_size=prob["batch_size"], return_utilities=True)
        res.update(status="ok", Q=np.array(Q), U=np.array(U))
    except BaseException as e:
        if isinstance(e, KeyboardInterrupt):
            raise
        res.update(status=err_enum(e), exc=e)
    finally:
        signal.alarm(0)
        signal.signal(signal.SIGALRM, old)
        imod.simple_batch = real_sb
    return res


# ---------------------------------------------------------------------------------------------
# canonical forms


def canon_map_A(mapping, A, m):
    A = np.asarray(A)
    ms = "map none" if mapping is None else f"map {len(mapping)} " + " ".join(str(int(i)) for i in mapping)
    r = A.shape[0]
    if A.dtype == bool:
        cells = " ".join("1" if b else "0" for b in A.ravel())
    else:
        cells = " ".join(f2bits(x) if A.dtype.kind == "f" else str(int(x)) for x in A.ravel())
    return " ".join(f"{ms} A {A.dtype} {r} {m} {cells}".split())


def canon_rows(U):
    return " ; ".join(" ".join(f2bits(x) for x in np.asarray(u).ravel()) for u in U)


def canon_pairs(Q):
    return " ".join(f"{int(a)} {int(b)}" for a, b in np.asarray(Q).reshape(-1, 2))


# ---------------------------------------------------------------------------------------------
# the property oracle (on real outputs only)


def documented_pref(naps, n_ranked):
    """`n_annotators_per_sample` as documented, for `n_ranked` ranked samples: (vector, class of the request)."""
    if isinstance(naps, int):
        return [naps] * n_ranked, "int"
    arr = [int(x) for x in naps]
    if len(arr) >= n_ranked:
        return arr[:n_ranked], "array-covers-ranking"
    return arr + [arr[-1]] * (n_ranked - len(arr)), "array-shorter-than-ranking"


def oracle(ctx, cls, prob, res, inner_name=None, selectable_only=False):
    """Checks exactly what C07 states.  `selectable_only`: IntervalEstimationThreshold outside its
    documented domain (available pairs = pairs of samples whose annotators are all available)."""
    pairs, n_out = avail_pairs(prob)
    m = len(prob["y"][0])
    replay = dict(kind=cls, prob=prob, inner=inner_name)
    keyb = f"C07/{cls}.query"
    if res["status"] == "err non-termination":
        pc = "all-false-availability-row" if prob["amode"] == "mat" and any(not any(r) for r in prob["annotators"]) else "other"
        ctx.violate(
            f"C07/{cls}._n_to_assign_annotators/non-termination/{pc}",
            f"{cls}.query did not return within the alarm ({inner_name}); _n_to_assign_annotators cannot reach batch_size",
            replay,
        )
        return
    if res["status"] != "ok":
        kind = res["status"].split(":")[1] if res["status"].startswith("err other:") else res["status"].replace("err ", "")
        ctx.violate(f"{keyb}/raises-{kind}", f"{cls}.query raised on valid arguments: {res['status']}", replay)
        return
    Q, U = res["Q"], res["U"]
    if selectable_only:
        rows_full = {}
        for (s, j) in pairs:
            rows_full.setdefault(s, set()).add(j)
        pairs_k = {(s, j) for (s, j) in pairs if len(rows_full[s]) == m}
    else:
        pairs_k = pairs
    k = min(int(res.get("requested", prob["batch_size"])), len(pairs_k))
    bad = None
    if Q.ndim != 2 or Q.shape[1] != 2 or Q.dtype.kind not in "iu":
        bad = ("shape", f"query_indices has shape {Q.shape} dtype {Q.dtype}, expected integer (k, 2)")
    elif Q.shape[0] != k:
        what = "#pairs of fully available samples" if selectable_only else "#available pairs"
        bad = ("batch-size", f"returned {Q.shape[0]} pairs, expected min(batch_size, {what}) = {k}")
    else:
        got = [(int(a), int(b)) for a, b in Q]
        if len(set(got)) != len(got):
            bad = ("duplicate-pairs", f"duplicate pairs in {got}")
        elif any(p not in pairs for p in got):
            bad = ("unavailable-pair", f"returned unavailable pair(s) {[p for p in got if p not in pairs]}")
        elif U.shape != (k, n_out, m):
            bad = ("utilities-shape", f"utilities have shape {U.shape}, expected {(k, n_out, m)}")
        else:
            for t in range(k):
                must_nan = np.ones((n_out, m), dtype=bool)
                for (s, j) in pairs:
                    must_nan[s, j] = False
                for (s, j) in got[:t]:
                    must_nan[s, j] = True
                if not np.all(np.isnan(U[t][must_nan])):
                    w = np.argwhere(must_nan & ~np.isnan(U[t]))[0]
                    bad = ("utilities-not-nan", f"utilities[{t}] is a number at the unavailable / already selected pair {tuple(int(x) for x in w)}")
                    break
    if bad is None and cls == "SingleAnnotatorWrapper" and res.get("inner_ok"):
        # n_annotators_per_sample respected whenever enough annotators are available.  The requested vector is
        # computed here from the *documented* rule (never taken from the code): an int applies to every ranked
        # sample; an array gives the number for the i-th ranked sample, is cut to the ranking and, when shorter,
        # extended by repeating its LAST entry.  Applicable when every ranked sample has at least its requested
        # number of available annotators and the requests fill the batch (otherwise the code must raise them).
        c = res["inner_samples"]
        pref, pclass = documented_pref(prob["naps"], len(c))
        nmax = [sum(1 for (s, j) in pairs if s == cs) for cs in c]
        if all(n >= p for n, p in zip(nmax, pref)) and sum(pref) >= k:
            ctx.count("naps_oracle_applicable_" + pclass)
            left = k
            exp = {}
            for cs, p in zip(c, pref):
                take = min(p, left)
                if take:
                    exp[cs] = take
                left -= take
            groups = []        # consecutive same-sample groups of the returned pairs
            for (s, j) in got:
                if groups and groups[-1][0] == s:
                    groups[-1][1] += 1
                else:
                    groups.append([s, 1])
            cnt = {s: n for s, n in groups}
            if len(cnt) != len(groups) or cnt != exp:
                bad = (
                    "n-annotators-per-sample/" + pclass,
                    f"annotators per ranked sample {[tuple(g) for g in groups]}, requested {exp} (inner ranking {c}, "
                    f"n_annotators_per_sample={prob['naps']} -> documented preference {pref})",
                )
    if bad and cls == "SingleAnnotatorWrapper" and res.get("inner_inf"):
        # the inner strategy's utility at one of its picks is +-inf: before repair 79ce7853 `np.nanmax(row) + 1` was then
        # not above the row and the chosen sample was not forced to the top rank (one root cause, several symptoms)
        ctx.violate(
            "C07/SingleAnnotatorWrapper._get_order_preserving_s_query/chosen-sample-not-top/inner-utilities-infinite",
            f"{cls}.query ({inner_name}) with infinite inner utilities at the picks: {bad[1]}",
            replay,
        )
    elif bad:
        ctx.violate(f"{keyb}/{bad[0]}", f"{cls}.query ({inner_name}): {bad[1]}", replay)


# ---------------------------------------------------------------------------------------------
# one case each


def nontrivial(prob):
    b = prob["batch_size"]
    return len(avail_pairs(prob)[0]) >= 2 and (b == "adaptive" or b >= 2)


def wrapper_case(ctx, lines, expect, prob, inner_name, alarm_s=ALARM_S, short_alarm=True):
    pairs, n_out = avail_pairs(prob)
    m = len(prob["y"][0])
    if not pairs:
        ctx.count("skipped_no_available_pair")
        return
    res = run_wrapper(prob, inner_name, alarm_s=alarm_s, short_alarm=short_alarm)
    spy = res["spy"]
    st = res["status"]
    if st.startswith("err other:MappingError") or (st.startswith("err other:") and spy["inner"] is None and spy["tca"] is not None and prob["cmode"] == "feat"):
        ctx.count("skipped_inner_needs_mapping")       # inner strategy does not accept feature-row candidates
        return
    if st.startswith("err other:") and spy["tca"] is not None and spy["inner"] is None and spy["qa"] is None:
        # the inner strategy itself raised (its own domain, e.g. too few labels): not the wrapper's logic
        ctx.count("skipped_inner_raised:" + st.split(":")[1])
        return
    ctx.count(f"wrapper_c-{prob['cmode']}_a-{prob['amode']}")
    ctx.count("wrapper_inner_" + inner_name)
    ctx.count("wrapper_status_" + st.split(":")[0].replace(" ", "_") + ("" if not st.startswith("err other") else "_" + st.split(":")[1]))
    ctx.count("naps_" + ("int" if isinstance(prob["naps"], int) else "array"))
    if spy.get("saturated"):
        # sum(n_max_chosen) < batch_size: before repair 6c5fda89 the loop never exited here
        ctx.count("wrapper_saturated_assign_" + st.split(":")[0].replace(" ", "_"))
    ctx.count("A_perf_" + ("none" if prob["A_perf"] is None else "vector" if not isinstance(prob["A_perf"][0], list) else "matrix"))
    if prob["batch_size"] >= len(pairs):
        ctx.count("batch_ge_pairs")
    case = dict(kind="SingleAnnotatorWrapper", prob=prob, inner=inner_name)
    ctx.case(("w", inner_name, repr(prob)), nontrivial(prob), sample=dict(cls="SingleAnnotatorWrapper", inner=inner_name, cmode=prob["cmode"], amode=prob["amode"],
             batch_size=prob["batch_size"], naps=prob["naps"], y=prob["y"], candidates=prob["candidates"], annotators=prob["annotators"],
             status=st, result=(res["Q"].tolist() if st == "ok" else None)))
    # ---- inner contract (precondition of the theorem / of the n_annotators_per_sample clause)
    res["inner_ok"] = False
    if spy["inner"] is not None and spy["tca"] is not None:
        qs, wu, bsq = spy["inner"]
        mapping = spy["tca"][0]
        # C01 for the wrapped strategy: min(requested, #distinct candidates) distinct picks (the wrapper may ask for more
        # than there are candidates; the wrapped strategy then clips)
        n_inner_cand = len(set(int(i) for i in mapping)) if mapping is not None else (wu.shape[1] if wu.ndim == 2 else 0)
        ok = qs.ndim == 1 and len(qs) == min(bsq, n_inner_cand) and len(set(qs.tolist())) == len(qs) and wu.ndim == 2 and wu.shape[0] == len(qs)
        if ok:
            for t, s in enumerate(qs):
                if not (0 <= s < wu.shape[1]) or np.isnan(wu[t, s]) or (mapping is not None and s not in mapping):
                    ok = False
        res["inner_ok"] = bool(ok)
        res["inner_inf"] = bool(ok and any(np.isinf(wu[t, s]) for t, s in enumerate(qs)))
        if res["inner_inf"]:
            ctx.count("inner_pick_utility_infinite_" + inner_name)
        if ok:
            res["inner_samples"] = [int(s) for s in qs]
            if spy["qa"] is not None:
                res["pref"] = [int(p) for p in spy["qa"]["pref"]]
            else:
                res["inner_ok"] = False
        else:
            ctx.count("inner_contract_broken_" + inner_name)
    if spy["inner"] is not None and not res["inner_ok"] and spy["qa"] is None:
        ctx.count("skipped_inner_contract")
        return
    # ---- model line ---------------------------------------------------------------------------
    if spy["inner"] is None or spy["tca"] is None or spy["qa"] is None:
        # the call failed before the inner strategy returned: nothing for the model to replay; the oracle decides
        oracle(ctx, "SingleAnnotatorWrapper", prob, res, inner_name)
        return
    qs, wu, _ = spy["inner"]
    qa = spy["qa"]
    au = qa["annotator_utilities"]
    au0 = au[0] if au.shape[0] > 0 else np.zeros(qa["A_cand"].shape)
    n_sel = qa["A_cand"].shape[0]
    noises = [nz for nz in spy["noises"] if nz is not None]
    naps = prob["naps"]
    pref_tok = f"S {naps}" if isinstance(naps, int) else f"L {len(naps)} " + " ".join(map(str, naps))
    line = (
        f"ma_wrapper {spec_tokens(prob)} {prob['batch_size']} {pref_tok} {len(qs)} " + " ".join(str(int(s)) for s in qs)
        + f" {wu.shape[0]} {wu.shape[1]} " + " ".join(f2bits(x) for x in wu.ravel())
        + f" {au0.size} " + " ".join(f2bits(x) for x in au0.ravel())
        + f" {len(noises)} {n_sel * m} " + " ".join(f2bits(x) for nz in noises for x in nz.ravel())
    )
    line = " ".join(line.split())
    if st == "ok":
        mapping, A = spy["tca"]
        impl = (
            f"ok b {qa['batch_size']} " + canon_map_A(mapping, A, m) + " pref " + " ".join(str(int(p)) for p in qa["pref"])
            + " nas " + " ".join(str(int(x)) for x in spy["nas"]) + " | " + canon_pairs(res["Q"]) + " | " + canon_rows(res["U"])
        )
        if "nas_args" in spy:
            GEN_ASSIGN.append((spy["nas_args"], [int(x) for x in spy["nas"]], case))
    else:
        impl = st
    lines.append(line)
    expect.append((" ".join(impl.split()), case))
    if res["inner_ok"]:
        oracle(ctx, "SingleAnnotatorWrapper", prob, res, inner_name)
    else:
        # the wrapped strategy returned duplicate picks / a NaN pick (C01/C02 territory, e.g. CoreSet on labeled
        # candidates): outside C07's precondition, whatever the wrapper then does (model and code still have to agree)
        ctx.count("oracle_skipped_inner_contract" + ("" if st == "ok" else "_" + st.split(":")[0].replace(" ", "_")))


def iet_case(ctx, lines, expect, prob, alarm_s=ALARM_S):
    pairs, n_out = avail_pairs(prob)
    m = len(prob["y"][0])
    res = run_iet(prob, alarm_s=alarm_s)
    spy = res["spy"]
    st = res["status"]
    ctx.count(f"iet_c-{prob['cmode']}_a-{prob['amode']}")
    ctx.count("iet_status_" + st.split(":")[0].replace(" ", "_") + ("" if not st.startswith("err other") else "_" + st.split(":")[1]))
    case = dict(kind="IntervalEstimationThreshold", prob=prob, inner=None)
    ctx.case(("iet", repr(prob)), nontrivial(prob), sample=dict(cls="IntervalEstimationThreshold", cmode=prob["cmode"], amode=prob["amode"],
             batch_size=prob["batch_size"], y=prob["y"], candidates=prob["candidates"], annotators=prob["annotators"], status=st,
             result=(res["Q"].tolist() if st == "ok" else None)))
    rows = {}
    for (s, j) in pairs:
        rows.setdefault(s, set()).add(j)
    documented = all(len(v) == m for v in rows.values())
    ctx.count("iet_documented_domain" if documented else "iet_outside_documented_domain")
    if spy["sb"] is not None and spy["tca"] is not None:
        sbs = spy["sb"]
        res["requested"] = sbs["batch_size"] if isinstance(sbs["batch_size"], (int, np.integer)) else prob["batch_size"]
        mapping, A = spy["tca"]
        u = sbs["u"]
        usel = u if mapping is None else u[mapping]
        usel = np.where(np.isnan(usel), 0.0, usel)          # the model re-derives the NaN mask from its own A_cand
        noises = sbs["noises"]
        line = (
            f"ma_iet {spec_tokens(prob)} {int(res['requested'])} {usel.size} " + " ".join(f2bits(x) for x in usel.ravel())
            + f" {len(noises)} {u.size} " + " ".join(f2bits(x) for nz in noises for x in nz.ravel())
        )
        if st == "ok":
            impl = "ok " + canon_map_A(mapping, A, m) + " | " + canon_pairs(res["Q"]) + " | " + canon_rows(res["U"])
        else:
            impl = st
        lines.append(" ".join(line.split()))
        expect.append((" ".join(impl.split()), case))
    if isinstance(prob["batch_size"], int) and prob["batch_size"] < 1:
        return
    oracle(ctx, "IntervalEstimationThreshold", prob, res, None, selectable_only=not documented)


# ---------------------------------------------------------------------------------------------


def transform_lines(ctx, lines, expect, prob):
    """`_validate_data` + `_transform_cand_annot` alone (cheap; all nine argument combinations, int and float y)."""
    from skactiveml.pool.multiannotator import SingleAnnotatorWrapper
    from skactiveml.pool import RandomSampling

    X, y, ml, cand, annot, _ = arrays(prob)
    w = SingleAnnotatorWrapper(RandomSampling(missing_label=ml), missing_label=ml, random_state=0)
    m = len(prob["y"][0])
    try:
        Xv, yv, cv, av, b, _ = w._validate_data(X, y, cand, annot, prob["batch_size"], True)
        Xc, mapping, A = w._transform_cand_annot(cv, av, Xv, yv)
        impl = f"pairs ? b {b} " + canon_map_A(mapping, A, m)
    except Exception as e:
        impl = err_enum(e)
    lines.append(f"ma_transform {spec_tokens(prob)} {prob['batch_size']}")
    expect.append((impl, dict(kind="transform", prob=prob, inner=None)))
    ctx.count(f"transform_c-{prob['cmode']}_a-{prob['amode']}_{'int' if prob['int_y'] else 'float'}y")
    ctx.case(("t", repr(prob)), nontrivial(prob))
    # oracle: Boolean mask that marks exactly the available pairs
    if not impl.startswith("err"):
        pairs, _ = avail_pairs(prob)
        A = np.asarray(A)
        bad = None
        if A.dtype != bool:
            bad = ("mask-dtype", f"A_cand has dtype {A.dtype}, not bool")
        else:
            rows = list(range(A.shape[0])) if mapping is None else [int(s) for s in mapping]
            got = {(s, j) for i, s in enumerate(rows) for j in range(A.shape[1]) if A[i, j]}
            if got != pairs:
                bad = ("mask-wrong", f"A_cand marks {sorted(got ^ pairs)} differently from the arguments")
        if bad:
            ctx.violate(f"C07/MultiAnnotatorPoolQueryStrategy._transform_cand_annot/{bad[0]}", bad[1], dict(kind="transform", prob=prob, inner=None))


GEN_ASSIGN = []     # (captured arguments, result) of every real `_n_to_assign_annotators` call of this run


def generate(ctx):
    from ..translate import pyannot

    pyannot.generate(ctx)


def gen_assign_correspond(ctx):
    """`_n_to_assign_annotators` on the arguments the real calls of this run received, plus direct calls of the real static method on
    random matrices (all-False rows, saturated batches): compared with the hand-written `nToAssign` (`ma_assign`) and, when its
    theorems check, with the function translated from the current source (`Gen/AnnotGen.lean`, `g_ma_assign`).  Arguments on which
    the implementation deviates are leads for the failing-input search (`search`)."""
    import os

    from skactiveml.pool.multiannotator import SingleAnnotatorWrapper

    annot_exe = vlib.WRAPGENDRIVER.replace("skawrapgendriver", "skaannotgendriver")
    rng = ctx.rng
    jobs = list(GEN_ASSIGN)
    del GEN_ASSIGN[:]
    for _ in range(300 if not ctx.thorough else 3000):
        r, c = rng.randint(1, 6), rng.randint(1, 4)
        A = np.array([[rng.random() < rng.choice([0.0, 0.3, 0.7, 1.0]) for _ in range(c)] for _ in range(r)], dtype=bool)
        k = rng.randint(1, r)
        s = np.array(rng.sample(range(r), k))
        pref = np.array([rng.randint(1, c + 1) for _ in range(k)]) if rng.random() < 0.5 else np.full(k, rng.randint(1, c + 1))
        b = rng.randint(1, int(A.sum()) + 3)
        old = signal.signal(signal.SIGALRM, _on_alarm)
        signal.alarm(SHORT_ALARM_S)
        try:
            res = [int(x) for x in SingleAnnotatorWrapper._n_to_assign_annotators(b, A, s, pref)]
        except Timeout:
            res = None
        except Exception as e:  # noqa: BLE001
            res = f"raised {type(e).__name__}"
        finally:
            signal.alarm(0)
            signal.signal(signal.SIGALRM, old)
        jobs.append((dict(b=b, A=A, s=s, pref=pref), res, dict(kind="direct")))
        ctx.count("assign_direct_calls")
    hand, gen, expect = [], [], []
    for a, res, case in jobs:
        A = a["A"]
        fuel = int(A.sum()) + 1
        nmax = A.sum(axis=1)[a["s"]]
        tail = f" {len(a['pref'])} " + " ".join(str(int(x)) for x in a["pref"]) + f" {fuel}"
        hand.append(f"ma_assign {a['b']} {len(nmax)} " + " ".join(str(int(x)) for x in nmax) + tail)
        gen.append(f"g_ma_assign {a['b']} {A.shape[0]} {A.shape[1]} " + " ".join(str(int(x)) for x in A.ravel())
                   + f" {len(a['s'])} " + " ".join(str(int(x)) for x in a["s"]) + tail)
        expect.append("err non-termination" if res is None else (res if isinstance(res, str) else "ok " + " ".join(map(str, res))))
        ctx.count("assign_cases")
        ctx.count("assign_saturated" if nmax.sum() < a["b"] else "assign_fillable")
    leads = []
    outs = vlib.run_driver([" ".join(l.split()) for l in hand])
    for (a, res, case), line, out, impl in zip(jobs, hand, outs, expect):
        if out.split() != impl.split():
            ctx.disagree("SkaModel.Core.MultiAnnot.nToAssign vs SingleAnnotatorWrapper._n_to_assign_annotators",
                         dict(kind=case.get("kind"), line=line[:600]), out[:300], impl[:300])
            leads.append(a)
    ctx.assign_leads = getattr(ctx, "assign_leads", []) + leads
    if getattr(ctx, "gen_ok", False) and os.path.exists(annot_exe):
        outs = vlib.run_driver([" ".join(l.split()) for l in gen], exe=annot_exe)
        for line, out, impl in zip(gen, outs, expect):
            ctx.count("generated_assign_cases")
            if out.split() != impl.split():
                ctx.disagree("SkaModel.Gen.AnnotGen (translated from the current source) vs SingleAnnotatorWrapper._n_to_assign_annotators",
                             dict(line=line[:600]), out[:300], impl[:300])


def lead_problems(ctx, rng):
    """Query problems built from the argument tuples on which `_n_to_assign_annotators` deviated: availability = the missing-label
    pattern of y, a scalar / array `n_annotators_per_sample`, the batch size of the lead and its neighbours."""
    probs = []
    for a in getattr(ctx, "assign_leads", [])[:40]:
        A = np.asarray(a["A"], dtype=bool)
        r, c = A.shape
        if r < 2 or not A.any():
            continue
        for b in sorted({int(a["b"]), max(1, int(a["b"]) - 1), int(A.sum()), int(A.sum()) + 1}):
            y = [[(None if A[i][j] else (i + j) % 2) for j in range(c)] for i in range(r)]
            X = [[rng.randint(-8, 8) / 4.0, rng.randint(-8, 8) / 4.0] for _ in range(r)]
            pref = [int(x) for x in a["pref"]]
            naps = pref[0] if len(set(pref)) == 1 else pref
            probs.append(dict(X=X, y=y, cmode="none", amode="none", candidates=None, annotators=None, int_y=False, batch_size=b,
                              naps=naps, A_perf=None, seed=rng.randrange(2**31 - 1)))
    return probs


def compare(ctx, lines, expect):
    gen_assign_correspond(ctx)
    outs = vlib.run_driver(lines)
    for line, out, (impl, case) in zip(lines, outs, expect):
        if case["kind"] == "transform":
            # model prints `pairs <n> b <clipped>`; the code only exposes the clipped batch size
            o = out.split()
            i = impl.split()
            if impl.startswith("err") or len(o) < 4 or o[2:] != i[2:]:
                ctx.disagree("SkaModel.Core.MultiAnnot.transformCandAnnot vs _validate_data/_transform_cand_annot", dict(case, line=line[:600]), out[:600], impl[:600])
            continue
        if out.split() != impl.split():
            ctx.disagree(
                "SkaModel.Core.MultiAnnot vs skactiveml.pool.multiannotator (" + case["kind"] + ")",
                dict(case, line=line[:800]), out[:800], impl[:800],
            )


def correspond(ctx):
    rng = ctx.rng
    lines, expect = [], []
    F = inner_factories()
    n_wrap = 330 if not ctx.thorough else 3600
    n_iet = 90 if not ctx.thorough else 900
    n_tr = 300 if not ctx.thorough else 3000
    combos = [(c, a) for c in ("none", "idx", "feat") for a in ("none", "idx", "mat")]
    for i in range(n_wrap):
        c, a = combos[i % 9]
        prob = make_problem(rng, c, a, near_pairs=rng.random() < 0.3)
        if rng.random() < 0.8:
            inner = FAST_INNER[i % len(FAST_INNER)] if rng.random() < 0.7 else rng.choice(FAST_INNER)
        else:
            inner = rng.choice(SLOW_INNER)
        assert inner in F
        wrapper_case(ctx, lines, expect, prob, inner)
    # array-valued n_annotators_per_sample shorter than the ranking, all annotators available
    for i in range(60 if not ctx.thorough else 600):
        prob = make_naps_problem(rng)
        wrapper_case(ctx, lines, expect, prob, "RandomSampling" if i % 3 == 0 else FAST_INNER[i % len(FAST_INNER)])
    # int-valued y with missing_label=-1 (RandomSampling ignores the labels)
    for i in range(40 if not ctx.thorough else 300):
        c, a = combos[i % 9]
        prob = make_problem(rng, c, a, int_y=True)
        wrapper_case(ctx, lines, expect, prob, "RandomSampling")
    # availability matrices with a row without any available annotator (saturated assignment when the inner
    # strategy selects such a sample; a non-terminating call would cost an alarm each)
    n_empty = 60 if not ctx.thorough else 600
    for i in range(n_empty):
        prob = make_problem(rng, ["none", "idx", "feat"][i % 3], "mat", empty_rows=True, near_pairs=(i % 4 == 3))
        if i % 4 != 3:
            prob["batch_size"] = rng.choice([1, 1, 2, 3, prob["batch_size"]])
        wrapper_case(ctx, lines, expect, prob, "RandomSampling" if i % 2 == 0 else rng.choice(FAST_INNER))
    # the former minimal reproducer of the non-termination (regression case, run every time):
    # sample 0 has no available annotator; RandomSampling(random_state=0) picks it first
    for seed in (0, 2):
        wrapper_case(ctx, lines, expect, dict(MINIMAL_DIVERGENCE, seed=seed), "RandomSampling")
    # inner strategy with -inf utilities at its picks (regression case, run every time)
    wrapper_case(ctx, lines, expect, dict(NEG_INF_INNER), "TypiClust")
    if ctx.thorough:
        # control with the full 20 s alarm and no early re-arm
        wrapper_case(ctx, lines, expect, dict(MINIMAL_DIVERGENCE, seed=0, A_perf=[0.0, 1.0]), "RandomSampling", short_alarm=False)
    for i in range(n_iet):
        c, a = combos[i % 9]
        prob = make_problem(rng, c, a, near_pairs=rng.random() < 0.3)
        if rng.random() < 0.15:
            prob["batch_size"] = "adaptive"
        iet_case(ctx, lines, expect, prob)
    for i in range(n_tr):
        c, a = combos[i % 9]
        prob = make_problem(rng, c, a, int_y=(i % 2 == 1), empty_rows=(rng.random() < 0.2))
        transform_lines(ctx, lines, expect, prob)
    if ctx.thorough:
        exhaustive_small_scope(ctx, lines, expect)
    compare(ctx, lines, expect)


def exhaustive_small_scope(ctx, lines, expect):
    """Thorough tier: every argument combination over a small finite space.
    (a) `_validate_data` + `_transform_cand_annot`: 2 samples x 2 annotators, all 16 missing patterns x all candidate
        specs x all annotator specs (all index subsets, all Boolean matrices) x float/int y;
    (b) full wrapper queries: 2 unlabeled samples x 2 annotators, candidates=None, all 15 non-empty Boolean
        availability matrices x batch sizes 1..3 (includes every all-False-row pattern)."""
    import itertools

    X = [[0.0, 1.0], [2.0, 3.0]]
    n_a = 0
    cand_specs = [("none", None), ("idx", [0]), ("idx", [1]), ("idx", [0, 1]), ("feat", [[0.5, 0.5]]), ("feat", [[0.5, 0.5], [1.5, 0.0]])]
    for pat in itertools.product([None, 0], repeat=4):
        y = [[pat[0], pat[1]], [pat[2], pat[3]]]
        y_used = y
        for cmode, cand in cand_specs:
            n_cand = 2 if cmode == "none" else len(cand)
            annot_specs = [("none", None), ("idx", [0]), ("idx", [1]), ("idx", [0, 1])]
            for bitsM in itertools.product([False, True], repeat=2 * n_cand):
                annot_specs.append(("mat", [list(bitsM[2 * r: 2 * r + 2]) for r in range(n_cand)]))
            for amode, annot in annot_specs:
                for int_y in (False, True):
                    prob = dict(X=X, y=y_used, cmode=cmode, amode=amode, candidates=cand, annotators=annot, int_y=int_y,
                                batch_size=3, naps=1, A_perf=None, seed=0)
                    transform_lines(ctx, lines, expect, prob)
                    n_a += 1
    n_b = 0
    y = [[None, None], [None, None]]
    for bitsM in itertools.product([False, True], repeat=4):
        M = [list(bitsM[0:2]), list(bitsM[2:4])]
        if not any(bitsM):
            continue
        for b in (1, 2, 3):
            prob = dict(X=X, y=y, cmode="none", amode="mat", candidates=None, annotators=M, int_y=False, batch_size=b,
                        naps=1, A_perf=None, seed=0)
            wrapper_case(ctx, lines, expect, prob, "RandomSampling")
            n_b += 1
    ctx.notes["exhaustive_subrun"] = (
        f"(a) {n_a} _transform_cand_annot cases: all 2x2 missing patterns x 6 candidate specs x all annotator specs "
        f"(index subsets, every Boolean matrix); (b) {n_b} wrapper queries: all non-empty 2x2 availability matrices x batch 1..3"
    )
    ctx.exhaustive = False  # the random part is not exhaustive; the sub-run above is


def search(ctx):
    """Failing-input search on the implementation alone (property oracle), biased to the suspicious regions:
    availability matrices with empty rows, candidates=None with an annotator index array for float and int y,
    batch sizes near the number of available pairs."""
    rng = ctx.rng
    lines, expect = [], []
    # leads first: queries built from the arguments on which `_n_to_assign_annotators` deviated from the model
    for prob in lead_problems(ctx, rng):
        ctx.count("search_lead_problems")
        for inner in ("RandomSampling", "UncertaintySampling"):
            wrapper_case(ctx, lines, expect, prob, inner)
        if any("non-termination" not in v["key"] for v in ctx.violations):
            return
    budget = 400 if not ctx.thorough else 2500
    n_timeouts = 0
    for i in range(budget):
        r = i % 4
        if i % 6 == 5:
            prob = make_naps_problem(rng)
        elif r == 0:
            prob = make_problem(rng, "none", "idx", int_y=(i % 8 == 0), near_pairs=True)
        elif r == 1 and n_timeouts < 3:
            prob = make_problem(rng, rng.choice(["none", "idx", "feat"]), "mat", empty_rows=True, near_pairs=rng.random() < 0.5)
        elif r == 2:
            prob = make_problem(rng, near_pairs=True)
        else:
            prob = make_problem(rng, int_y=rng.random() < 0.3)
        before = len(ctx.violations)
        transform_lines(ctx, lines, expect, prob)
        if i % 5 == 4:
            iet_case(ctx, lines, expect, dict(prob, int_y=False))
        else:
            inner = "RandomSampling" if prob["int_y"] else rng.choice(FAST_INNER)
            wrapper_case(ctx, lines, expect, prob, inner)
        for v in ctx.violations[before:]:
            if "non-termination" in v["key"]:
                n_timeouts += 1
        keys = {v["key"] for v in ctx.violations}
        if len([k for k in keys if "non-termination" not in k]) >= 1:
            return


def replay(payload):
    """Re-run a recorded failing input on the real code and print what happens."""
    ctx = vlib.Ctx("C07", "quick", 0)
    r = payload.get("replay", {})
    prob = r.get("prob")
    lines, expect = [], []
    if prob is None:
        print("nothing to replay")
        return 0
    prob = dict(prob)
    prob["y"] = [[(None if v is None else int(v)) for v in row] for row in prob["y"]]
    if r.get("kind") == "SingleAnnotatorWrapper":
        wrapper_case(ctx, lines, expect, prob, r.get("inner") or "RandomSampling")
    elif r.get("kind") == "IntervalEstimationThreshold":
        iet_case(ctx, lines, expect, prob)
    else:
        transform_lines(ctx, lines, expect, prob)
    for v in ctx.violations:
        print("REPRODUCED:", v["key"], "-", v["what"])
    return 1 if ctx.violations else 0
