"""C16 — label predicates and the label encoder: correspondence of `is_unlabeled`, `is_labeled`,
`labeled_indices`, `unlabeled_indices`, `ExtLabelEncoder.fit/transform/inverse_transform` with the
Lean model `SkaModel/Core/Label.lean`, plus the property's own oracle on every implementation output.

Labels reach the model as kind tags + small integer codes: numbers and strings occurring in a case are
replaced by their rank in the sorted set of the numbers / strings of that case (order- and
equality-preserving; the model only compares labels)."""
import itertools
import math

import numpy as np

from .. import vlib

LEAN_TARGETS = ["SkaModel.Props.C16"]
LEVEL = "proof"
RULE = (
    "cases: calls of is_unlabeled / is_labeled / labeled_indices / unlabeled_indices and ExtLabelEncoder "
    "fit → transform → inverse_transform over dtype {float,int,str,object} x sentinel {NaN,None,-1,0,1.5,'nan','',unsupported types} "
    "x shape {(0,),(n,),(n,m),(0,m),(n,0)} x {all missing, none missing, mixed} x list/ndarray input x classes given/inferred "
    "(incl. duplicates, mixed kinds, classes containing the sentinel, unseen labels, out-of-range codes), as fresh objects and as "
    "sequences of 2-4 refits of ONE encoder object (set_params -> fit / fit_transform -> transform -> inverse_transform, then other classes / data / dtype), "
    "each step compared with the history-free model of that step alone. "
    "non-trivial = the call is accepted and the array has at least one missing and one present label "
    "(encoder: at least two classes); distinct = distinct (function, array, dtype, sentinel, classes) tuples"
)
ASSUMPTIONS = [
    "labels reach the Lean model as kind tags (number/NaN/string/None) and order-preserving integer codes computed by the harness per case",
    "the dtype class numpy infers for an input (number/string/object) is passed to the model as a tag (dtype inference is glue, not modelled)",
    "number arrays with a string sentinel passed as ndarray reach numpy's string casting: outside the modelled domain (model answers `unsupported`; counted, not judged)",
    "refits: the encoder object is re-used across consecutive cases and each step is compared with the history-free model of that step alone (theorem encoder_refit_history_free)",
    "object arrays mixing strings and numbers, NaN as a class label and classes containing None are outside the exercised domain",
]
TRUSTED = [
    "np.unique / sklearn LabelEncoder sort-and-deduplicate; np.argwhere enumerates in row-major order; np.append dtype promotion as tabulated in `appendKind`",
]

NAN = float("nan")


# ---------------------------------------------------------------------------------------------
# label <-> token coding (shared with c17.py / c09.py)

def is_nan(v):
    return isinstance(v, (float, np.floating)) and v != v


def is_num(v):
    return isinstance(v, (int, float, np.integer, np.floating)) and not isinstance(v, (bool, np.bool_))


def is_str(v):
    return isinstance(v, (str, np.str_))


class Coder:
    """Order-preserving integer codes for the numbers and the strings of one case."""

    def __init__(self, *collections):
        nums, strs = set(), set()
        for coll in collections:
            for v in self._flat(coll):
                if v is None or is_nan(v):
                    continue
                if is_num(v):
                    nums.add(float(v))
                elif is_str(v):
                    strs.add(str(v))
        self.nums = {v: i for i, v in enumerate(sorted(nums))}
        self.strs = {v: i for i, v in enumerate(sorted(strs))}

    @staticmethod
    def _flat(coll):
        if coll is None:
            return []
        if isinstance(coll, np.ndarray):
            return coll.ravel().tolist()
        if isinstance(coll, (list, tuple)):
            out = []
            for v in coll:
                if isinstance(v, (list, tuple, np.ndarray)):
                    out += Coder._flat(v)
                else:
                    out.append(v)
            return out
        return [coll]

    def tok(self, v):
        if v is None:
            return "none"
        if is_nan(v):
            return "nan"
        if is_num(v):
            return f"n{self.nums[float(v)]}" if float(v) in self.nums else f"?num:{v!r}"
        if is_str(v):
            return f"s{self.strs[str(v)]}" if str(v) in self.strs else f"?str:{v!r}"
        return f"?{type(v).__name__}"

    def toks(self, coll):
        return " ".join(self.tok(v) for v in self._flat(coll))

    def ml(self, v):
        if v is None or is_nan(v) or is_num(v) or is_str(v):
            return self.tok(v)
        return "bad"


def jv(v):
    """JSON-safe label value for replay payloads (a float NaN must stay distinguishable from the string 'nan')."""
    if isinstance(v, (list, tuple)):
        return [jv(x) for x in v]
    if isinstance(v, np.ndarray):
        return jv(v.tolist())
    if is_nan(v):
        return "__NaN__"
    if isinstance(v, np.generic):
        return v.item()
    return v


def unjv(v):
    if isinstance(v, list):
        return [unjv(x) for x in v]
    if isinstance(v, dict) and "__py__" in v:
        import ast

        return ast.literal_eval(v["__py__"])
    return NAN if v == "__NaN__" else v


def kind_of(a):
    k = np.asarray(a).dtype.kind
    return {"f": "n", "i": "n", "u": "n", "U": "s", "S": "s", "O": "o"}.get(k, "?")


def arr_tokens(coder, a):
    """`<kind> <rows> <cols|-> <labels…>` for an ndarray / nested list."""
    a = np.asarray(a) if not isinstance(a, np.ndarray) else a
    if a.ndim == 1:
        head = f"{kind_of(a)} {a.shape[0]} -"
    else:
        head = f"{kind_of(a)} {a.shape[0]} {a.shape[1]}"
    body = coder.toks(a)
    return (head + " " + body).strip()


def err_enum(e):
    s = str(e)
    if isinstance(e, TypeError):
        return "err type-error"
    if isinstance(e, ValueError):
        if "'y' must be of shape" in s or "0 feature(s)" in s or "inconsistent numbers of samples" in s:
            return "err shape"
        if "previously unseen" in s or "could not convert string to float" in s or "invalid literal for int()" in s:
            # the last two: sklearn casts y to classes_.dtype before the unknown-label check; a label that
            # cannot even be cast is a label that is not a class
            return "err unseen"
        if "Duplicate entries" in s:
            return "err duplicate"
        if "contains `missing_label" in s:
            return "err classes-missing"
        if "can not be inferred" in s:
            return "err no-classes"
        if "not allowed to contain missing" in s:
            return "err true-missing"
        if "'normalize' must be" in s:
            return "err normalize"
    return f"err other:{type(e).__name__}:{s[:60]}"


def equals_sentinel(e, s):
    """The specification of 'entry equals the sentinel' on Python values."""
    if s is None:
        return e is None
    if is_nan(s):
        return is_nan(e)
    if is_num(s):
        return is_num(e) and not is_nan(e) and float(e) == float(s)
    if is_str(s):
        return is_str(e) and str(e) == str(s)
    return False


def same_label(a, b):
    if a is None or b is None:
        return a is None and b is None
    if is_nan(a) or is_nan(b):
        return is_nan(a) and is_nan(b)
    if is_num(a) and is_num(b):
        return float(a) == float(b)
    if is_str(a) and is_str(b):
        return str(a) == str(b)
    return False


# ---------------------------------------------------------------------------------------------
# case builders

DTYPES = {
    # -0.999995, 1.500003, 1e-9 lie within numpy's default isclose tolerances of the numeric sentinels -1, 1.5, 0: labels
    # next to (but different from) the sentinel must stay labels (seed R7C16)
    "float": dict(alpha=[0.0, 1.0, 2.0, -1.0, 0.5, NAN, -0.999995, 1.500003, 1e-9], np=float),
    "int": dict(alpha=[0, 1, 2, -1, 5], np=int),
    # "n", "na", "N", "No" are prefixes of the string forms of the sentinels 'nan' / None: narrow string arrays (<U1, <U2)
    # containing them expose comparisons made after truncating the sentinel to the array's item size
    "str": dict(alpha=["a", "b", "c", "nan", "", "bb", "n", "na", "N", "No"], np=str),
    "object": dict(alpha=[None, "a", "b", "nan", ""], np=object),
    "objnum": dict(alpha=[None, 0, 1, 2], np=object),
}
SENTINELS = [NAN, None, -1, 0, "nan", "", 1.5, 1]
BAD_SENTINELS = [True, [1], (0,), {"a": 1}]


def make_array(dt, vals, shape, as_list):
    """Build the input object. `vals` row-major python values."""
    npdt = DTYPES[dt]["np"]
    if len(shape) == 1:
        nested = list(vals)
    else:
        nested = [list(vals[i * shape[1]:(i + 1) * shape[1]]) for i in range(shape[0])]
    if as_list:
        return nested
    if npdt is object:
        a = np.empty(int(np.prod(shape)), dtype=object)
        for i, v in enumerate(vals):
            a[i] = v
        a = a.reshape(shape)
    elif npdt is str:
        a = np.array(nested, dtype=str) if len(vals) else np.empty(shape, dtype="<U1")
        a = a.reshape(shape)
    else:
        a = np.array(nested, dtype=npdt).reshape(shape)
    # label matrices are often built as a transposed stack of per-annotator vectors: every third 2-d array is handed over in
    # Fortran order (same values, same shape; seed R9C16)
    if len(shape) == 2 and shape[0] >= 2 and shape[1] >= 2 and (shape[0] + shape[1] + len(repr(vals))) % 3 == 0:
        a = np.asfortranarray(a)
    return a


def case_lbl(ctx, lines, expect, dt, vals, shape, ml, as_list):
    from skactiveml.utils import is_labeled, is_unlabeled, labeled_indices, unlabeled_indices

    y = make_array(dt, vals, shape, as_list)
    ya = np.asarray(y)
    if ya.shape != tuple(shape):
        # ragged / collapsed by numpy (e.g. empty nested lists): describe what numpy sees
        shape = ya.shape
        if len(shape) not in (1, 2):
            ctx.count("lbl_skipped_ndim")
            return
    coder = Coder(list(vals), ml)
    res = {}
    for name, fn in (("is_unlabeled", is_unlabeled), ("is_labeled", is_labeled), ("labeled_indices", labeled_indices), ("unlabeled_indices", unlabeled_indices)):
        try:
            with np.errstate(all="ignore"):
                yy = y.copy() if isinstance(y, np.ndarray) else [list(r) if isinstance(r, list) else r for r in y]
                res[name] = ("ok", fn(yy, missing_label=ml))
        except Exception as e:
            res[name] = ("err", err_enum(e))
    case = dict(fn="label-predicates", dtype=dt, vals=jv(list(vals)), shape=list(shape), missing_label=jv(ml) if (ml is None or is_num(ml) or is_str(ml)) else {"__py__": repr(ml)}, as_list=as_list)
    kinds = {k for k, _ in res.values()}
    two_d = len(shape) == 2

    def idx_str(ix):
        ix = np.asarray(ix)
        if two_d:
            return " ".join(f"{int(r[0])},{int(r[1])}" for r in ix.reshape(-1, 2))
        return " ".join(str(int(i)) for i in ix.ravel())

    if kinds == {"ok"}:
        mu = np.asarray(res["is_unlabeled"][1])
        impl = "ok " + " ".join("1" if b else "0" for b in mu.ravel()) + " | " + idx_str(res["labeled_indices"][1]) + " | " + idx_str(res["unlabeled_indices"][1])
    elif kinds == {"err"} and len({v for _, v in res.values()}) == 1:
        impl = res["is_unlabeled"][1]
    else:
        impl = "inconsistent " + repr({k: (v[0] if v[0] == "ok" else v[1]) for k, v in res.items()})
    a_tok = f"{kind_of(ya)} {shape[0]} " + ("-" if not two_d else str(shape[1])) + " " + coder.toks(list(vals))
    line = f"lbl {1 if as_list else 0} {coder.ml(ml)} {a_tok}".strip()
    lines.append(line)
    expect.append((impl, case))
    accepted = kinds == {"ok"}
    n_miss = int(np.sum(res["is_unlabeled"][1])) if accepted else 0
    ctx.case(("lbl", dt, repr(list(vals)), tuple(shape), repr(ml), as_list), accepted and 0 < n_miss < len(vals), sample=dict(case, result=impl[:100]))
    ctx.count(f"lbl_{dt}_{'2d' if two_d else '1d'}_" + ("ok" if accepted else impl.replace(" ", "_")[:24]))
    if len(vals) == 0:
        ctx.count("lbl_empty_array")
    if not accepted:
        return
    # ---------------- property oracle on the implementation outputs -------------------------------
    mu = np.asarray(res["is_unlabeled"][1])
    mlb = np.asarray(res["is_labeled"][1])
    bad = None
    if mu.dtype != bool or mlb.dtype != bool:
        bad = ("mask-not-bool", "a predicate did not return a boolean mask")
    elif mu.shape != mlb.shape or not np.array_equal(mlb, ~mu):
        bad = ("not-complement", "is_labeled is not the complement of is_unlabeled")
    elif len(vals) and mu.shape != tuple(shape):
        bad = ("mask-shape", f"mask shape {mu.shape} differs from the input shape {tuple(shape)}")
    else:
        if dt in ("float", "int") and is_str(ml):
            ctx.count("observation_number_array_string_sentinel_ndarray")
        else:
            spec = np.array([equals_sentinel(v, ml) for v in vals], dtype=bool).reshape(mu.shape) if len(vals) else np.zeros(mu.shape, dtype=bool)
            if not np.array_equal(mu, spec):
                bad = ("marks-wrong-entries", "is_unlabeled does not mark precisely the entries equal to the sentinel")
        if bad is None:
            for nm, mask in (("unlabeled_indices", mu), ("labeled_indices", mlb)):
                ix = np.asarray(res[nm][1])
                if two_d:
                    want = [(i, j) for i in range(mask.shape[0]) for j in range(mask.shape[1]) if mask[i, j]]
                    got = [tuple(int(x) for x in r) for r in ix.reshape(-1, 2)]
                else:
                    want = [i for i in range(mask.shape[0]) if mask[i]]
                    got = [int(i) for i in ix.ravel()]
                if got != want:
                    bad = (f"{nm}-wrong", f"{nm} does not enumerate exactly the marked entries in order")
                    break
    if bad:
        ctx.violate(f"C16/is_unlabeled/{bad[0]}/{dt}-{sent_name(ml)}", bad[1], case)


def sent_name(ml):
    if ml is None:
        return "None"
    if is_nan(ml):
        return "NaN"
    if is_num(ml):
        return "number"
    if is_str(ml):
        return "string"
    return "badtype"


def case_enc(ctx, lines, expect, dt, ml, classes, yfit_vals, yfit_shape, ytr_vals, ytr_shape, inv, fit_as_list=False, classes_as_list=True,
             le_obj=None, history=None, use_fit_transform=False):
    """One encoder case: fit -> transform(ytr) -> inverse_transform(transform(ytr)) -> inverse_transform(inv).
    With `le_obj` the SAME (already used) encoder object is re-parametrised through set_params and refitted; `history` are
    the replay records of the earlier steps on that object.  The model line always describes the last fit only (the model
    is history-free, theorem `encoder_refit_history_free`), so any state surviving a refit shows as a disagreement and
    fails the property oracle below.  Returns the replay record of this step."""
    from skactiveml.utils import ExtLabelEncoder

    history = list(history or [])

    coder = Coder(list(yfit_vals), list(ytr_vals), ml, classes)
    yfit = make_array(dt, yfit_vals, yfit_shape, fit_as_list and dt not in ("object", "objnum"))
    ytr = make_array(dt, ytr_vals, ytr_shape, False)
    case = dict(fn="ExtLabelEncoder", dtype=dt, missing_label=jv(ml) if (ml is None or is_num(ml) or is_str(ml)) else {"__py__": repr(ml)}, classes=jv(classes) if classes is not None else None,
                yfit=jv(list(yfit_vals)), yfit_shape=list(yfit_shape), ytr=jv(list(ytr_vals)), ytr_shape=list(ytr_shape), inv=list(inv), fit_as_list=fit_as_list,
                classes_as_list=classes_as_list, fit_transform=use_fit_transform)
    record = dict(case)
    case["history"] = history
    reused = " on a re-used encoder object (after %d earlier fit(s))" % len(history) if history else ""
    cls_arg = None
    if classes is not None:
        cls_arg = list(classes) if classes_as_list else np.array(classes)
    le = None
    out = []
    viol = None
    K = None
    known_defect = False
    ft = None
    try:
        if le_obj is None:
            obj = ExtLabelEncoder(classes=cls_arg, missing_label=ml)
        else:
            obj = le_obj.set_params(classes=cls_arg, missing_label=ml)
        if use_fit_transform:
            try:
                ft = ("ok", np.asarray(obj.fit_transform(yfit)))
            except Exception as e:
                ft = ("err", err_enum(e))
        le = obj.fit(yfit)
    except Exception as e:
        impl = err_enum(e)
    if ft is not None and ft[0] == "err" and le is None and ft[1] != impl:
        viol = ("fit_transform-differs", f"fit_transform raised {ft[1]} but fit raised {impl}")
    if le is not None:
        K = len(le.classes_)
        dk = kind_of(np.empty(0, dtype=le._dtype))
        out.append(("ok " + dk + " " + coder.toks(list(le.classes_))).strip())
        enc = None
        try:
            enc = le.transform(ytr)
            out.append(("ok " + " ".join(str(int(v)) for v in np.asarray(enc).ravel())).strip())
            if np.asarray(enc).shape != np.asarray(ytr).shape:
                # codes are element-wise: same shape as the labels, empty matrices (0, m) included
                viol = ("transform-shape", f"transform(y) has shape {np.asarray(enc).shape}, y has shape {np.asarray(ytr).shape}")
        except Exception as e:
            out.append(err_enum(e))
        if ft is not None:
            # fit_transform(y) must be fit(y).transform(y) (the generator uses ytr = yfit in this mode)
            if ft[0] == "ok" and not (enc is not None and np.array_equal(np.asarray(enc).ravel(), ft[1].ravel())):
                viol = ("fit_transform-differs", "fit_transform(y) differs from fit(y).transform(y)")
            elif ft[0] == "err" and (enc is not None or out[-1] != ft[1]):
                viol = ("fit_transform-differs", f"fit_transform(y) raised {ft[1]} but fit(y).transform(y) gave {out[-1][:30]}")
        if enc is not None:
            try:
                rt = le.inverse_transform(enc)
                out.append(("ok " + coder.toks(np.asarray(rt).ravel().tolist())).strip())
                # --- property oracle: round trip reproduces y; range; order
                rtl = np.asarray(rt).ravel().tolist()
                if viol is not None:
                    pass
                elif np.asarray(rt).shape != np.asarray(ytr).shape:
                    viol = ("roundtrip-shape", "inverse_transform(transform(y)) has a different shape than y")
                elif len(rtl) != len(ytr_vals) or not all(same_label(a, b) for a, b in zip(rtl, ytr_vals)):
                    viol = ("roundtrip", "inverse_transform(transform(y)) does not reproduce y")
                encl = [int(v) for v in np.asarray(enc).ravel()]
                known = [c.item() if hasattr(c, "item") else c for c in le.classes_]
                unseen = [v for v in ytr_vals if not equals_sentinel(v, ml) and not any(same_label(v, c) for c in known)]
                if unseen and viol is None:
                    # transform must raise on labels that are neither a class nor the sentinel
                    cast_hit = False
                    try:
                        cast_hit = all(any(same_label(np.array([v]).astype(le.classes_.dtype)[0].item(), c) for c in known) for v in unseen)
                    except Exception:
                        pass
                    defect = "cast-to-classes-dtype" if cast_hit else "other"
                    viol = (f"unseen-label-accepted/{defect}", "transform accepted a label that is neither a class nor the sentinel "
                            f"(silently encoded {unseen[0]!r} as a class; classes_={known})")
                    known_defect = cast_hit
                if viol is None:
                    for v, c in zip(ytr_vals, encl):
                        miss = equals_sentinel(v, ml)
                        if miss != (c == -1):
                            viol = ("missing-code", "missing labels are not exactly the entries encoded as -1")
                            break
                        if not miss and not (0 <= c < K and same_label(le.classes_[c].item() if hasattr(le.classes_[c], "item") else le.classes_[c], v)):
                            viol = ("class-code", "a label is not encoded by its position in classes_")
                            break
            except Exception as e:
                out.append(err_enum(e))
                viol = viol or ("roundtrip-raises", f"inverse_transform(transform(y)) raised {type(e).__name__}")
        else:
            out.append("-")
            # --- property oracle: transform raised although every label is a class or the sentinel?
            if out[1] == "err unseen":
                known = [c.item() if hasattr(c, "item") else c for c in le.classes_]
                if viol is None and all(equals_sentinel(v, ml) or any(same_label(v, c) for c in known) for v in ytr_vals):
                    viol = ("spurious-unseen", "transform raised 'unseen labels' although every label is a class or the sentinel")
        try:
            dec = le.inverse_transform(np.array(list(inv), dtype=int))
            out.append(("ok " + coder.toks(np.asarray(dec).ravel().tolist())).strip())
            # property oracle: code i decodes to classes_[i], -1 to the sentinel (of the LAST fit)
            decl = np.asarray(dec).ravel().tolist()
            cur = [c.item() if hasattr(c, "item") else c for c in le.classes_]
            if viol is None and not all(-1 <= i < K for i in inv):
                viol = ("inverse-accepts-out-of-range", "inverse_transform accepted a code outside -1..K-1")
            elif viol is None and (len(decl) != len(inv) or not all(same_label(d, ml if i == -1 else cur[i]) for d, i in zip(decl, inv))):
                viol = ("inverse-wrong", "inverse_transform does not decode code i to classes_[i] / -1 to missing_label")
        except Exception as e:
            out.append(err_enum(e))
            if viol is None and all(-1 <= i < K for i in inv):
                viol = ("inverse-raises", f"inverse_transform raised {type(e).__name__} on codes within -1..K-1")
        impl = " ; ".join(out)
        # classes_ sorted strictly and equal to the de-duplicated classes / labeled values
        cl = [c.item() if hasattr(c, "item") else c for c in le.classes_]
        src = list(classes) if classes is not None else [v for v in yfit_vals if not equals_sentinel(v, ml)]
        if viol is None:
            toks = [coder.tok(c) for c in cl]
            keys = [(t[0], int(t[1:])) if t[0] in "ns" and t not in ("nan", "none") else ("z", 0) for t in toks]
            if any(not (keys[i] < keys[i + 1]) for i in range(len(keys) - 1)):
                viol = ("classes-not-sorted", "classes_ is not strictly increasing")
            elif not (all(any(same_label(c, s) for s in src) for c in cl) and all(any(same_label(c, s) for c in cl) for s in src)):
                viol = ("classes-set", "classes_ is not the set of given classes / present labels")
    cls_tok = "0" if classes is None else f"1 {kind_of(np.array(classes)) if len(classes) else 'n'} {len(classes)} {coder.toks(list(classes))}".strip()
    yfit_tok = arr_like_tokens(coder, dt, yfit_vals, yfit_shape, yfit)
    ytr_tok = arr_like_tokens(coder, dt, ytr_vals, ytr_shape, ytr)
    line = f"enc {coder.ml(ml)} {cls_tok} {yfit_tok} {ytr_tok} {len(inv)} " + " ".join(str(int(i)) for i in inv)
    line = " ".join(line.split())
    lines.append(line)
    expect.append((" ".join(impl.split()), dict(case, _skip_compare=known_defect)))
    ok_all = le is not None and all(o.startswith("ok") for o in out)
    ctx.case(("enc", dt, repr(ml), repr(classes), repr(list(yfit_vals)), tuple(yfit_shape), repr(list(ytr_vals)), tuple(ytr_shape), tuple(inv), use_fit_transform, repr(history)),
             ok_all and K >= 2, sample=dict(case, result=impl[:140]) if not history or len(ctx.samples) < 3 else None)
    if history:
        ctx.count("enc_reused_object_steps")
        if le is not None and history[-1].get("_classes_tok") is not None and history[-1]["_classes_tok"] != out[0]:
            ctx.count("enc_refit_changed_classes_or_dtype")
    if use_fit_transform:
        ctx.count("enc_fit_transform_calls")
    record["_classes_tok"] = out[0] if le is not None else None
    ctx.count(f"enc_{dt}_" + ("fit-" + impl.replace(" ", "_")[:20] if le is None else "fitted"))
    if le is not None:
        ctx.count("enc_transform_" + out[1].split(" ")[0] + ("_" + out[1].split(" ")[1] if out[1].startswith("err") else ""))
        ctx.count("enc_inverse_" + out[3].split(" ")[0] + ("_" + out[3].split(" ")[1] if out[3].startswith("err") else ""))
        ctx.count("enc_classes_" + ("given" if classes is not None else "inferred"))
    if viol:
        sfx = "/reused-encoder" if history else ""
        if viol[0].startswith("unseen-label-accepted"):
            ctx.violate(f"C16/ExtLabelEncoder.transform/{viol[0]}{sfx}", viol[1] + reused, case)
        else:
            ctx.violate(f"C16/ExtLabelEncoder/{viol[0]}/{dt}-{sent_name(ml)}{sfx}", viol[1] + reused, case)
    return record


def case_enc_seq(ctx, lines, expect, steps):
    """Consecutive encoder cases on ONE encoder object: set_params(classes, missing_label) -> fit / fit_transform ->
    transform -> inverse_transform, then again with other data / classes / dtype.  Every step is compared with the model of
    that step alone and judged by the oracle of that step alone."""
    from skactiveml.utils import ExtLabelEncoder

    obj = ExtLabelEncoder()
    hist = []
    for st in steps:
        rec = case_enc(ctx, lines, expect, le_obj=obj, history=hist, **st)
        hist = hist + [rec]


def arr_like_tokens(coder, dt, vals, shape, built):
    k = kind_of(built)
    head = f"{k} {shape[0]} " + ("-" if len(shape) == 1 else str(shape[1]))
    return (head + " " + coder.toks(list(vals))).strip()


# ---------------------------------------------------------------------------------------------

def pick_vals(rng, dt, ml, n, pattern):
    alpha = DTYPES[dt]["alpha"]
    missing = [v for v in alpha if equals_sentinel(v, ml)]
    present = [v for v in alpha if not equals_sentinel(v, ml)]
    if pattern == "all-missing" and missing:
        return [missing[0]] * n
    if pattern == "none-missing":
        return [rng.choice(present) for _ in range(n)]
    return [rng.choice(missing) if (missing and rng.random() < 0.4) else rng.choice(present) for _ in range(n)]


def random_shape(rng):
    r = rng.random()
    if r < 0.08:
        return (0,)
    if r < 0.5:
        return (rng.randint(1, 6),)
    if r < 0.55:
        return (0, rng.randint(1, 3))
    if r < 0.6:
        return (rng.randint(1, 3), 0)
    return (rng.randint(1, 4), rng.randint(1, 3))


def natural_sentinels(dt):
    return {"float": [NAN, -1, 0, None, 1.5], "int": [-1, 0, NAN, None, 1.5], "str": ["nan", "", None], "object": [None], "objnum": [None]}[dt]


def gen_enc_params(rng, dt=None, ml="__draw__", natural_only=False):
    """keyword arguments of one `case_enc` call"""
    if dt is None:
        dt = rng.choice(["float", "int", "str", "object", "objnum", "float", "str"])
    if isinstance(ml, str) and ml == "__draw__":
        ml = rng.choice(natural_sentinels(dt)) if (natural_only or rng.random() < 0.8) else rng.choice(SENTINELS + BAD_SENTINELS[:2])
    alpha = [v for v in DTYPES[dt]["alpha"] if not is_nan(v) or is_nan(ml)]
    labels = [v for v in alpha if v is not None and not equals_sentinel(v, ml)]
    sent_in = [v for v in alpha if equals_sentinel(v, ml)]
    r = rng.random()
    if r < 0.45:
        classes = None
    else:
        k = rng.randint(0 if dt in ("float", "int") else 1, min(4, len(labels)))
        classes = rng.sample(labels, k)
        rr = rng.random()
        if rr < 0.06 and classes:
            classes.append(classes[0])                      # duplicate
        elif rr < 0.10 and classes:
            classes.append("x" if dt in ("float", "int", "objnum") else 7)   # mixed kinds
        elif rr < 0.3 and dt == "float":
            classes = [int(c) if float(c).is_integer() else c for c in classes]  # integer classes, float y (typical NaN-sentinel use)
        elif rr < 0.15 and (sent_in or (not is_nan(ml) and (is_num(ml) or is_str(ml)))):
            classes.append(sent_in[0] if sent_in else ml)   # classes contain the sentinel
    shp = random_shape(rng)
    n = int(np.prod(shp))
    pool = (labels if rng.random() < 0.8 else alpha) + sent_in * 2
    pool = [v for v in pool if not (is_nan(v) and not is_nan(ml))] or alpha
    yfit = [rng.choice(pool) for _ in range(n)]
    if rng.random() < 0.6:
        ytr, ytr_shape = list(yfit), shp
    else:
        ytr_shape = random_shape(rng)
        base = (list(classes) if classes else [v for v in yfit if not equals_sentinel(v, ml)]) or labels
        base = [v for v in base if (is_num(v) or is_str(v) or v is None) and type(v) in {type(a) for a in alpha}] or labels
        pool2 = base * 3 + sent_in * 2 + (labels if rng.random() < 0.3 else [])
        ytr = [rng.choice(pool2) for _ in range(int(np.prod(ytr_shape)))]
    K = len(set(classes)) if classes is not None else len({Coder(yfit).tok(v) for v in yfit if not equals_sentinel(v, ml)})
    inv = [rng.choice([-1] + list(range(max(K, 1))) * 2 + ([K, -2, K + 1] if rng.random() < 0.2 else [])) for _ in range(rng.randint(0, 5))]
    # keep dtype-homogeneous inputs only (a str appended to number classes is the 'mixed kinds' probe for check_classes)
    return dict(dt=dt, ml=ml, classes=classes, yfit_vals=yfit, yfit_shape=shp, ytr_vals=ytr, ytr_shape=ytr_shape, inv=inv, fit_as_list=rng.random() < 0.3,
                classes_as_list=(classes is not None and any(is_str(c) for c in classes) and any(is_num(c) for c in classes)) or rng.random() < 0.7)


def random_enc_case(ctx, lines, expect, rng):
    case_enc(ctx, lines, expect, **gen_enc_params(rng))


def random_enc_seq(ctx, lines, expect, rng):
    """2-4 consecutive fits of one encoder object; consecutive steps mostly keep the label dtype (so that stale state
    would go unnoticed by type errors) but change classes / data / sentinel / given-vs-inferred classes."""
    steps = []
    dt = rng.choice(["float", "int", "str", "object", "objnum", "float", "str"])
    for k in range(rng.randint(2, 4)):
        if k and rng.random() < 0.25:
            dt = rng.choice(["float", "int", "str", "object", "objnum"])
        st = gen_enc_params(rng, dt=dt, natural_only=rng.random() < 0.9)
        if rng.random() < 0.3:
            st["use_fit_transform"] = True
            st["ytr_vals"], st["ytr_shape"] = list(st["yfit_vals"]), st["yfit_shape"]
        steps.append(st)
    case_enc_seq(ctx, lines, expect, steps)


def correspond(ctx):
    rng = ctx.rng
    lines, expect = [], []
    n_lbl = 2500 if not ctx.thorough else 8000
    n_enc = 2500 if not ctx.thorough else 12000
    for _ in range(n_lbl):
        dt = rng.choice(list(DTYPES))
        ml = rng.choice(SENTINELS) if rng.random() < 0.93 else rng.choice(BAD_SENTINELS)
        shp = random_shape(rng)
        n = int(np.prod(shp))
        pattern = rng.choice(["all-missing", "none-missing", "mixed", "mixed"])
        vals = pick_vals(rng, dt, ml, n, pattern)
        ctx.count("pattern_" + pattern)
        case_lbl(ctx, lines, expect, dt, vals, shp, ml, as_list=rng.random() < 0.4)
    for _ in range(n_enc):
        random_enc_case(ctx, lines, expect, rng)
    for _ in range(600 if not ctx.thorough else 6000):
        random_enc_seq(ctx, lines, expect, rng)
    if ctx.thorough:
        exhaustive(ctx, lines, expect)
    outs = vlib.run_driver(lines)
    n_unsupported = 0
    for line, out, (impl, case) in zip(lines, outs, expect):
        if out.strip() == "err unsupported":
            n_unsupported += 1
            continue
        if case.get("_skip_compare"):
            # the implementation output already failed the property oracle with a classified defect
            # (reported through ctx.violate); the model deliberately does not reproduce it
            ctx.count("compare_skipped_classified_defect")
            continue
        if out.split() != impl.split():
            ctx.disagree("SkaModel.Core.Label vs skactiveml.utils._label/_label_encoder", dict(case, line=line), out, impl)
    ctx.notes["model_unsupported_domain_cases"] = n_unsupported
    ctx.notes["observation_list_vs_ndarray"] = (
        "number array + string sentinel: list input raises TypeError, ndarray input is cast to strings by numpy "
        "(outside the supported domain; recorded, not judged)"
    )


def exhaustive(ctx, lines, expect):
    """Thorough tier: every array of n <= 3 rows, m <= 2 columns over a 3-letter alphabet, for every
    dtype x sentinel, through the predicates and through the encoder (classes inferred and given)."""
    alphas = {
        "float": [0.0, 1.0, NAN],
        "int": [0, 1, -1],
        "str": ["a", "", "nan"],
        "object": [None, "a", "b"],
        "objnum": [None, 0, 1],
    }
    sents = [NAN, None, -1, 0, "nan", ""]
    cnt = 0
    shapes = [(0,), (1,), (2,), (3,), (1, 1), (2, 1), (3, 1), (1, 2), (2, 2), (3, 2)]
    for dt, alpha in alphas.items():
        for ml in sents:
            for shp in shapes:
                n = int(np.prod(shp))
                for vals in itertools.product(alpha, repeat=n):
                    case_lbl(ctx, lines, expect, dt, list(vals), shp, ml, as_list=False)
                    if n <= 3:
                        case_lbl(ctx, lines, expect, dt, list(vals), shp, ml, as_list=True)
                    cnt += 1
                    labels = [v for v in alpha if v is not None and not equals_sentinel(v, ml) and not is_nan(v)]
                    for classes in (None, labels):
                        inv = [-1, 0, 1]
                        case_enc(ctx, lines, expect, dt, ml, classes, list(vals), shp, list(vals), shp, inv)
    ctx.notes["exhaustive_subrun"] = (
        f"all arrays of shapes {shapes} over 3-letter alphabets per dtype {list(alphas)} x sentinels [NaN,None,-1,0,'nan',''] "
        f"({cnt} arrays) through the four predicates (ndarray; list for n<=3) and the encoder (classes inferred / given)"
    )
    ctx.exhaustive = False  # the random part is not exhaustive; the sub-run above is


def search(ctx):
    """Failing-input search on the implementation alone (property oracles), used when a tie broke."""
    rng = ctx.rng
    lines, expect = [], []
    for _ in range(6000):
        dt = rng.choice(list(DTYPES))
        ml = rng.choice(natural_sentinels(dt))
        shp = random_shape(rng)
        vals = pick_vals(rng, dt, ml, int(np.prod(shp)), rng.choice(["all-missing", "none-missing", "mixed"]))
        case_lbl(ctx, lines, expect, dt, vals, shp, ml, as_list=rng.random() < 0.4)
        random_enc_case(ctx, lines, expect, rng)
        random_enc_seq(ctx, lines, expect, rng)
        if ctx.violations:
            return


def replay(payload):
    ctx = vlib.Ctx("C16", "quick", 0)
    r = payload.get("replay", {})
    lines, expect = [], []
    ml = unjv(r.get("missing_label"))
    if r.get("fn") == "label-predicates":
        case_lbl(ctx, lines, expect, r["dtype"], unjv(r["vals"]), tuple(r["shape"]), ml, r["as_list"])
    elif r.get("fn") == "ExtLabelEncoder":
        def params(q):
            return dict(dt=q["dtype"], ml=unjv(q.get("missing_label")), classes=None if q["classes"] is None else unjv(q["classes"]),
                        yfit_vals=unjv(q["yfit"]), yfit_shape=tuple(q["yfit_shape"]), ytr_vals=unjv(q["ytr"]), ytr_shape=tuple(q["ytr_shape"]), inv=q["inv"],
                        fit_as_list=q.get("fit_as_list", False), classes_as_list=q.get("classes_as_list", True), use_fit_transform=q.get("fit_transform", False))

        if r.get("history"):
            # re-run the whole history on one encoder object; only the last step is judged
            from skactiveml.utils import ExtLabelEncoder

            obj = ExtLabelEncoder()
            scratch = vlib.Ctx("C16", "quick", 0)
            hist = []
            for q in r["history"]:
                hist = hist + [case_enc(scratch, [], [], le_obj=obj, history=hist, **params(q))]
            case_enc(ctx, lines, expect, le_obj=obj, history=hist, **params(r))
        else:
            case_enc(ctx, lines, expect, **params(r))
    for v in ctx.violations:
        print("REPRODUCED:", v["key"], "-", v["what"])
    return 1 if ctx.violations else 0
