"""C04 — budget managers never spend more labels than the budget allows.

Theorems: SkaModel/Props/C04.lean (bound for the guarded decayed counter over any ordered field, every
manager refines it, any chunking, every prefix; density-based split, periodic and strict random sampling
with their own bounds).  Tie: the Lean models of every manager / baseline run at Float against the real
classes on the same streams, bit-exact state after every chunk; the numeric bound is evaluated (in exact
rational arithmetic) on the labels the real classes grant, at every prefix, for several chunkings."""
from fractions import Fraction

import numpy as np

from .. import vlib
from . import _stream as S

LEAN_TARGETS = ["SkaModel.Props.C04"]
# theorems about, and the executable of, the model translated from the current Python source on every run
GEN_TARGETS = ["SkaModel.Props.StreamGen", "skagendriver"]

LEVEL = "proof"
RULE = (
    "cases: one complete stream per case = (manager or baseline strategy, parameters with budget in (0,1], window "
    "w in {1,2,4,5,100}, dyadic and non-dyadic budgets, utility stream (dyadic / all-max / all-NaN / alternating / "
    "mixed NaN / ramp), random chunking into query->update calls); the real classes run with a recording RandomState, "
    "the captured uniform / normal draws and np.quantile values drive the Lean model; compared: queried indices and "
    "bit-exact u_t_, theta_, counters, generator position after every chunk. non-trivial = at least 3 instances and at "
    "least one granted label; distinct = distinct (kind, params, seed, chunking, utilities)"
)
ASSUMPTIONS = [
    "a RandomState is a cursor into a fixed stream of draws; get_state/set_state save/restore the cursor (draws are captured from the real run by a RandomState subclass)",
    "state values stay non-NaN (theta_ = inf * 0 is not modelled); exact arithmetic in the theorems vs IEEE doubles in the code: the bound is re-evaluated on the real outputs of every run",
    "lazy initialisation of the fitted attributes is identified with starting from the initial state",
    "the state an object is left in after update raised is not modelled",
]
TRUSTED = [
    "translator harness/translate/pystream.py (Python subset -> Lean, typing table of the attributes, generator = cursor into the captured "
    "draw streams, lazily initialised attributes = initial object): validated on every run by executing the translated model bit-exactly "
    "against the real classes; the equality translated model = hand-written model is proved in Lean for all inputs (Lemmas/StreamGen.lean)",
    "np.quantile is an oracle of the BIQF model (captured per call); BIQF has no bound in C04",
    "managers driven through StreamDensityBasedAL / CognitiveDualQueryStrategy judge every instance of a chunk against the un-advanced manager state; that protocol is outside C04 (the managers' own API and the two baselines are in scope, as the anchors list)",
]

BOUNDED = ["fixed", "var", "randvar", "split", "random", "dbsplit", "periodic", "srs_strict"]


def bound_violation(ctx, spec, run, label):
    if run.query_exc:
        ctx.violate(f"C04/{spec['kind']}/query-raises", f"{spec['kind']}: query raised {run.query_exc[0]}", dict(spec=spec, oracle="bound"))
        return True
    if run.update_exc:
        ctx.violate(
            f"C10/{spec['kind']}.update/raises-on-query-result",
            f"update raised on the indices returned by query: {run.update_exc[0]}",
            dict(spec=spec, oracle="update-accepts"),
        )
        return True
    n_total = sum(spec["chunks"])
    bad = S.check_bound(spec["kind"], spec["params"], run.grants, n_total)
    if bad is not None:
        ctx.violate(
            f"C04/{spec['kind']}/budget-exceeded",
            f"{spec['kind']}: {bad['granted']} labels granted among the first {bad['n']} instances, bound {bad['bound']:.4f} ({label})",
            dict(spec=spec, oracle="bound", at=bad),
        )
        return True
    return False


def one_case(ctx, lines, expect, spec, label="random"):
    run = S.run_case(spec, check_purity=False)
    if run.rs is not None and run.rs.conflicts:
        ctx.broken.append(f"generator is not a cursor into one stream: {run.rs.conflicts[:1]} in {spec}")
    lines.append(S.model_line(spec, run))
    expect.append((S.impl_text(run), spec))
    ctx.case((spec["kind"], repr(sorted(spec["params"].items())), spec["seed"], tuple(spec["chunks"]), repr(spec.get("utils"))),
             S.nontrivial(spec, run),
             sample=dict(kind=spec["kind"], params=spec["params"], chunks=spec["chunks"], utils=spec.get("utils", [])[:12],
                         granted=run.grants[:12], final_state=run.states[-1] if run.states else None))
    ctx.count(f"kind_{spec['kind']}")
    ctx.count(f"style_{spec.get('style', 'n/a')}")
    ctx.count("instances", sum(spec["chunks"]))
    ctx.count("labels_granted", len(run.grants))
    ctx.count("chunks", len(spec["chunks"]))
    if run.boundary:
        ctx.count("guard_evaluated_exactly_on_boundary", run.boundary)
    if spec["kind"] in BOUNDED:
        bound_violation(ctx, spec, run, label)
        # tightness indicator: how close the grants get to the bound
        f = S.bound_of(spec["kind"], spec["params"])
        n = sum(spec["chunks"])
        if f is not None and n and len(run.grants) >= f(n) - 1:
            ctx.count("within_one_of_bound")
    return run


def rechunk(ctx, lines, expect, spec, rng):
    """same stream, other chunkings: bound must hold for each; deterministic kinds give identical grants"""
    base = None
    n = sum(spec["chunks"])
    for ch in ([1] * n, [n], S.gen_chunks(rng, n), S.gen_chunks(rng, n, maxc=3)):
        sp = dict(spec, chunks=ch)
        run = one_case(ctx, lines, expect, sp, label="rechunked")
        if spec["kind"] in S.CHUNK_INVARIANT:
            sig = (run.grants, run.states[-1] if run.states else None)
            if base is None:
                base = (sig, ch)
            elif sig != base[0]:
                ctx.violate(
                    f"C10/{spec['kind']}/chunking-dependent",
                    f"{spec['kind']}: grants / final state differ between chunkings {base[1][:8]}.. and {ch[:8]}..",
                    dict(spec=spec, oracle="chunk-invariance", chunks_a=base[1], chunks_b=ch),
                )


def adversarial(ctx, kind, rng, n, lines=None, expect=None):
    """greedy 'always want' streams on boundary budgets (implementation only when lines is None)"""
    spec = S.gen_case(rng, kind, n=n, boundary=True, style=rng.choice(["allmax", "allmax", "alternating", "allnan"]))
    if kind in ("var", "randvar", "split", "dbsplit"):
        spec["params"]["theta"] = 2.0  # confidence 0 < theta: every instance is wanted
    if lines is None:
        run = S.run_case(spec, check_purity=False)
        ctx.count("long_adversarial_streams")
        ctx.count("instances", n)
        ctx.case(("adv", kind, spec["seed"], n), True)
        bound_violation(ctx, spec, run, "long adversarial stream")
    else:
        one_case(ctx, lines, expect, spec, label="adversarial")


def compositions(n):
    if n == 0:
        yield []
        return
    for first in range(1, n + 1):
        for rest in compositions(n - first):
            yield [first] + rest


def exhaustive_small_scope(ctx, lines, expect):
    """all utility streams over {NaN, 0, 1} up to length 4 x all chunkings x boundary parameters, for the
    deterministic managers and periodic sampling (model vs code + bound + chunk invariance)"""
    import itertools

    cnt = 0
    for kind, plist in (
        ("fixed", [dict(w=1, b=1.0, nc=2), dict(w=2, b=0.5, nc=2), dict(w=4, b=0.25, nc=2)]),
        ("var", [dict(w=1, b=1.0, theta=1.0, s=0.5), dict(w=2, b=0.5, theta=1.0, s=0.5), dict(w=4, b=0.25, theta=0.5, s=0.25)]),
    ):
        for p in plist:
            for n in range(1, 5):
                for us in itertools.product(["nan", 0.0, 1.0], repeat=n):
                    base = None
                    for ch in compositions(n):
                        spec = dict(kind=kind, params=p, seed=1, chunks=ch, utils=list(us), style="exhaustive")
                        run = one_case(ctx, lines, expect, spec, label="exhaustive")
                        sig = (run.grants, run.states[-1])
                        if base is None:
                            base = sig
                        elif sig != base:
                            ctx.violate(f"C10/{kind}/chunking-dependent", f"{kind}: chunking {ch} of {us} differs from one chunk",
                                        dict(spec=spec, oracle="chunk-invariance", chunks_a=[n], chunks_b=ch))
                        cnt += 1
    for b in (1.0, 0.5, 0.25, 0.375):
        for n in range(1, 9):
            for ch in compositions(n):
                one_case(ctx, lines, expect, dict(kind="periodic", params=dict(w=1, b=b), seed=1, chunks=ch), label="exhaustive")
                cnt += 1
    ctx.notes["exhaustive_subrun"] = (f"{cnt} cases: fixed / variable managers on all utility streams over {{NaN,0,1}}^n, n<=4, x all chunkings x 3 "
                                      "boundary parameter sets; periodic sampling on all chunkings of streams up to length 8 x 4 budgets")
    ctx.exhaustive = False  # the random part is not exhaustive; the sub-run above is


def generate(ctx):
    from ..translate import pystream

    if pystream.generate(ctx) is None:
        ctx.gen_failed = False  # the previous generated file is still in place; its tie is reported broken above


def correspond(ctx):
    rng = ctx.rng
    lines, expect = [], []
    kinds = S.MANAGER_KINDS + S.BASELINE_KINDS
    per_kind = 100 if not ctx.thorough else 600
    for kind in kinds:
        for t in range(per_kind):
            spec = S.gen_case(rng, kind, boundary=(t % 3 == 0), n=rng.randint(1, 60 if t % 5 else 150))
            one_case(ctx, lines, expect, spec)
        for t in range(10 if not ctx.thorough else 60):
            spec = S.gen_case(rng, kind, boundary=(t % 2 == 0), n=rng.randint(4, 40))
            rechunk(ctx, lines, expect, spec, rng)
        if kind in BOUNDED:
            for t in range(4 if not ctx.thorough else 30):
                adversarial(ctx, kind, rng, rng.randint(20, 120), lines, expect)
    if ctx.thorough:
        exhaustive_small_scope(ctx, lines, expect)
    S.compare_models(ctx, lines, expect)
    # long adversarial streams against the numeric bound on the implementation (a test, reported as such)
    for kind in BOUNDED:
        for t in range(2 if not ctx.thorough else 6):
            adversarial(ctx, kind, rng, 2000 if not ctx.thorough else 10000)
    for name, mk in STRATEGY_MANAGERS:
        for t in range(3 if not ctx.thorough else 20):
            strategy_bound(ctx, rng, name, mk, rng.randint(40, 120))
    ctx.notes["bound_checked_on_implementation"] = "exact rational evaluation of the property's bound at every prefix of every run (test)"


STRATEGY_MANAGERS = [("FixedUncertainty", "fixed"), ("VariableUncertainty", "var"), ("RandomVariableUncertainty", "randvar"), ("Split", "split"),
                     ("VariableUncertainty", "random"), ("StreamProbabilisticAL", "split")]


def strategy_bound(ctx, rng, name, mgr_kind, n):
    """The bound also holds when a window-based manager is driven the way users drive it: handed to a stream strategy as
    `budget_manager=<instance>` (the strategy works on its own copy and must keep *that* copy across calls; seed R8C04).
    A test on the implementation: granted positions of a chunked query -> update run against the exact rational bound."""
    b = rng.choice([0.125, 0.25, 0.5])
    seed = rng.randrange(2**31 - 1)
    qs = S.make_strategy(name, mgr_kind, b, seed)
    cand = S.gen_candidates(rng, n)
    chunks = S.gen_chunks(rng, n, maxc=4)
    grants, off = [], 0
    try:
        with np.errstate(all="ignore"):
            for c in chunks:
                ch = cand[off:off + c]
                idx, ut = S.strat_query(qs, ch)
                S.strat_update(qs, ch, idx, ut)
                grants += [off + int(i) for i in idx]
                off += c
    except Exception as e:  # noqa: BLE001
        ctx.count("strategy_bound_run_raised:" + type(e).__name__)
        return
    params = dict(w=4, b=b)                      # make_strategy builds every manager with w=4
    bad = S.check_bound(mgr_kind, params, grants, n)
    ctx.case(("strategy-bound", name, mgr_kind, seed, tuple(chunks)), len(grants) >= 1,
             sample=dict(kind="strategy with explicit manager", strategy=name, manager=mgr_kind, budget=b, n=n, granted=len(grants)))
    ctx.count("strategy_with_explicit_manager_runs")
    if bad is not None:
        ctx.violate(f"C04/{name}+{mgr_kind}/budget-exceeded",
                    f"{name}(budget_manager={mgr_kind} instance, budget={b}, w=4): {bad['granted']} labels granted among the first {bad['n']} "
                    f"instances, bound {bad['bound']:.4f}",
                    dict(oracle="strategy-bound", strategy=name, manager=mgr_kind, budget=b, seed=seed, n=n, chunks=chunks, candidates=cand.tolist(), at=bad))


def search(ctx):
    rng = ctx.rng
    for _ in range(300):
        for kind in BOUNDED:
            spec = S.gen_case(rng, kind, boundary=rng.random() < 0.6, n=rng.randint(5, 400),
                              style=rng.choice(["allmax", "alternating", "dyadic", "allnan", "ramp"]))
            if kind in ("var", "randvar", "split", "dbsplit") and rng.random() < 0.5:
                spec["params"]["theta"] = 2.0
            run = S.run_case(spec, check_purity=False)
            ctx.case(("search", kind, spec["seed"]), True)
            if bound_violation(ctx, spec, run, "search"):
                return


def replay(payload):
    ctx = vlib.Ctx("C04", "quick", 0)
    r = payload.get("replay", {})
    if r.get("oracle") == "strategy-bound":
        qs = S.make_strategy(r["strategy"], r["manager"], r["budget"], r["seed"])
        cand = np.array(r["candidates"], dtype=float)
        grants, off = [], 0
        with np.errstate(all="ignore"):
            for c in r["chunks"]:
                ch = cand[off:off + c]
                idx, ut = S.strat_query(qs, ch)
                S.strat_update(qs, ch, idx, ut)
                grants += [off + int(i) for i in idx]
                off += c
        bad = S.check_bound(r["manager"], dict(w=4, b=r["budget"]), grants, r["n"])
        print("granted positions:", grants)
        print("REPRODUCED: bound exceeded " + str(bad) if bad else "not reproduced")
        return 1 if bad else 0
    spec = r.get("spec")
    if not spec:
        print("nothing to replay")
        return 0
    if r.get("oracle") == "chunk-invariance":
        ra = S.run_case(dict(spec, chunks=r["chunks_a"]), check_purity=False)
        rb = S.run_case(dict(spec, chunks=r["chunks_b"]), check_purity=False)
        print("chunks_a grants", ra.grants, "state", ra.states[-1:])
        print("chunks_b grants", rb.grants, "state", rb.states[-1:])
        bad = (ra.grants, ra.states[-1:]) != (rb.grants, rb.states[-1:])
        print("REPRODUCED: chunking-dependent" if bad else "not reproduced")
        return 1 if bad else 0
    run = S.run_case(spec, check_purity=False)
    print("granted positions:", run.grants)
    bound_violation(ctx, spec, run, "replay")
    for v in ctx.violations:
        print("REPRODUCED:", v["what"])
    return 1 if ctx.violations else 0
