"""C20 — wrapper strategies are transparent. Theorems: Props/C20.lean. Correspondence: paired
wrapper / inner queries with a recording proxy around the inner strategy and a spy on the sub-sample
draw; chunk sizes, sub-sample size, index translation and the caller-space utilities rows are
compared with the Lean model; the property's clauses are evaluated on every real output."""
import math
import warnings

import numpy as np

from .. import vlib
from ..catalog import make_data, pool_specs
from ..vlib import f2bits, il
from . import _pool
from .c18 import SpyRS

LEAN_TARGETS = ["SkaModel.Props.C20", "SkaModel.Gen.Skeleton"]
LEVEL = "proof"
RULE = (
    "cases: ParallelUtilityEstimationWrapper x sample-wise inner strategies x candidate modes x n_jobs in {1,2,3,5,-1,40} (threading backend so "
    "the recording proxy sees every chunk) and SubSamplingWrapper x inner strategies x candidate modes x max_candidates (ints, fractions) x "
    "exclude_non_subsample x batch sizes; non-trivial = at least three candidates; distinct = distinct configuration tuples"
)
ASSUMPTIONS = [
    "the single-annotator wrapper clause is evaluated with all labels missing and annotators=None (every chosen sample has all annotators available); its proof is Props/C07 annotWrapper_sample_order, the other C07 clauses are checked by C07",
    "parallel wrapper: equality of utilities is claimed for inner strategies that score candidates independently (list below); bit-exact where numpy performs the same operations, otherwise rtol 1e-9, atol 1e-12 (BLAS results depend on the chunk shape)",
]
TRUSTED = ["recording proxy subclass around the inner strategy; spy on check_random_state in skactiveml.pool._wrapper (captures the choice draw)"]

# strategies whose only random draws are the tie-breaking noise of the final simple_batch (so equal seeds
# give aligned streams in wrapper and wrapped strategy); for the others the selection is compared only
# when the best candidate is unique
ALIGNED = {"UncertaintySampling[least_confident]", "UncertaintySampling[entropy]", "ProbabilisticAL"}
PAR_INNER = ["UncertaintySampling[least_confident]", "UncertaintySampling[entropy]", "ProbabilisticAL",
             "QueryByCommittee[KL]", "GreedyBALD", "MonteCarloEER", "ExpectedModelChangeMaximization",
             "ExpectedModelVarianceReduction", "KLDivergenceMaximization", "ContrastiveAL"]
SUB_INNER = ["RandomSampling", "UncertaintySampling[margin_sampling]", "ProbabilisticAL", "QueryByCommittee[KL]", "CoreSet",
             "GreedySamplingX", "ExpectedModelChangeMaximization", "DiscriminativeAL[greedy]", "Clue", "Badge"]


def generate(ctx):
    """Translator tie: the parallel wrapper's `query` must end in the modelled scatter + simple_batch tail seeded by
    `self.random_state_` (the per-call generator every strategy derives the same way) — regenerated from the source."""
    from ..translate import skeleton

    facts, broken = skeleton.generate({"ParallelUtilityEstimationWrapper"})
    ctx.notes["generated_obligations"] = 1
    ctx.notes["generated_discharged"] = 1
    for cls in broken:
        ctx.broken.append(f"translator: the tail of {cls}.query is no longer `simple_batch(utilities, self.random_state_, batch_size=…, "
                          f"return_utilities=…)` after the scatter through mapping (obligation skel_{cls}_wf flipped): {facts.get(cls)}")


def make_proxy(inner, log):
    """A subclass instance of the inner strategy's class that records every query call."""
    cls = type(inner)

    class Proxy(cls):
        def query(self, *a, **k):
            rec = dict(candidates=None if k.get("candidates") is None else np.array(k["candidates"]).copy(),
                       X=np.array(k["X"]).copy() if "X" in k else None, y=np.array(k["y"]).copy() if "y" in k else None,
                       batch_size=k.get("batch_size"),
                       extra_ids={kk: id(v) for kk, v in k.items() if kk not in ("X", "y", "candidates", "batch_size", "return_utilities")})
            out = cls.query(self, *a, **k)
            rec["out"] = out
            log.append(rec)
            return out

    Proxy.__name__ = cls.__name__
    p = Proxy(**inner.get_params(deep=False))
    return p


class CrsSpy:
    """Spy on `check_random_state` inside skactiveml.pool._wrapper: returns RandomState clones that log."""

    def __enter__(self):
        import skactiveml.pool._wrapper as W

        self.W, self.real, self.made = W, W.check_random_state, []

        def spy(rs, mult=None):
            r = self.real(rs, mult) if mult is not None else self.real(rs)
            s = SpyRS(0)
            s.set_state(r.get_state())
            self.made.append(s)
            return s

        W.check_random_state = spy
        return self

    def __exit__(self, *a):
        self.W.check_random_state = self.real
        return False


def check_passthrough(ctx, wrapper_name, w, inner, kw, log, case):
    """`match_signature` + `**query_kwargs`: the wrapper exposes the wrapped strategy's query signature and
    hands the caller's extra arguments (model objects etc.) to it unchanged (same objects)."""
    import inspect

    try:
        same_sig = list(inspect.signature(w.query).parameters) == list(inspect.signature(inner.query).parameters)
    except (TypeError, ValueError):
        same_sig = True
    if not same_sig:
        ctx.violate(f"C20/{wrapper_name}.query/signature-differs",
                    f"{wrapper_name}.query does not expose the wrapped strategy's query signature", case)
    want = {k: id(v) for k, v in kw.items()}
    for rec in log:
        if rec.get("extra_ids") is not None and rec["extra_ids"] != want:
            ctx.violate(f"C20/{wrapper_name}.query/arguments-not-passed-through",
                        f"{wrapper_name} did not hand the caller's extra query arguments to the wrapped strategy unchanged "
                        f"(expected {sorted(want)}, got {sorted(rec['extra_ids'])})", case)
            break
    ctx.count("passthrough_checked")


def rows_bits(U):
    return [" ".join(f2bits(x) for x in r) for r in np.asarray(U, dtype=float)]


# ---------------------------------------------------------------------------------------------

def case_parallel(ctx, spec, rng, lines, checks):
    from skactiveml.pool import ParallelUtilityEstimationWrapper
    from joblib import cpu_count

    rng_state = rng.getstate()

    nrs = np.random.RandomState(rng.randrange(2**31 - 1))
    n = rng.randint(5, 14)
    # tie-heavy pools for the RNG-aligned strategies (cold start, identical points): there the selection is decided
    # by the tie-breaking noise alone, so "equal seeds give the same selection" is actually exercised
    tied = spec.name in ALIGNED and rng.random() < 0.5
    if tied:
        data = make_data(nrs, n, spec.kind, rng.choice(["all_equal", "duplicates", "random"]), n_labeled=rng.choice([0, 0, 1]),
                         classes=spec.classes or (0, 1, 2))
        ctx.count("parallel_tie_heavy")
    else:
        data = make_data(nrs, n, spec.kind, rng.choice(["random", "grid", "duplicates"]), n_labeled=rng.randint(2, n - 2),
                         classes=spec.classes or (0, 1, 2))
    mode = rng.choice(["none", "idx", "rows"])
    cand, cs, ncols = _pool.candidate_arg(data, mode, rng, spec)
    if cs is None or len(cs) == 0:
        return
    n_jobs = rng.choice([1, 2, 3, 5, -1, 40])
    seed = rng.randrange(10**6)
    case = dict(wrapper="parallel", spec=spec.name, mode=mode, n_jobs=n_jobs, seed=seed, X=data["X"], y=data["y"], candidates=cand,
                rng_state=[rng_state[0], list(rng_state[1]), rng_state[2]])
    log = []
    inner = make_proxy(spec.make(seed), log)
    # the recording proxy only sees chunk calls made in-process; threads share the inner strategy object,
    # so the threading backend is used only for inner strategies whose utilities draw no random numbers
    # (otherwise concurrent re-seeding of the shared object would make the comparison racy)
    backend = rng.choice(["threading", "threading", None]) if spec.name in ALIGNED else None
    pd = {"backend": "threading"} if backend else None
    w = ParallelUtilityEstimationWrapper(query_strategy=inner, n_jobs=n_jobs, parallel_dict=pd, random_state=seed)
    kw = spec.kwargs(data, seed)
    ctx.count(f"parallel_njobs_{n_jobs}")
    ctx.count(f"parallel_mode_{mode}")
    try:
        with _pool.alarm(120), warnings.catch_warnings(), np.errstate(all="ignore"):
            warnings.simplefilter("ignore")
            q, U = w.query(data["X"], data["y"], candidates=cand, batch_size=1, return_utilities=True, **kw)
            q0, U0 = spec.make(seed).query(data["X"], data["y"], candidates=cand, batch_size=1, return_utilities=True,
                                           **spec.kwargs(data, seed))
    except Exception as e:
        ctx.case(("par", spec.name, mode, n_jobs, seed), len(cs) >= 3, sample=dict(case_summary(case), result=f"ERR {type(e).__name__}: {e}"))
        ctx.violate(f"C20/ParallelUtilityEstimationWrapper.query/raises:{type(e).__name__}",
                    f"parallel wrapper around {spec.name} raised {type(e).__name__}: {str(e)[:100]} (n_jobs={n_jobs}, {len(cs)} candidates)", case)
        return
    if backend and log:
        check_passthrough(ctx, "ParallelUtilityEstimationWrapper", w, inner, kw, log, case)
    if spec.name in ALIGNED or spec.name not in RNG_CONSUMING:
        check_without_utilities(ctx, "ParallelUtilityEstimationWrapper",
                                lambda: ParallelUtilityEstimationWrapper(query_strategy=spec.make(seed), n_jobs=1, random_state=seed),
                                (data["X"], data["y"]), dict(candidates=None if cand is None else np.array(cand).copy(), batch_size=1, **spec.kwargs(data, seed)),
                                q, case) if n_jobs == 1 else None
    if spec.name in ALIGNED:
        # a RandomState instance given as random_state must not be consumed by a query (it is deep-copied), so the
        # same call repeated gives the same selection as the wrapped strategy does
        rs_obj = np.random.RandomState(seed)
        st0 = rs_obj.get_state()[1].copy()
        try:
            with warnings.catch_warnings(), np.errstate(all="ignore"):
                warnings.simplefilter("ignore")
                w2 = ParallelUtilityEstimationWrapper(query_strategy=spec.make(seed), n_jobs=1, random_state=rs_obj)
                qa = w2.query(data["X"], data["y"], candidates=cand, batch_size=1, **spec.kwargs(data, seed))
                qb = w2.query(data["X"], data["y"], candidates=cand, batch_size=1, **spec.kwargs(data, seed))
            if not np.array_equal(st0, rs_obj.get_state()[1]) or not np.array_equal(qa, qb):
                ctx.violate("C20/ParallelUtilityEstimationWrapper.query/randomstate-instance-consumed",
                            f"parallel wrapper around {spec.name}: a RandomState instance passed as random_state is advanced by query "
                            f"(repeated identical calls select {np.asarray(qa).tolist()} then {np.asarray(qb).tolist()})", case)
            ctx.count("parallel_randomstate_replay")
        except Exception:
            ctx.count("parallel_randomstate_replay_raised")
    U, U0 = np.asarray(U, float), np.asarray(U0, float)
    exact = U.shape == U0.shape and np.array_equal(U, U0, equal_nan=True)
    close = U.shape == U0.shape and np.array_equal(np.isnan(U), np.isnan(U0)) and np.allclose(U, U0, rtol=1e-9, atol=1e-12, equal_nan=True)
    ctx.case(("par", spec.name, mode, n_jobs, seed), len(cs) >= 3,
             sample=dict(case_summary(case), n_candidates=len(cs), utilities_bit_identical=bool(exact), wrapper_pick=np.asarray(q).tolist(), inner_pick=np.asarray(q0).tolist()))
    ctx.count("parallel_utilities_bit_identical" if exact else "parallel_utilities_close_only")
    if not close:
        ctx.violate(f"C20/ParallelUtilityEstimationWrapper.query/utilities-differ/{spec.name}",
                    f"parallel wrapper around {spec.name}: utilities differ from the wrapped strategy's (n_jobs={n_jobs})", case)
    elif exact and not np.array_equal(np.asarray(q), np.asarray(q0)) and (
            spec.name in ALIGNED or np.sum(U[0] == np.nanmax(U[0])) == 1):
        ctx.violate(f"C20/ParallelUtilityEstimationWrapper.query/selection-differs/{spec.name}",
                    f"parallel wrapper around {spec.name}: equal seeds and equal utilities but different selection {q} vs {q0}", case)
    # chunking vs model (only when the proxy saw the calls, i.e. in-process backend)
    if backend and log:
        sizes = [len(r["candidates"]) for r in log]
        lines.append(f"arraysplit {len(cs)} {n_jobs} {cpu_count()}")
        # threads append to the proxy log in completion order: compare the multiset of chunk sizes
        lines[-1] = lines[-1] + " sorted"
        checks.append((case, f"chunks={len(sizes)} " + " ".join(str(s) for s in sorted(sizes, reverse=True))))


def case_summary(case):
    return {k: v for k, v in case.items() if k not in ("X", "y", "candidates", "rng_state")}


RNG_CONSUMING = set()   # inner strategies whose selection consumes random numbers before the wrapper's tie-break (none needed: n_jobs=1 twins)


def check_without_utilities(ctx, name, make_wrapper, args, kwargs, q_with, case):
    """`return_utilities=False` is another path through a wrapper's tail (index translation happens with or without
    the utilities): a freshly built wrapper with equal parameters must select the same samples."""
    try:
        with _pool.alarm(120), warnings.catch_warnings(), np.errstate(all="ignore"):
            warnings.simplefilter("ignore")
            q2 = make_wrapper().query(*args, return_utilities=False, **kwargs)
    except Exception as e:  # noqa: BLE001
        ctx.violate(f"C20/{name}.query/raises-without-utilities:{type(e).__name__}",
                    f"{name}.query(return_utilities=False) raised {type(e).__name__}: {str(e)[:100]} although the same call with utilities succeeds", case)
        return
    ctx.count("without_utilities_compared")
    a, b = [int(i) for i in np.asarray(q_with).ravel()], [int(i) for i in np.asarray(q2).ravel()]
    if a != b:
        ctx.violate(f"C20/{name}.query/selection-differs-without-utilities",
                    f"{name}: return_utilities=False selects {b}, the same call with return_utilities=True selects {a}", case)


def case_subsample(ctx, spec, rng, lines, checks):
    from skactiveml.pool import SubSamplingWrapper

    rng_state = rng.getstate()

    nrs = np.random.RandomState(rng.randrange(2**31 - 1))
    n = rng.randint(6, 16)
    data = make_data(nrs, n, spec.kind, rng.choice(["random", "grid", "duplicates"]), n_labeled=rng.randint(2, n - 3),
                     classes=spec.classes or (0, 1, 2))
    modes = ["none", "idx"] + (["rows"] if spec.rows else [])
    mode = rng.choice(modes)
    cand, cs, ncols = _pool.candidate_arg(data, mode, rng, spec)
    if cs is None or len(cs) == 0:
        return
    if mode == "idx":
        cand = np.array(sorted(set(int(c) for c in cand)))  # keep the caller's order canonical
        unl = set(np.flatnonzero(np.isnan(data["y"])).tolist())
        cand = np.array([c for c in cand if c in unl])      # documented domain: candidates are unlabeled samples
        cs = cand
        if len(cs) == 0:
            return
    mc = rng.choice([1, 2, 3, 5, 100, 0.1, 0.3, 0.5, 0.75, 1.0])
    excl = rng.random() < 0.5
    b = rng.choice([1, 2, 3, len(cs), len(cs) + 1])
    seed = rng.randrange(10**6)
    case = dict(wrapper="subsampling", spec=spec.name, mode=mode, max_candidates=mc, exclude_non_subsample=excl, b=int(b), seed=seed,
                X=data["X"], y=data["y"], candidates=cand, rng_state=[rng_state[0], list(rng_state[1]), rng_state[2]])
    log = []
    inner = make_proxy(spec.make(seed), log)
    w = SubSamplingWrapper(query_strategy=inner, max_candidates=mc, exclude_non_subsample=excl, random_state=seed)
    kw = spec.kwargs(data, seed)
    ctx.count(f"sub_mode_{mode}")
    ctx.count(f"sub_exclude_{excl}")
    ctx.count("sub_maxcand_int" if isinstance(mc, int) else "sub_maxcand_fraction")
    with CrsSpy() as crs:
        try:
            with _pool.alarm(120), warnings.catch_warnings(), np.errstate(all="ignore"):
                warnings.simplefilter("ignore")
                q, U = w.query(data["X"], data["y"], candidates=cand, batch_size=int(b), return_utilities=True, **kw)
        except Exception as e:
            ctx.case(("sub", spec.name, mode, mc, excl, b, seed), len(cs) >= 3, sample=dict(case_summary(case), result=f"ERR {type(e).__name__}: {e}"))
            ctx.violate(f"C20/SubSamplingWrapper.query/raises:{type(e).__name__}",
                        f"sub-sampling wrapper around {spec.name} raised {type(e).__name__}: {str(e)[:100]}", case)
            return
    check_without_utilities(ctx, "SubSamplingWrapper",
                            lambda: SubSamplingWrapper(query_strategy=spec.make(seed), max_candidates=mc, exclude_non_subsample=excl, random_state=seed),
                            (data["X"], data["y"]), dict(candidates=None if cand is None else np.array(cand).copy(), batch_size=int(b), **spec.kwargs(data, seed)), q, case)
    # the sub-sample draw
    draws = [x for s in crs.made for x in s.log if x[0] == "choice"]
    if len(draws) != 1 or len(log) != 1:
        ctx.disagree("SubSamplingWrapper: expected exactly one choice draw and one inner query", case_summary(case), "1 draw, 1 inner call",
                     f"{len(draws)} draws, {len(log)} inner calls")
        return
    drawn = [int(v) for v in np.atleast_1d(draws[0][1])]
    rec = log[0]
    check_passthrough(ctx, "SubSamplingWrapper", w, inner, kw, log, case)
    n_cols = ncols
    cand_idx = [int(c) for c in cs] if mode != "rows" else list(range(len(cand)))
    sub = drawn  # caller space in all three modes (rows: positions in `candidates`)
    m = mc if isinstance(mc, int) else math.ceil(len(cand_idx) * mc)
    q = [int(i) for i in np.asarray(q).ravel()]
    U = np.asarray(U, float)
    qi, Ui = rec["out"]
    qi = [int(i) for i in np.asarray(qi).ravel()]
    Ui = np.asarray(Ui, float)
    ctx.case(("sub", spec.name, mode, mc, excl, b, seed), len(cs) >= 3,
             sample=dict(case_summary(case), n_candidates=len(cand_idx), sub_sample=sub, picks=q))
    # --- model: size + choice contract
    lines.append(f"subsize {m} {il(cand_idx)} {il(sub)}")
    checks.append((case, f"size={len(sub)} choice=1"))
    # --- model: index translation and caller-space rows
    labeled = [int(i) for i in np.flatnonzero(~np.isnan(data["y"]))]
    if mode == "rows":
        inner_rows_caller = np.full((len(Ui), n_cols), np.nan)
        inner_rows_caller[:, sub] = Ui           # inner saw exactly the sub-sampled rows, in drawn order
        expect_q = [sub[i] for i in qi]
    elif excl:
        sal = sorted(labeled + sub)
        fits = Ui.ndim == 2 and Ui.shape[1] == len(sal) and all(i < len(sal) for i in qi)
        if fits:
            lines.append(f"subsal {il(labeled)} {il(sub)} {il(qi)}")
            checks.append((case, " ".join(map(str, sal)) + " | " + " ".join(map(str, np.asarray(rec["candidates"]).tolist())) + " | " + " ".join(str(sal[i]) for i in qi)))
            if rec["X"] is not None and not np.array_equal(rec["X"], data["X"][sal]):
                ctx.disagree("SubSamplingWrapper(exclude_non_subsample): inner X is not X[sort(labeled ++ sub-sample)]", case_summary(case), "X[sal]", "different rows")
        if not fits:
            # the wrapped strategy was not handed X[sort(labeled ++ sub-sample)]: the translation model does not apply;
            # the property clauses below are still evaluated on the wrapper's own output
            ctx.disagree("SubSamplingWrapper(exclude_non_subsample): the wrapped strategy saw a training set of another size than "
                         "labeled ++ sub-sample", case_summary(case), f"{len(sal)} rows", f"{Ui.shape} utilities")
            inner_rows_caller, expect_q = None, None
        else:
            inner_rows_caller = np.full((len(Ui), n_cols), np.nan)
            inner_rows_caller[:, sal] = Ui
            expect_q = [sal[i] for i in qi]
    else:
        inner_rows_caller = Ui
        expect_q = qi
    for r_in, r_out in zip(inner_rows_caller if inner_rows_caller is not None else [], U):
        lines.append(f"subrow {n_cols} {il(cand_idx)} {il(sub)} " + " ".join(f2bits(x) for x in r_in))
        checks.append((case, " ".join(f2bits(x) for x in r_out)))
    # --- property oracle on the real output -------------------------------------------------
    bad = None
    if len(sub) != min(m, len(cand_idx)) or len(set(sub)) != len(sub) or not set(sub) <= set(cand_idx):
        bad = f"sub-sample {sub} is not min(max_candidates, #candidates)={min(m, len(cand_idx))} distinct candidates"
    elif not set(q) <= set(sub):
        bad = f"picked {q} outside the sub-sample {sub}"
    elif expect_q is not None and q != expect_q:
        bad = f"picks {q} are not the wrapped strategy's picks {expect_q} in the caller's index space"
    elif U.shape != (len(q), n_cols):
        bad = f"utilities shape {U.shape} != ({len(q)}, {n_cols})"
    else:
        other = sorted(set(cand_idx) - set(sub))
        non = sorted(set(range(n_cols)) - set(cand_idx))
        for k in range(len(q)):
            if not np.all(np.isnan(U[k, non])):
                bad = "utilities of non-candidates are not NaN"
            elif not np.all(np.isneginf(U[k, other])):
                bad = "utilities of candidates outside the sub-sample are not -inf"
            elif inner_rows_caller is not None and not np.array_equal(U[k, sub], inner_rows_caller[k, sub], equal_nan=True):
                bad = "utilities on the sub-sample differ from the wrapped strategy's"
            if bad:
                break
    if bad:
        ctx.violate("C20/SubSamplingWrapper.query/" + bad.split(" ")[0] + "-" + ("excl" if excl else "incl") + "-" + mode,
                    f"sub-sampling wrapper around {spec.name}: {bad}", case)


ANNOT_INNER = ["RandomSampling", "UncertaintySampling[least_confident]", "UncertaintySampling[entropy]", "ProbabilisticAL",
               "QueryByCommittee[KL]", "CoreSet", "GreedyBALD"]


def case_annot(ctx, spec, rng):
    """Single-annotator wrapper clause: the samples appear in the returned pairs in the order in which the wrapped
    strategy ranked them (its own query result, captured by the recording proxy).  All labels missing and
    annotators=None, so every chosen sample has all annotators available and the statement applies without caveats."""
    from skactiveml.pool.multiannotator import SingleAnnotatorWrapper

    rng_state = rng.getstate()
    nrs = np.random.RandomState(rng.randrange(2**31 - 1))
    n, n_annot = rng.randint(4, 9), rng.randint(2, 4)
    data = make_data(nrs, n, spec.kind, rng.choice(["random", "grid", "duplicates"]), n_labeled=0, classes=spec.classes or (0, 1, 2))
    y2 = np.full((n, n_annot), np.nan)
    naps = rng.choice([1, 1, 2, n_annot])
    b = rng.choice([1, 2, 3, n, naps * 2, naps * 3])
    seed = rng.randrange(10**6)
    # annotator performances given by the caller (vector or per-sample matrix, ties and large spreads included) in half of
    # the cases; otherwise the wrapper draws them
    r0 = rng.random()
    if r0 < 0.25:
        A_perf = np.array([float(rng.choice([0, 1, 1, 2, 3, 10])) for _ in range(n_annot)])
    elif r0 < 0.5:
        A_perf = np.array([[rng.choice([0.0, 0.25, 0.5, 1.0, 4.0]) for _ in range(n_annot)] for _ in range(n)])
    else:
        A_perf = None
    ctx.count("annot_A_perf_" + ("none" if A_perf is None else ("vector" if A_perf.ndim == 1 else "matrix")))
    case = dict(wrapper="single-annotator", spec=spec.name, n=n, n_annotators=n_annot, n_annotators_per_sample=naps, b=int(b), seed=seed,
                X=data["X"], y=y2, candidates=None, A_perf=A_perf, rng_state=[rng_state[0], list(rng_state[1]), rng_state[2]])
    log = []
    inner = make_proxy(spec.make(seed), log)
    w = SingleAnnotatorWrapper(strategy=inner, random_state=seed)
    kw = spec.kwargs(dict(data, y=np.full(n, np.nan)), seed)
    ctx.count("annot_cases")
    try:
        with _pool.alarm(60), warnings.catch_warnings(), np.errstate(all="ignore"):
            warnings.simplefilter("ignore")
            pairs = w.query(data["X"], y2, batch_size=int(b), n_annotators_per_sample=naps, A_perf=None if A_perf is None else A_perf.copy(), **kw)
    except Exception as e:
        ctx.case(("annot", spec.name, n, n_annot, naps, b, seed), True, sample=dict(case_summary(case), result=f"ERR {type(e).__name__}: {e}"))
        ctx.count("annot_query_raised")   # C07's business
        return
    pairs = np.asarray(pairs)
    if len(log) != 1 or pairs.ndim != 2:
        ctx.count("annot_unexpected_shape")
        return
    inner_q = [int(i) for i in np.asarray(log[0]["out"][0] if isinstance(log[0]["out"], tuple) else log[0]["out"]).ravel()]
    samples = [int(s_) for s_ in pairs[:, 0]]
    order = [s_ for i, s_ in enumerate(samples) if i == 0 or s_ != samples[i - 1]]
    ctx.case(("annot", spec.name, n, n_annot, naps, b, seed), len(order) >= 2,
             sample=dict(case_summary(case), inner_ranking=inner_q, samples_in_returned_pairs=samples))
    bad = None
    if len(set(order)) != len(order):
        bad = f"a sample is served in two separate groups: {samples}"
    elif order != inner_q[:len(order)]:
        bad = f"samples are served in the order {order}, the wrapped strategy ranked them {inner_q}"
    if bad:
        ctx.violate("C20/SingleAnnotatorWrapper.query/sample-order", f"single-annotator wrapper around {spec.name}: {bad}", case)


def explore(ctx, n_par, n_sub):
    rng = ctx.rng
    specs = {s.name: s for s in pool_specs()}
    lines, checks = [], []
    for name in PAR_INNER:
        for _ in range(n_par * (4 if name in ALIGNED else 1)):
            case_parallel(ctx, specs[name], rng, lines, checks)
    for name in SUB_INNER:
        for _ in range(n_sub):
            case_subsample(ctx, specs[name], rng, lines, checks)
    for name in ANNOT_INNER:
        for _ in range(max(2, n_sub // 2)):
            case_annot(ctx, specs[name], rng)
    outs = vlib.run_driver(lines)
    for line, out, (case, impl) in zip(lines, outs, checks):
        if out.split() != impl.split():
            ctx.disagree("SkaModel.Core.Wrapper vs skactiveml.pool._wrapper", dict(case_summary(case), line=line[:1500]), out[:1500], impl[:1500])
    ctx.notes["single_annotator_inner_strategies"] = ANNOT_INNER
    ctx.notes["parallel_inner_strategies"] = PAR_INNER
    ctx.notes["subsampling_inner_strategies"] = SUB_INNER


def correspond(ctx):
    if ctx.thorough:
        explore(ctx, 12, 40)
    else:
        explore(ctx, 2, 8)


def search(ctx):
    explore(ctx, 6, 30)


def replay(payload):
    """Re-generates exactly the recorded case from the recorded PRNG state and re-runs it on the real code."""
    r = payload["replay"]
    print("recorded case:", {k: v for k, v in r.items() if k not in ("X", "y", "candidates", "rng_state")})
    ctx = vlib.Ctx("C20", "quick", 0)
    st = r["rng_state"]
    ctx.rng.setstate((st[0], tuple(st[1]), st[2]))
    spec = [s_ for s_ in pool_specs() if s_.name == r["spec"]][0]
    lines, checks = [], []
    if r["wrapper"] == "single-annotator":
        case_annot(ctx, spec, ctx.rng)
    else:
        (case_parallel if r["wrapper"] == "parallel" else case_subsample)(ctx, spec, ctx.rng, lines, checks)
    for v in ctx.violations:
        print("REPRODUCED:", v["key"], "-", v["what"][:200])
    return 1 if ctx.violations else 0
