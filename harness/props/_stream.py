"""Shared machinery of the stream checks C04 / C03 / C10: budget managers
(`skactiveml.stream.budgetmanager`), the baseline strategies and the strategies that delegate to a
budget manager.

Model side: `SkaModel/Core/Budget.lean`, `Core/Stream.lean`, driver commands in `Drv/Budget.lean`
(one complete stream + chunking per line).  Implementation side: the real classes, with
* `PosRS`, a `RandomState` subclass that records every draw together with the position of the
  generator (a cursor that `get_state`/`set_state` save and restore) -> the explicit `uni` / `nrm`
  streams of the model are *captured from the real run*;
* `np.quantile` of the BIQF module captured through a module-level proxy;
* deep snapshots of all instance attributes incl. nested budget managers and `RandomState.get_state()`.
"""
import os
import contextlib
import copy
import hashlib
from collections import deque
from fractions import Fraction

import numpy as np

from .. import vlib
from ..vlib import f2bits

NAN = float("nan")


# ---------------------------------------------------------------------------------------------
# recording generator

class _Saved(tuple):
    """what PosRS.get_state returns: the numpy state tuple + the cursor"""


class PosRS(np.random.RandomState):
    """RandomState that knows how many draws it is away from its seed state (`pos`) and records the
    value drawn at every position (`uni`: random_sample, `nrm`: normal).  The cursor follows what the
    code really draws: +1 per scalar draw, +n per `random_sample(n)`; it is saved / restored together
    with the numpy state."""

    def __init__(self, seed):
        super().__init__(seed)
        self.seed_ = seed
        self.pos = 0
        self.uni = {}
        self.nrm = {}
        self.conflicts = []
        self.other = []
        self._depth = 0

    def __deepcopy__(self, memo):
        c = PosRS(self.seed_)
        np.random.RandomState.set_state(c, np.random.RandomState.get_state(self))
        c.pos, c.uni, c.nrm = self.pos, dict(self.uni), dict(self.nrm)
        c.conflicts, c.other = list(self.conflicts), list(self.other)
        return c

    def _rec(self, store, kind, vals):
        for v in vals:
            v = float(v)
            if self.pos in store and f2bits(store[self.pos]) != f2bits(v):
                self.conflicts.append((kind, self.pos, store[self.pos], v))
            store[self.pos] = v
            self.pos += 1

    def random_sample(self, size=None):
        self._depth += 1
        try:
            r = super().random_sample(size)
        finally:
            self._depth -= 1
        if self._depth == 0:
            self._rec(self.uni, "uni", np.atleast_1d(r).ravel())
        return r

    def random(self, size=None):
        return self.random_sample(size)

    def normal(self, loc=0.0, scale=1.0, size=None):
        self._depth += 1
        try:
            r = super().normal(loc, scale, size)
        finally:
            self._depth -= 1
        if self._depth == 0:
            self._rec(self.nrm, "nrm", np.atleast_1d(r).ravel())
        return r

    def randint(self, *a, **k):
        self.other.append("randint")
        return super().randint(*a, **k)

    def get_state(self, *a, **k):
        st = _Saved(super().get_state())
        st.pos = self.pos
        return st

    def set_state(self, st):
        super().set_state(tuple(st))
        if hasattr(st, "pos"):
            self.pos = st.pos

    def dense(self, store, n):
        return [store.get(i, 0.0) for i in range(n)]


def rs_fingerprint(rs):
    st = np.random.RandomState.get_state(rs)
    h = hashlib.sha1()
    h.update(st[0].encode())
    h.update(np.asarray(st[1]).tobytes())
    h.update(repr((int(st[2]), int(st[3]), f2bits(st[4]))).encode())
    return h.hexdigest()[:16]


def snap(x, depth=0):
    """Canonical deep snapshot of a value (JSON-able, bit-exact for floats)."""
    from skactiveml.base import BudgetManager

    if depth > 6:
        return "<deep>"
    if isinstance(x, np.random.RandomState):
        return ("rs", rs_fingerprint(x))
    if isinstance(x, (bool, np.bool_)):
        return bool(x)
    if isinstance(x, (int, np.integer)):
        return ("n", f2bits(float(x)))
    if isinstance(x, (float, np.floating)):
        return ("n", f2bits(float(x)))
    if isinstance(x, np.ndarray):
        if x.dtype.kind == "f":
            return ("a", list(x.shape), [f2bits(v) for v in x.ravel()])
        return ("a", list(x.shape), x.ravel().tolist() if x.dtype.kind in "iub" else repr(x))
    if isinstance(x, deque):
        return ("deque", x.maxlen, [snap(v, depth + 1) for v in x])
    if isinstance(x, (list, tuple)):
        return ("l", [snap(v, depth + 1) for v in x])
    if isinstance(x, dict):
        return ("d", sorted((str(k), snap(v, depth + 1)) for k, v in x.items()))
    if isinstance(x, BudgetManager):
        return ("bm", type(x).__name__, snap_obj(x, depth + 1))
    if x is None or isinstance(x, str):
        return x
    if callable(x):
        return ("fn", getattr(x, "__name__", type(x).__name__))
    return ("obj", type(x).__name__)


def snap_obj(obj, depth=0):
    return {k: snap(v, depth + 1) for k, v in sorted(vars(obj).items())}


def snap_diff(a, b, only_common=False, lazy=False, _path=""):
    """Names of the attributes that differ. `only_common`: ignore attributes present on one side only
    (top level). `lazy`: additionally ignore, at every nesting level, fitted attributes that exist on one
    side only (created lazily by the first call that needs them; an attribute that does not exist yet
    behaves as its initial value)."""
    keys = set(a) | set(b)
    if only_common or lazy:
        keys = set(a) & set(b)
    out = []
    for k in sorted(keys):
        va, vb = a.get(k, "<missing>"), b.get(k, "<missing>")
        if va == vb:
            continue
        if lazy and isinstance(va, tuple) and isinstance(vb, tuple) and len(va) == 3 and va[0] == "bm" == vb[0] and va[1] == vb[1]:
            sub = snap_diff(va[2], vb[2], lazy=True, _path=_path + k + ".")
            out += sub
            continue
        out.append(_path + k)
    return out


# ---------------------------------------------------------------------------------------------
# budget manager cases

W_SET = [1, 2, 4, 5, 100]
B_DYADIC = [0.5, 0.25, 0.125, 0.0625, 0.75, 1.0, 0.03125, 0.375]
B_OTHER = [0.1, 0.3, 0.9, 0.01]
S_SET = [0.01, 0.25, 0.5, 0.125, 1.0]
V_SET = [0.1, 0.5, 0.25, 0.9]
MANAGER_KINDS = ["fixed", "var", "randvar", "split", "random", "dbsplit", "biqf"]
BASELINE_KINDS = ["srs_strict", "srs_allow", "periodic"]
ZLIO = {"fixed", "var", "randvar", "split", "random"}
CHUNK_INVARIANT = {"fixed", "var", "split", "random", "biqf", "periodic", "srs_strict", "srs_allow"}


def make_manager(spec):
    from skactiveml.stream import budgetmanager as bm

    p, k = spec["params"], spec["kind"]
    rs = PosRS(spec["seed"])
    if k == "fixed":
        return bm.FixedUncertaintyBudgetManager(classes=list(range(int(p["nc"]))), w=p["w"], budget=p["b"])
    if k == "var":
        return bm.VariableUncertaintyBudgetManager(theta=p["theta"], s=p["s"], w=p["w"], budget=p["b"])
    if k == "randvar":
        return bm.RandomVariableUncertaintyBudgetManager(
            delta=p["delta"], theta=p["theta"], s=p["s"], random_state=rs, w=p["w"], budget=p["b"]
        )
    if k == "split":
        return bm.SplitBudgetManager(v=p["v"], theta=p["theta"], s=p["s"], random_state=rs, w=p["w"], budget=p["b"])
    if k == "random":
        return bm.RandomBudgetManager(random_state=rs, w=p["w"], budget=p["b"])
    if k == "dbsplit":
        return bm.DensityBasedSplitBudgetManager(theta=p["theta"], s=p["s"], delta=p["delta"], random_state=rs, budget=p["b"])
    if k == "biqf":
        return bm.BalancedIncrementalQuantileFilter(w=p["w"], w_tol=p["wtol"], budget=p["b"])
    raise ValueError(k)


def make_baseline(spec):
    from skactiveml.stream import PeriodicSampling, StreamRandomSampling

    p, k = spec["params"], spec["kind"]
    rs = PosRS(spec["seed"])
    if k == "periodic":
        return PeriodicSampling(budget=p["b"], random_state=rs)
    return StreamRandomSampling(allow_exceeding_budget=(k == "srs_allow"), budget=p["b"], random_state=rs)


@contextlib.contextmanager
def quantile_spy(log):
    """Record every value `np.quantile` returns inside the BIQF module."""
    import skactiveml.stream.budgetmanager._balanced_incremental_quantile_filter as mod

    real = mod.np

    class Proxy:
        def __getattr__(self, name):
            return getattr(real, name)

        def quantile(self, a, q, *args, **kw):
            r = real.quantile(a, q, *args, **kw)
            log.append(float(r))
            return r

    mod.np = Proxy()
    try:
        yield
    finally:
        mod.np = real


def state_tokens(kind, obj):
    """The committed state in the driver's output format."""
    pos = lambda: getattr(getattr(obj, "random_state_", None), "pos", 0)
    if kind == "fixed":
        return f"{f2bits(obj.u_t_)} 0 0"
    if kind == "var":
        return f"{f2bits(obj.u_t_)} {f2bits(obj.theta_)} 0"
    if kind in ("randvar", "split"):
        return f"{f2bits(obj.u_t_)} {f2bits(obj.theta_)} {pos()}"
    if kind == "random":
        return f"{f2bits(obj.u_t_)} 0 {pos()}"
    if kind == "dbsplit":
        return f"{exact_int(obj.u_)} {exact_int(obj.t_)} {f2bits(obj.theta_)} {pos()}"
    if kind == "biqf":
        return f"{exact_int(obj.observed_samples_)} {exact_int(obj.queried_samples_)} " + " ".join(f2bits(v) for v in obj.history_sorted_)
    if kind in ("srs_strict", "srs_allow"):
        return f"{exact_int(obj.observed_samples_)} {exact_int(obj.queried_samples_)} {pos()}"
    if kind == "periodic":
        return f"{exact_int(obj.observed_samples_)} {exact_int(obj.queried_samples_)} 0"
    raise ValueError(kind)


def exact_int(x):
    xf = float(x)
    if xf != int(xf):
        return f"non-integer:{xf!r}"
    return str(int(xf))


def err_enum(e):
    if isinstance(e, IndexError):
        return "err index-error"
    return f"err other:{type(e).__name__}:{str(e)[:80]}"


class Run:
    """Result of running one case on the implementation."""

    def __init__(self):
        self.segments = []       # text per chunk, driver format
        self.grants = []         # global indices granted by query
        self.states = []         # state tokens after every chunk
        self.purity = []         # attribute names a query changed
        self.repeat_diff = 0     # repeated query returned something else
        self.illformed = []      # queried indices not strictly increasing ints in range
        self.update_exc = []     # (chunk index, enum) for updates fed with the query result
        self.query_exc = []      # (chunk index, enum): query raised
        self.boundary = 0        # guard evaluated exactly on the boundary
        self.thetas = []         # BIQF quantiles in call order
        self.rs = None
        self.final_snapshot = None
        self.stopped = False


def wellformed(idx, n):
    idx = list(idx)
    ok = all(isinstance(i, (int, np.integer)) and not isinstance(i, (bool, np.bool_)) for i in idx)
    ok = ok and all(0 <= int(i) < n for i in idx)
    ok = ok and all(int(idx[j]) < int(idx[j + 1]) for j in range(len(idx) - 1))
    return ok


def run_case(spec, check_purity=True, extra_at=None):
    """Run a manager / baseline case on the real classes, chunk by chunk:
    idx = query(chunk); [query again]; update(chunk, idx or override).
    extra_at: {chunk index: [('before'|'between', utilities or n), ...]} additional query calls whose
    results are discarded (C03: they must not matter)."""
    kind = spec["kind"]
    is_base = kind in BASELINE_KINDS
    obj = make_baseline(spec) if is_base else make_manager(spec)
    utils = [NAN if u == "nan" else float(u) for u in spec.get("utils", [])]
    ovr = {int(k): v for k, v in spec.get("ovr", {}).items()}
    run = Run()
    off = 0
    qlog = []
    extra_at = extra_at or {}

    def extra(ci, where):
        for w_, arg in extra_at.get(ci, []):
            if w_ != where:
                continue
            nq = len(qlog)
            try:
                if is_base:
                    obj.query(np.zeros((int(arg), 1)), return_utilities=True)
                else:
                    obj.query_by_utility(np.array([NAN if u == "nan" else float(u) for u in arg], dtype=float))
            except Exception as e:  # noqa: BLE001  -- an extra query that raises is an observable result, not a harness error
                run.segments.append("extra-query-raised " + err_enum(e))
            del qlog[nq:]

    with quantile_spy(qlog), np.errstate(all="ignore"):
        for ci, n in enumerate(spec["chunks"]):
            cand = np.zeros((n, 1))
            if spec.get("cand_form") == "list":
                cand = [[0.0] for _ in range(n)]      # array-like candidates: a nested list is as good as an ndarray
            extra(ci, "before")
            uchunk = np.array(utils[off:off + n], dtype=float) if not is_base else None
            before = snap_obj(obj) if check_purity else None
            nq0 = len(qlog)
            try:
                if is_base:
                    idx, ut = obj.query(cand, return_utilities=True)
                else:
                    idx = obj.query_by_utility(uchunk)
                    ut = None
            except Exception as e:  # noqa: BLE001
                run.segments.append("query-raised " + err_enum(e))
                run.query_exc.append((ci, err_enum(e)))
                run.stopped = True
                break
            run.thetas += qlog[nq0:]
            if check_purity:
                after = snap_obj(obj)
                # the very first call creates the fitted attributes (lazy init): compare what existed
                d = snap_diff(before, after, only_common=True)
                if d:
                    run.purity.append((ci, d))
                nq1 = len(qlog)
                if is_base:
                    idx2, ut2 = obj.query(cand, return_utilities=True)
                    same = list(map(int, idx2)) == list(map(int, idx)) and [f2bits(v) for v in ut2] == [f2bits(v) for v in ut]
                else:
                    idx2 = obj.query_by_utility(uchunk)
                    same = list(map(int, idx2)) == list(map(int, idx))
                del qlog[nq1:]
                if not same:
                    run.repeat_diff += 1
                d2 = snap_diff(after, snap_obj(obj))
                if d2:
                    run.purity.append((ci, d2))
            if not wellformed(idx, n) or (ut is not None and len(ut) != n):
                run.illformed.append((ci, [int(i) for i in idx]))
            idx = [int(i) for i in idx]
            run.grants += [off + i for i in idx]
            if kind in ZLIO:
                ut_ = getattr(obj, "u_t_", 0)
                if ut_ / spec["params"]["w"] == spec["params"]["b"]:
                    run.boundary += 1
            head = " ".join(str(i) for i in idx) + " |"
            if ut is not None:
                head += " " + " ".join(f2bits(v) for v in ut) + " |"
            use = ovr.get(ci, idx)
            extra(ci, "between")
            try:
                if kind == "biqf":
                    obj.update(cand, use, uchunk)
                else:
                    obj.update(cand, use)
            except Exception as e:  # noqa: BLE001
                run.segments.append(head + " " + err_enum(e))
                if ci not in ovr:
                    run.update_exc.append((ci, err_enum(e)))
                run.stopped = True
                break
            st = state_tokens(kind, obj)
            run.states.append(st)
            run.segments.append(head + " ok " + st)
            off += n
    run.rs = getattr(obj, "random_state_", None)
    run.final_snapshot = snap_obj(obj)
    run.obj = obj
    return run


def chunks_text(spec):
    ovr = {int(k): v for k, v in spec.get("ovr", {}).items()}
    parts = [str(len(spec["chunks"]))]
    for ci, n in enumerate(spec["chunks"]):
        if ci in ovr:
            parts.append(f"{n} 1 {len(ovr[ci])} " + " ".join(str(int(i)) for i in ovr[ci]))
        else:
            parts.append(f"{n} 0")
    return " ".join(parts)


def ofl(xs):
    xs = [f2bits(NAN if x == "nan" else x) for x in xs]
    return " ".join([str(len(xs))] + xs)


def model_line(spec, run):
    """The driver line of a case; the random streams / quantiles come from the real run."""
    p, k = spec["params"], spec["kind"]
    ch = chunks_text(spec)
    n = sum(spec["chunks"])
    fb = lambda x: f2bits(float(x))
    rs = run.rs
    if k == "fixed":
        return f"bm_fixed {fb(p['w'])} {fb(p['b'])} {fb(p['nc'])} {ch} {ofl(spec['utils'])}"
    if k == "var":
        return f"bm_var {fb(p['w'])} {fb(p['b'])} {fb(p['s'])} {fb(p['theta'])} {ch} {ofl(spec['utils'])}"
    if k == "randvar":
        return f"bm_randvar {fb(p['w'])} {fb(p['b'])} {fb(p['s'])} {fb(p['theta'])} {ch} {ofl(spec['utils'])} {ofl(rs.dense(rs.nrm, n + 1))}"
    if k == "split":
        return f"bm_split {fb(p['w'])} {fb(p['b'])} {fb(p['s'])} {fb(p['v'])} {fb(p['theta'])} {ch} {ofl(spec['utils'])} {ofl(rs.dense(rs.uni, 2 * n + 2))}"
    if k == "random":
        return f"bm_random {fb(p['w'])} {fb(p['b'])} {ch} {ofl(spec['utils'])} {ofl(rs.dense(rs.uni, n + 1))}"
    if k == "dbsplit":
        return f"bm_dbsplit {fb(p['b'])} {fb(p['s'])} {fb(p['theta'])} {ch} {ofl(spec['utils'])} {ofl(rs.dense(rs.nrm, n + 1))}"
    if k == "biqf":
        return f"bm_biqf {int(p['w'])} {fb(p['wtol'])} {fb(p['b'])} {ch} {ofl(spec['utils'])} {ofl(run.thetas)}"
    if k in ("srs_strict", "srs_allow"):
        return f"sb_random {1 if k == 'srs_allow' else 0} {fb(p['b'])} {ch} {ofl(rs.dense(rs.uni, n + 1))}"
    if k == "periodic":
        return f"sb_periodic {fb(p['b'])} {ch}"
    raise ValueError(k)


def impl_text(run):
    return " ; ".join(run.segments)


GEN_CMDS = {"bm_fixed", "bm_var", "bm_randvar", "bm_split", "bm_random", "bm_dbsplit", "bm_biqf", "sb_random", "sb_periodic"}


def compare_models(ctx, lines, expect):
    """Run the hand-written model (skadriver) and the model generated from the current source (skagendriver) on the
    case lines and compare both, token by token, with the transcript of the real classes."""
    outs = vlib.run_driver(lines)
    for line, out, (impl, spec) in zip(lines, outs, expect):
        if out.split() != impl.split():
            ctx.disagree("SkaModel.Core.Budget/Stream vs skactiveml.stream (budget managers, baselines)",
                         dict(spec=spec, line=line[:300]), out[:600], impl[:600])
    if not getattr(ctx, "gen_ok", False) or not os.path.exists(vlib.GENDRIVER):
        return
    sel = [(l, e) for l, e in zip(lines, expect) if l.split(" ", 1)[0] in GEN_CMDS]
    gouts = vlib.run_driver(["g_" + l for l, _ in sel], exe=vlib.GENDRIVER)
    for (line, (impl, spec)), out in zip(sel, gouts):
        ctx.count("generated_model_cases")
        if out.split() != impl.split():
            ctx.disagree("SkaModel.Gen.StreamBM (translated from the current source) vs skactiveml.stream",
                         dict(spec=spec, line=("g_" + line)[:300]), out[:600], impl[:600])


# ---------------------------------------------------------------------------------------------
# property oracles on the implementation

def bound_of(kind, p):
    """C04: maximal number of grants among the first n instances, as an exact rational function."""
    b = Fraction(p["b"])
    if kind in ZLIO:
        w = Fraction(p["w"])
        return lambda n: b * n + Fraction(n) / w + b * w + 1
    if kind == "dbsplit":
        return lambda n: b * n + 1
    if kind in ("periodic", "srs_strict"):
        return lambda n: b * n
    return None


def check_bound(kind, p, grants, n_total):
    """First prefix length at which the grants exceed the bound, or None."""
    f = bound_of(kind, p)
    if f is None:
        return None
    gs = sorted(grants)
    cnt, j = 0, 0
    for n in range(0, n_total + 1):
        while j < len(gs) and gs[j] < n:
            cnt += 1
            j += 1
        # counts are integers; the slack only absorbs the rounding of non-dyadic budgets (n*0.3 == 3.0 in doubles)
        if cnt > f(n) + Fraction(1, 10**9) * (1 + abs(f(n))):
            return dict(n=n, granted=cnt, bound=float(f(n)))
    return None


# ---------------------------------------------------------------------------------------------
# generators

def dy(rng, denom=16):
    return rng.randint(0, denom) / denom


def gen_utils(rng, n, style=None):
    style = style or rng.choice(["dyadic", "dyadic", "allmax", "allnan", "alternating", "mixednan", "low", "ramp"])
    if style == "allmax":
        return [1.0] * n, style
    if style == "allnan":
        return ["nan"] * n, style
    if style == "alternating":
        a, b = rng.choice([(1.0, 0.0), (1.0, "nan"), (0.75, 0.25), (0.0, 1.0)])
        return [a if i % 2 == 0 else b for i in range(n)], style
    if style == "mixednan":
        return [("nan" if rng.random() < 0.25 else dy(rng)) for _ in range(n)], style
    if style == "low":
        return [dy(rng, 64) / 4 for _ in range(n)], style
    if style == "ramp":
        return [min(1.0, i / max(1, n - 1)) for i in range(n)], style
    return [dy(rng) for _ in range(n)], style


def gen_chunks(rng, n, maxc=7):
    mode = rng.random()
    if mode < 0.15:
        return [1] * n
    if mode < 0.25:
        return [n]
    out = []
    left = n
    while left > 0:
        c = min(left, rng.randint(1, maxc))
        out.append(c)
        left -= c
    return out


def gen_params(rng, kind, boundary=False):
    w = rng.choice(W_SET)
    b = rng.choice(B_DYADIC if (boundary or rng.random() < 0.75) else B_OTHER)
    if boundary and kind in ZLIO:
        # w * b integral makes u_t_/w == budget reachable exactly (u_t_ = 1 after the first grant)
        w, b = rng.choice([(4, 0.25), (2, 0.5), (1, 1.0), (4, 0.5), (2, 1.0), (4, 0.75), (100, 0.01), (5, 0.2)])
    p = dict(w=w, b=b)
    if kind == "fixed":
        p["nc"] = rng.choice([2, 2, 3, 4, 8])
    if kind in ("var", "randvar", "split", "dbsplit"):
        p["theta"] = rng.choice([1.0, 1.0, 0.5, 0.75, 2.0])
        p["s"] = rng.choice(S_SET)
    if kind in ("randvar", "dbsplit"):
        p["delta"] = rng.choice([1.0, 0.25, 0.0625])
    if kind == "split":
        p["v"] = rng.choice(V_SET)
    if kind == "biqf":
        p["w"] = rng.choice([1, 2, 4, 5, 100, 3])
        p["wtol"] = rng.choice([50, 2, 1, 8.0, 0.5])
    if kind == "dbsplit":
        p.pop("w")
    return p


def gen_case(rng, kind, n=None, boundary=False, style=None, with_ovr=False):
    n = n if n is not None else rng.randint(1, 40)
    spec = dict(kind=kind, params=gen_params(rng, kind, boundary), seed=rng.randrange(2**31 - 1), chunks=gen_chunks(rng, n))
    if rng.random() < 0.2:
        spec["cand_form"] = "list"
    if kind not in BASELINE_KINDS:
        spec["utils"], spec["style"] = gen_utils(rng, n, style)
    if with_ovr:
        # feed `update` with index lists that did not come from `query` (incl. out of range -> IndexError, last)
        ovr = {}
        for ci, c in enumerate(spec["chunks"]):
            if rng.random() < 0.3:
                ovr[ci] = sorted(rng.sample(range(c), rng.randint(0, c)))
        if rng.random() < 0.4:
            ci = len(spec["chunks"]) - 1
            c = spec["chunks"][ci]
            ovr[ci] = sorted(set(rng.sample(range(c + 3), rng.randint(1, min(3, c + 3)))) | {c + rng.randint(0, 2)})
        spec["ovr"] = ovr
    return spec


def nontrivial(spec, run):
    return len(spec["chunks"]) >= 1 and sum(spec["chunks"]) >= 3 and len(run.grants) >= 1


# ---------------------------------------------------------------------------------------------
# strategies (implementation side)

def strategy_grid():
    """All classes exported by skactiveml.stream that use a budget manager x all budget managers."""
    from skactiveml import stream

    names = [
        "FixedUncertainty", "VariableUncertainty", "Split", "RandomVariableUncertainty", "StreamProbabilisticAL",
        "StreamDensityBasedAL", "CognitiveDualQueryStrategy", "CognitiveDualQueryStrategyRan",
        "CognitiveDualQueryStrategyRanVarUn", "CognitiveDualQueryStrategyVarUn", "CognitiveDualQueryStrategyFixUn",
    ]
    exported = [n for n in stream.__all__ if n != "budgetmanager"]
    missing = sorted(set(exported) - set(names) - {"StreamRandomSampling", "PeriodicSampling"})
    return names, missing


FIXED_MANAGER = {"CognitiveDualQueryStrategyRan", "CognitiveDualQueryStrategyRanVarUn", "CognitiveDualQueryStrategyVarUn",
                 "CognitiveDualQueryStrategyFixUn"}  # no budget_manager parameter: always their default manager


def grid_pairs():
    """(strategy, manager kind or None for the default manager) for the whole grid."""
    names, _ = strategy_grid()
    out = []
    for nme in names:
        if nme not in FIXED_MANAGER:
            out += [(nme, mk) for mk in MANAGER_KINDS]
        out.append((nme, None))
    return out


def manhattan(A, B):
    A = np.asarray([np.asarray(a, dtype=float).ravel() for a in A])
    B = np.asarray([np.asarray(b, dtype=float).ravel() for b in B])
    return np.abs(A[:, None, :] - B[None, :, :]).sum(axis=2)


def make_strategy(name, mgr_kind, b, seed, ffb=False, small_window=True, default_mgr=False, metric=None, dist_dict=None):
    from skactiveml import stream

    cls = getattr(stream, name)
    kw = dict(random_state=seed)
    if default_mgr or name in FIXED_MANAGER:
        kw["budget"] = b
    else:
        mspec = dict(kind=mgr_kind, seed=seed + 1, params=dict(w=4, b=b, nc=2, theta=1.0, s=0.25, delta=1.0, v=0.25, wtol=4))
        kw["budget_manager"] = make_manager(mspec)
    if name in ("FixedUncertainty", "CognitiveDualQueryStrategyFixUn"):
        kw["classes"] = [0, 1]
    if name.startswith("CognitiveDual"):
        kw["force_full_budget"] = ffb
        kw["dist_func"] = manhattan
        if small_window:
            kw["cognition_window_size"] = 3
    if name == "StreamDensityBasedAL":
        kw["dist_func"] = manhattan
        if small_window:
            kw["window_size"] = 3
    if dist_dict is not None and "dist_func" in kw:
        # the library's own distance function, configured through `dist_func_dict` (query and update must use the same one)
        del kw["dist_func"]
        kw["dist_func_dict"] = dict(dist_dict)
    if name == "StreamProbabilisticAL" and metric is not None:
        kw["metric"] = metric
        kw["metric_dict"] = {"gamma": 0.5}
    return cls(**kw)


_CLF = {}


def get_clf():
    from skactiveml.classifier import ParzenWindowClassifier

    if "clf" not in _CLF:
        X = np.array([[0.0, 0.0], [4.0, 4.0], [0.0, 4.0], [4.0, 0.0], [2.0, 2.0], [1.0, 3.0], [3.0, 3.0], [1.0, 0.0]])
        y = np.array([0, 1, 0, 1, 0, 1, 1, 0])
        _CLF["clf"] = ParzenWindowClassifier(classes=[0, 1], random_state=0, metric_dict={"gamma": 0.5}).fit(X, y)
    return _CLF["clf"]


def strat_query(qs, cand, qa=None):
    """`qa`: optional query arguments (`X`, `y`, `sample_weight`, `fit_clf`, `utility_weight`; `clf` = "fresh" for an
    unfitted clone that the strategy has to fit on a copy)."""
    qa = dict(qa or {})
    clf = get_clf()
    if qa.pop("clf", None) == "fresh":
        from sklearn.base import clone

        clf = clone(clf)
    return qs.query(cand, clf=clf, return_utilities=True, **qa)


TRAIN_X = np.array([[0.0, 0.0], [4.0, 4.0], [0.0, 4.0], [4.0, 0.0], [2.0, 2.0], [1.0, 3.0], [3.0, 3.0], [1.0, 0.0]])
TRAIN_Y = np.array([0, 1, 0, 1, 0, 1, 1, 0], dtype=float)


def gen_query_args(rng, name, n_cand, like=None, need_xy=False):
    """Arguments a stream `query` accepts besides the candidates.  `like`: the arguments of the history's regular calls;
    an *extra* call then re-uses the same training data with other weights / labels half of the time (a cache keyed by
    (X, y) alone shows there)."""
    r = rng.random()
    if like is None and r < 0.4 and not need_xy:
        return {}
    if like is not None and "X" in like and rng.random() < 0.6:
        qa = dict(like)
        if rng.random() < 0.7:
            qa["sample_weight"] = np.array([rng.choice([0.25, 0.5, 1.0, 2.0, 4.0]) for _ in range(len(qa["y"]))])
        else:
            y = qa["y"].copy()
            y[rng.randrange(len(y))] = np.nan
            qa["y"] = y
    else:
        k = rng.randint(3, len(TRAIN_X))
        idx = sorted(rng.sample(range(len(TRAIN_X)), k))
        y = TRAIN_Y[idx].copy()
        if rng.random() < 0.5:
            y[rng.randrange(k)] = np.nan
        qa = dict(X=TRAIN_X[idx].copy(), y=y)
        if rng.random() < 0.5:
            qa["sample_weight"] = np.array([rng.choice([0.5, 1.0, 2.0]) for _ in range(k)])
        if rng.random() < 0.4:
            qa["fit_clf"] = True
            qa["clf"] = "fresh"
    if name == "StreamProbabilisticAL" and rng.random() < 0.5:
        qa["utility_weight"] = np.array([rng.choice([0.5, 1.0, 2.0]) for _ in range(n_cand)])
    else:
        qa.pop("utility_weight", None)
    return qa


def qa_json(qa):
    return {k: (v.tolist() if isinstance(v, np.ndarray) else v) for k, v in (qa or {}).items()}


def qa_load(d):
    return {k: (np.array(v, dtype=float) if isinstance(v, list) else v) for k, v in (d or {}).items()}


def strat_update(qs, cand, idx, ut):
    qs.update(cand, idx, budget_manager_param_dict={"utilities": ut})


def gen_candidates(rng, n):
    """Integer grid points (exact Manhattan distances) with repeats, so some instances are no new
    nearest neighbour of anything (they fail the density filters)."""
    pts = []
    for _ in range(n):
        if pts and rng.random() < 0.3:
            pts.append(list(rng.choice(pts)))
        else:
            pts.append([float(rng.randint(0, 4)), float(rng.randint(0, 4))])
    return np.array(pts, dtype=float)


def run_history(make, ops, extra_at=None, qargs=None):
    """ops: list of candidate chunks (np arrays). For every chunk: query, [extra queries], update.
    extra_at: dict chunk index -> list of (position 'before'|'between', candidates[, query arguments]) extra query calls.
    qargs: the other arguments of the regular query calls (one dict for the whole history).
    Returns outputs of the original calls, snapshots after every original call, violations found on the way."""
    qs = make()
    outs, snaps, problems = [], [], []
    extra_at = {k: [(e + (None,))[:3] for e in v] for k, v in (extra_at or {}).items()}
    with np.errstate(all="ignore"):
        for ci, cand in enumerate(ops):
            qa = qargs
            if qa and "utility_weight" in qa:
                qa = dict(qa, utility_weight=np.resize(qa["utility_weight"], len(cand)))
            try:
                for where, xc, xqa in extra_at.get(ci, []):
                    if where == "before":
                        strat_query(qs, xc, xqa)
                idx, ut = strat_query(qs, cand, qa)
            except Exception as e:  # noqa: BLE001  (a query that raises is an observable result, not a harness crash)
                outs.append(("q", "raised " + err_enum(e)))
                problems.append((ci, "query raised " + err_enum(e), []))
                snaps.append(snap_obj(qs))
                break
            outs.append(("q", [int(i) for i in idx], [f2bits(v) for v in np.asarray(ut, dtype=float)]))
            snaps.append(snap_obj(qs))
            try:
                for where, xc, xqa in extra_at.get(ci, []):
                    if where == "between":
                        strat_query(qs, xc, xqa)
            except Exception as e:  # noqa: BLE001
                outs.append(("q-extra", "raised " + err_enum(e)))
                problems.append((ci, "query raised " + err_enum(e), []))
                break
            try:
                strat_update(qs, cand, idx, ut)
                outs.append(("u", "ok"))
            except Exception as e:  # noqa: BLE001
                outs.append(("u", err_enum(e)))
                problems.append((ci, err_enum(e), [int(i) for i in idx]))
                snaps.append(snap_obj(qs))
                break
            snaps.append(snap_obj(qs))
    return outs, snaps, problems, qs


# ---------------------------------------------------------------------------------------------
# the density window of StreamDensityBasedAL (`window_`, `min_dist_`, `_calculate_ldf`) against Core/Density.lean

def density_window_history(rng, n_rounds=None):
    """One random history on a StreamDensityBasedAL with a small window and the Manhattan distance on integer grid points:
    per round one `query` (sometimes repeated) and, mostly, the `update` with its result.  `_calculate_ldf` is wrapped to log
    the local density factor of every instance.  Returns (window_size, driver tokens per call, expected segment per call)."""
    from skactiveml import stream

    ws = rng.choice([1, 2, 3, 4])
    seed = rng.randrange(2**31 - 1)
    qs = stream.StreamDensityBasedAL(budget=rng.choice([0.25, 0.5, 1.0]), window_size=ws, dist_func=manhattan, random_state=seed)
    log = []
    cls = type(qs)
    orig = cls._calculate_ldf

    def spy(self, candidates):
        r = orig(self, candidates)
        log.append(int(r))
        return r

    toks, segs = [], []

    def record(kind, cand):
        win = [float(v) for row in list(getattr(qs, "window_", [])) for v in np.asarray(row, dtype=float).ravel()]
        md = [float(v) for v in list(getattr(qs, "min_dist_", []))]
        flags = [1 if v > 0 else 0 for v in log]
        toks.append(f"{kind} {len(cand)} " + " ".join(f2bits(v) for row in cand for v in row))
        segs.append(" ".join(map(str, flags)) + " | " + " ".join(f2bits(v) for v in win) + " | " + " ".join(f2bits(v) for v in md))

    cls._calculate_ldf = spy
    try:
        with np.errstate(all="ignore"):
            for _ in range(n_rounds or rng.randint(2, 7)):
                cand = gen_candidates(rng, rng.randint(1, 5))
                for _rep in range(rng.choice([1, 1, 2])):
                    del log[:]
                    idx, ut = strat_query(qs, cand)
                    record("q", cand)
                if rng.random() < 0.8:
                    del log[:]
                    strat_update(qs, cand, idx, ut)
                    record("u", cand)
    finally:
        cls._calculate_ldf = orig
    return ws, toks, segs


def density_window_line(ws, toks):
    return f"dens_win {ws} {len(toks)} " + " ".join(toks)
