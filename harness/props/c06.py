"""C06 — results are reproducible for a fixed random_state.

Ties:
  * translation: `lean/SkaModel/Gen/RngC06.lean` is regenerated from the current source: per class and
    public method the table of random draw sites classified by generator (`self.random_state_`,
    derived local, seeded constructor argument, process-global `np.random.*`, third-party estimator
    constructed without `random_state`, dynamically chosen sampling method without `random_state`,
    helper objects of repo classes constructed without `random_state`), with the obligation
    `NoGlobal rng_<Class>_<method> = true|false`; general theorems in `Props/C06.lean`;
  * dynamic oracle on the real code: twin objects with equal integer random_state give identical
    results, a repeated identical pool query gives the identical result, and results under three
    different `np.random.seed(...)` states agree; `np.random.get_state()` before/after is recorded as
    a detector only.  Classes whose table has a global site are also run on data with tied utilities
    (where hidden nondeterminism changes the outcome).
"""
import os
import time

# tiny data: BLAS / OpenMP thread pools only add overhead (and nondeterministic summation order)
for _v in ("OMP_NUM_THREADS", "OPENBLAS_NUM_THREADS", "MKL_NUM_THREADS"):
    os.environ.setdefault(_v, "1")

from .. import vlib
from ..translate import gen, oracles, zoo

PROP = "C06"
LEAN_TARGETS = ["SkaModel.Props.C06", "SkaModel.Gen.RngC06", "SkaModel.Gen.EffectsC05"]
# theorems about, and the executable of, `check_random_state` translated from the current source of utils/_validation.py on every run
GEN_TARGETS = ["SkaModel.Props.RngGen", "skarnggendriver"]
LEVEL = "proof"
RULE = (
    "cases: (exported class, configuration with an integer random_state, candidate mode, data seed); each case = a fresh "
    "object run under three np.random.seed values + a twin + (pool) the same query repeated on one object + (estimators) an "
    "object fitted/asked twice before vs a fresh twin after the same fit, on plain, label-free (all ties) and far-away test data; outputs "
    "(indices and utilities / decisions / predictions) compared exactly. non-trivial = the call returned a result; "
    "distinct = distinct (class, configuration, mode, seed, tied-data flag)"
)
ASSUMPTIONS = [
    "the draw-site table covers every use of a random generator in the method (translator in the trusted base, validated by the runs under different global seeds)",
    "third-party estimators are deterministic functions of their random_state; MT19937 is a deterministic function of its seed",
    "thread-level nondeterminism (BLAS / joblib) is not modelled",
]
TRUSTED = ["harness/translate (RNG site classification)", "numpy RandomState / sklearn check_random_state as modelled in Core/Rng.lean"]


def generate(ctx):
    from ..translate import pyrng

    pyrng.generate(ctx)
    ctx.gen = gen.generate(PROP, ctx)
    # second generated module: the effect summaries of every pool `query` with the read-before-write analysis
    # (`query_<Class>_historyFree`): no fitted attribute carries state from one query into the next
    g5 = gen.generate("C05", None)
    hist = [o for o in g5["obligations"] if o["kind"] == "history-query"]
    ctx.hist_flipped = {o["cls"] for o in g5["flips"] if o["kind"] == "history-query"}
    ctx.notes["query_history_obligations"] = dict(total=len(hist), hold=sum(1 for o in hist if o["value"]), negated=[o["name"] for o in hist if not o["value"]],
                                                  negated_classes=[o["cls"] for o in hist if not o["value"]])
    for ob in g5["flips"]:
        if ob["kind"] == "history-query":
            where = "; ".join(f"{ld['kind']} {ld.get('attr') or ''} at {ld['file']}:{ld['line']}" for ld in ob["leads"][:3])
            ctx.broken.append(f"translator: obligation {ob['name']} no longer holds for the current source: the query reads state of an earlier call ({where})")
    ctx.notes["generated_obligations_in_audit"] = ctx.notes.pop("generated_obligations", 0)
    ctx.notes.pop("generated_discharged", None)


def _gen(ctx):
    g = getattr(ctx, "gen", None)
    if g is None:
        g = gen.generate(PROP, None, write=False)
        ctx.gen = g
    return g


METHOD_OF = {"pool": "query", "pool_ma": "query", "stream": "query", "budget": "query_by_utility"}


def key_of(case, f):
    m = METHOD_OF.get(case.family, "fit")
    return f"C06/{case.cls_name}.{m}/{f['kind']}"


class InstCase:
    """The same zoo case with `random_state` handed over as a RandomState instance (a fresh one in the same state
    for every constructed object)."""

    def __init__(self, case, seed):
        self._case, self._seed = case, seed

    def __getattr__(self, name):
        return getattr(self._case, name)

    def build(self):
        import numpy as np

        obj = self._case.build()
        if "random_state" in obj.get_params(deep=False):
            inst = np.random.RandomState(self._seed % 1000 + 7)
            inst.random_sample(3)
            obj.set_params(random_state=inst)
        return obj


def run_case(ctx, case, seed, observed, mode=None, tie=False, reuse=None, inst=None):
    if inst in ("shared", "shared-warm") and case.family in ("stream", "budget"):
        findings, info = oracles.repro_shared_instance(case, seed, warm=(inst == "shared-warm"))
        skipped = str(info.get("raised", "")).startswith("RuntimeError: Skip")
        ctx.count("shared_instance_" + case.family + ("_warm_start" if inst == "shared-warm" else "") + ("_skipped" if skipped else ""))
        if skipped:
            return
        _report(ctx, case, seed, observed, mode, tie, reuse, inst, findings, info)
        return
    if inst is not None and case.family not in ("pool", "pool_ma"):
        ctx.count("random_state_instance_" + case.family)
        case = InstCase(case, seed)
    if inst in ("prefit", "prefit-far"):
        findings, info = oracles.repro_pool_prefit(case, mode, seed, far=(inst == "prefit-far"))
        ctx.count("prefit_models_" + ("not_applicable" if info.get("not_applicable") else inst))
    elif inst == "history":
        findings, info = oracles.repro_pool_history(case, mode, seed)
        ctx.count("used_object_vs_fresh" + ("_skipped" if str(info.get("raised", "")).startswith("Skip") else ""))
    elif inst is not None and case.family in ("pool", "pool_ma"):
        findings, info = oracles.repro_pool_instance(case, mode, seed, all_labeled=(inst == "all-labeled"))
        ctx.count("random_state_instance_" + inst + ("_skipped" if str(info.get("raised", "")).startswith("Skip") else ""))
    elif case.family in ("pool", "pool_ma"):
        findings, info = oracles.repro_pool(case, mode, seed, tie_data=tie)
    elif case.family == "stream":
        findings, info = oracles.repro_stream(case, seed)
    elif case.family == "budget":
        findings, info = oracles.repro_budget(case, seed)
    elif reuse is not None:
        findings, info = oracles.repro_estimator_reuse(case, seed, tie_level=reuse)
    else:
        findings, info = oracles.repro_estimator(case, seed)
    _report(ctx, case, seed, observed, mode, tie, reuse, inst, findings, info)


def _report(ctx, case, seed, observed, mode, tie, reuse, inst, findings, info):
    ok = "raised" not in info
    ctx.case((case.key, mode, seed, tie, reuse, inst), ok, sample=dict(case=case.key, mode=mode, seed=seed, tied=tie, reuse=reuse, random_state_instance=inst, findings=[f["kind"] for f in findings]))
    if reuse is not None:
        ctx.count(f"reused_object_vs_twin_tie{reuse}")
    ctx.count("family_" + case.family)
    if tie:
        ctx.count("tied_data_runs")
    if not ok:
        ctx.count("raised:" + info["raised"].split(":")[0])
    if info.get("global_state_advanced"):
        ctx.count("global_generator_advanced(detector)")
        observed.setdefault("_advanced", set()).add(case.cls_name)
    for f in findings:
        observed.setdefault(case.cls_name, set()).add(f["kind"])
        ctx.violate(key_of(case, f), f"{case.cls_name} [{case.config}{', candidates=' + mode if mode else ''}{', tied data' if tie else ''}]: {f['what']}",
                    dict(case=case.key, mode=mode, seed=seed, tie=tie, reuse=reuse, inst=inst, finding=f["kind"]))


def crs_correspondence(ctx, n_cases):
    """`skactiveml.utils.check_random_state` itself against `Ska.Rng.checkRandomState`: which seed the returned
    generator was built from, whether it is the caller's / the global object, whether the caller's instance moved —
    and, on the implementation alone, that the result is a function of (state, multiplier)."""
    import copy

    import numpy as np
    from skactiveml.utils import check_random_state

    rng = ctx.rng
    lines, expect = [], []
    glob = np.random.mtrand._rand
    for t in range(n_cases):
        kind = rng.choice(["inst", "inst", "int", "int", "none"])
        mult = rng.choice([None, 1, 1, 2, 3, 8, 1000, 2**31 - 1, 2**31, 12345678901])
        if kind == "int":
            n = rng.randrange(2**31 - 1)
            arg = n
            draw = int(np.random.RandomState(n).randint(1, 2**31))
        elif kind == "inst":
            arg = np.random.RandomState(rng.randrange(2**31 - 1))
            arg.random_sample(rng.randint(0, 5))
            draw = int(copy.deepcopy(arg).randint(1, 2**31))
        else:
            arg, draw = None, 0
        before = arg.get_state() if kind == "inst" else None
        gbefore = glob.get_state()
        case = dict(kind=kind, mult=mult, arg=(arg if kind == "int" else None))
        try:
            res = check_random_state(arg) if mult is None else check_random_state(arg, mult)
            st0 = res.get_state()
            res2 = check_random_state(arg) if mult is None else check_random_state(arg, mult)
            same_stream = all(np.array_equal(a, b) if isinstance(a, np.ndarray) else a == b for a, b in zip(st0, res2.get_state()))
            shared = (kind == "inst" and res is arg) or res is glob
            if not shared:
                res.random_sample(4)     # draws of the method
            moved = kind == "inst" and not all(np.array_equal(a, b) if isinstance(a, np.ndarray) else a == b for a, b in zip(before, arg.get_state()))
            if shared:
                seed_txt = "-"
            elif kind == "int" and mult is None:
                seed_txt = "given" if np.array_equal(st0[1], np.random.RandomState(arg).get_state()[1]) else "other"
            else:
                want = (draw * mult) % 2**31
                seed_txt = str(want) if np.array_equal(st0[1], np.random.RandomState(want).get_state()[1]) and st0[2] == 624 else "other"
            impl = f"seed {seed_txt} shared {1 if shared else 0} advance {1 if moved else 0}"
            gmoved = not np.array_equal(gbefore[1], glob.get_state()[1]) or gbefore[2] != glob.get_state()[2]
        except Exception as e:  # noqa: BLE001
            impl, same_stream, gmoved, shared, moved = f"err {type(e).__name__}", True, False, False, False
        glob.set_state(gbefore)
        lines.append(f"crs {kind} {'-' if mult is None else mult} {draw}")
        expect.append((impl, case))
        ctx.case(("crs", kind, mult, t), kind != "none", sample=dict(function="check_random_state", kind=kind, seed_multiplier=mult, result=impl))
        ctx.count(f"crs_{kind}_{'mult' if mult is not None else 'nomult'}")
        if mult is not None and kind != "none":
            # C06 on the implementation: private, deterministic, global generator untouched
            if shared or moved:
                ctx.violate("C06/check_random_state/caller-instance-shared-or-advanced",
                            f"check_random_state(<{kind}>, seed_multiplier={mult}) returned the caller's generator or advanced it: a repeated "
                            f"pool query starts from another state", dict(crs=True, kind=kind, mult=mult))
            if not same_stream:
                ctx.violate("C06/check_random_state/not-a-function-of-its-arguments",
                            f"check_random_state(<{kind}>, seed_multiplier={mult}) called twice returned generators in different states",
                            dict(crs=True, kind=kind, mult=mult))
            if gmoved:
                ctx.violate("C06/check_random_state/global-generator-advanced",
                            f"check_random_state(<{kind}>, seed_multiplier={mult}) advanced numpy's global generator", dict(crs=True, kind=kind, mult=mult))
    outs = vlib.run_driver(lines)
    for line, out, (impl, case) in zip(lines, outs, expect):
        if out.split() != impl.split():
            ctx.disagree("Ska.Rng.checkRandomState vs skactiveml.utils.check_random_state", dict(case, line=line), out, impl)
    # the function translated from the current source (Gen/RngGen.lean) on the same calls
    import os

    if getattr(ctx, "gen_ok", False) and os.path.exists(vlib.RNGGENDRIVER):
        gouts = vlib.run_driver(["g_" + l for l in lines], exe=vlib.RNGGENDRIVER)
        for line, out, (impl, case) in zip(lines, gouts, expect):
            ctx.count("generated_model_cases")
            if out.split() != impl.split():
                ctx.disagree("SkaModel.Gen.RngGen (translated from the current source) vs skactiveml.utils.check_random_state",
                             dict(case, line="g_" + line), out, impl)


def correspond(ctx):
    g = _gen(ctx)
    leads = {o["cls"] for o in g["obligations"] if not o["value"]}
    flipped = {o["cls"] for o in g["flips"]}
    observed = {}
    t0 = time.time()
    crs_correspondence(ctx, 150 if not ctx.thorough else 1500)
    cases = [c for c in zoo.cases() if "inner-rs-none" not in c.config]
    cases.sort(key=lambda c: (c.cls_name not in flipped, c.cls_name not in leads, c.family, c.cls_name, c.config))
    seeds = [ctx.seed] if not ctx.thorough else [ctx.seed + 101 * k for k in range(4)]
    for i, case in enumerate(cases):
        lead = case.cls_name in leads or case.cls_name in flipped
        # a flipped obligation starts the failing-input search: more data sets for that class
        case_seeds = seeds + [ctx.seed + 1 + k for k in range(6)] if case.cls_name in flipped else seeds
        for seed in case_seeds:
            if case.family in ("pool", "pool_ma"):
                modes = case.cand_modes if (ctx.thorough or lead) else (case.cand_modes[(i + ctx.seed) % len(case.cand_modes)],)
                for mode in modes:
                    run_case(ctx, case, seed, observed, mode=mode)
                # random_state as a RandomState instance: plain pool, and every label revealed + explicit candidates
                # (smallest per-call seed multiplier)
                run_case(ctx, case, seed, observed, mode=modes[0], inst="plain")
                for mode in (case.cand_modes if ctx.thorough else modes[:1]):
                    run_case(ctx, case, seed, observed, mode=mode, inst="history")
                for mode in [m for m in case.cand_modes if m != "none"][:1 if not ctx.thorough else 2]:
                    run_case(ctx, case, seed, observed, mode=mode, inst="all-labeled")
                if oracles.has_fit_flag(case):
                    # fit flag False, models fitted by the caller (plain data, and candidates far from every label: ties)
                    for mode in (case.cand_modes if ctx.thorough else modes[:1]):
                        run_case(ctx, case, seed, observed, mode=mode, inst="prefit")
                        run_case(ctx, case, seed, observed, mode=mode, inst="prefit-far")
                if lead:
                    for mode in case.cand_modes[:2]:
                        run_case(ctx, case, seed, observed, mode=mode, tie=True)
            else:
                run_case(ctx, case, seed, observed)
                run_case(ctx, case, seed, observed, inst="plain")
                if case.family in ("stream", "budget"):
                    # one caller-owned generator handed to two objects; also with a warm start (update before the first query)
                    run_case(ctx, case, seed, observed, inst="shared")
                    if case.family == "budget":
                        run_case(ctx, case, seed, observed, inst="shared-warm")
                if case.family in ("classifier", "classifier_ma", "regressor"):
                    # re-used object vs fresh twin: plain data, no labels (every prediction a tie), far test points
                    for lvl in (0, 1, 2):
                        run_case(ctx, case, seed, observed, reuse=lvl)
    ctx.notes["dynamic_seconds"] = round(time.time() - t0, 1)
    compare_with_summaries(ctx, g, observed)


def compare_with_summaries(ctx, g, observed):
    exp = gen.load_expected()
    by_cls = {}
    for o in g["obligations"]:
        by_cls.setdefault(o["cls"], []).append(o)
    run_classes = {c.cls_name for c in zoo.cases()}
    for cls, kinds in sorted(observed.items()):
        if cls.startswith("_"):
            continue
        hist_flipped = getattr(ctx, "hist_flipped", set())
        kinds = kinds - {"prefit-models-consumed"}   # state of the caller's fitted models: not a draw site of the strategy
        if not kinds:
            continue
        if kinds <= {"history-dependence"}:
            # state carried between queries: the business of the `query_<Class>_historyFree` obligations
            if cls not in hist_flipped and cls not in ctx.notes.get("query_history_obligations", {}).get("negated_classes", []):
                ctx.broken.append(f"translator missed: {cls}.query depends on earlier queries on the real code but its summary reads no attribute before writing it")
            continue
        if all(o["value"] for o in by_cls.get(cls, [])):
            msg = f"translator missed: {cls} is not reproducible on the real code ({sorted(kinds)}) but every draw site of its summaries uses its own generator"
            # with a flipped obligation elsewhere the nondeterminism may come in through an inner strategy
            # or a model argument of the flipped class: the tie already broke at the root cause
            (ctx.notes.setdefault("nondeterminism_through_other_objects", []) if g["flips"] else ctx.broken).append(msg)
    for o in g["obligations"]:
        if o["value"] or o["cls"] not in run_classes:
            continue
        why = exp.get(o["name"], {}).get("why", "")
        if why.startswith("finding") and not observed.get(o["cls"]):
            ctx.broken.append(f"lead not reproduced: {o['name']} is recorded as a finding but the runs under different global seeds agree")
    ctx.notes["observed_effects"] = {k: sorted(v) for k, v in observed.items()}


def search(ctx):
    g = _gen(ctx)
    flipped = {o["cls"] for o in g["flips"]}
    observed = {}
    t0 = time.time()
    cases = [c for c in zoo.cases() if "inner-rs-none" not in c.config]
    hist_flipped = getattr(ctx, "hist_flipped", set())
    cases.sort(key=lambda c: (c.cls_name not in hist_flipped, c.cls_name not in flipped, c.cls_name))
    for case in [c for c in cases if c.cls_name in hist_flipped and c.family in ("pool", "pool_ma")]:
        for sd in range(4):
            for mode in case.cand_modes:
                run_case(ctx, case, ctx.seed + 1000 + 7 * sd, observed, mode=mode, inst="history")
    for rnd in range(6):
        for case in cases:
            if flipped and case.cls_name not in flipped and rnd > 0:
                continue
            seed = ctx.seed + 1000 + 13 * rnd
            if case.family in ("pool", "pool_ma"):
                for mode in case.cand_modes:
                    run_case(ctx, case, seed, observed, mode=mode)
                    run_case(ctx, case, seed, observed, mode=mode, tie=True)
                    run_case(ctx, case, seed, observed, mode=mode, inst="plain")
                    run_case(ctx, case, seed, observed, mode=mode, inst="history")
                    if mode != "none":
                        run_case(ctx, case, seed, observed, mode=mode, inst="all-labeled")
            else:
                run_case(ctx, case, seed, observed)
            if time.time() - t0 > (600 if ctx.thorough else 150):
                return
        if ctx.violations:
            return


def replay(payload):
    r = payload.get("replay", {})
    if r.get("crs"):
        import copy

        import numpy as np
        from skactiveml.utils import check_random_state

        arg = np.random.RandomState(3) if r["kind"] == "inst" else 3
        before = arg.get_state() if r["kind"] == "inst" else None
        res = check_random_state(arg, r["mult"])
        res.random_sample(4)
        bad = res is arg or (before is not None and not np.array_equal(before[1], arg.get_state()[1])) or (before is not None and before[2] != arg.get_state()[2])
        a = check_random_state(copy.deepcopy(arg) if before is None else np.random.RandomState(3), r["mult"]).get_state()
        b = check_random_state(copy.deepcopy(arg) if before is None else np.random.RandomState(3), r["mult"]).get_state()
        bad = bad or not np.array_equal(a[1], b[1])
        print("REPRODUCED" if bad else "not reproduced")
        return 1 if bad else 0
    case = next((c for c in zoo.cases() if c.key == r.get("case")), None)
    if case is None:
        print("unknown case", r.get("case"))
        return 2
    ctx = vlib.Ctx(PROP, "quick", 0)
    run_case(ctx, case, r["seed"], {}, mode=r.get("mode"), tie=r.get("tie", False), reuse=r.get("reuse"), inst=r.get("inst"))
    for v in ctx.violations:
        print("REPRODUCED:", v["key"], "-", v["what"])
    if not ctx.violations:
        print("not reproduced")
    return 1 if ctx.violations else 0
