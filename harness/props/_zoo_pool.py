"""C01 / C02 clauses evaluated on the configuration zoo of harness/translate/zoo.py (137 pool configurations:
non-default methods, cost matrices, other classifiers / regressors / ensembles, explicit dictionaries, wrappers),
in every candidate mode the configuration supports and for batch sizes around the number of candidates.  This is the
property oracle only (no model line): the zoo widens the *configurations* the statement quantifies over; the
catalogue runs of `_pool.explore` widen the data."""
import warnings

import numpy as np

from ..translate import zoo
from . import _pool


def zoo_cases():
    # SubSamplingWrapper scores a sub-sample only (its utilities follow C20's statement, not C02's NaN pattern)
    return [c for c in zoo.cases() if c.family == "pool" and "unseeded" not in c.config and c.cls_name != "SubSamplingWrapper"]


def kind_of(cls_name):
    """Selection kind of a class as the catalogue knows it (`max`: the pick attains the row maximum; `mass`: positive
    mass; unknown classes: `number`, i.e. only the NaN pattern and 'the pick is a number')."""
    from ..catalog import pool_specs

    kinds = {s.cls: ("mass" if s.selection == "prop" else "max") for s in pool_specs()}
    return kinds.get(cls_name, "number")


def run(ctx, prop, seeds, per_case_modes=None):
    rng = ctx.rng
    for i, case in enumerate(zoo_cases()):
        modes = case.cand_modes if per_case_modes is None else case.cand_modes[:per_case_modes]
        for seed in seeds:
            for mode in modes:
                data = case.data(seed)
                try:
                    kw = case.query_kwargs(data, case.models(), mode)
                except Exception:
                    ctx.count("zoo_kwargs_raised")
                    continue
                y = np.asarray(kw["y"], dtype=float)
                cand = kw.get("candidates")
                if cand is None:
                    cs, ncols = np.flatnonzero(np.isnan(y)), len(y)
                elif np.asarray(cand).ndim == 1:
                    cs, ncols = np.unique(np.asarray(cand, dtype=int)), len(y)
                else:
                    cs, ncols = np.arange(len(cand)), len(cand)
                if len(cs) == 0:
                    continue
                b = rng.choice([1, 2, 3, max(1, len(cs) - 1), len(cs), len(cs) + 2])
                kw["batch_size"] = int(b)
                kw["return_utilities"] = True
                qs = case.build()
                err = q = U = None
                try:
                    with _pool.alarm(60), warnings.catch_warnings(), np.errstate(all="ignore"):
                        warnings.simplefilter("ignore")
                        q, U = qs.query(**kw)
                except _pool.Timeout:
                    err = "non-termination"
                except Exception as e:  # noqa: BLE001
                    err = f"{type(e).__name__}: {str(e)[:100]}"
                name = f"{case.cls_name}[zoo:{case.config}]"
                sample = dict(strategy=name, mode=mode, batch_size=int(b), n_candidates=int(len(cs)), seed=seed)
                replay = dict(zoo=case.key, mode=mode, seed=seed, b=int(b))
                ctx.count("zoo_pool_queries")
                ctx.count(f"zoo_mode_{mode}")
                if err:
                    ctx.case(("zoo", case.key, mode, seed, int(b)), False, sample=dict(sample, result="ERR " + err))
                    ctx.count("zoo_query_raised:" + err.split(":")[0])
                    # a configuration of the zoo may be outside a strategy's domain for this mode (the zoo was built for
                    # side-effect and determinism checks); only non-termination is judged here, raising is C01's catalogue run
                    if err == "non-termination" and prop == "C01":
                        ctx.violate(f"C01/{case.cls_name}.query/non-termination", f"{name}.query did not terminate", replay)
                    continue
                ql, shape_problem = _pool.as_index_list(q)
                p1, p2 = _pool.py_oracle(cs, ncols, int(b), ql, U, kind_of(case.cls_name))
                ctx.case(("zoo", case.key, mode, seed, int(b)), len(cs) >= 2, sample=dict(sample, result=dict(indices=ql, c01=p1 or shape_problem or "ok", c02=p2 or "ok")))
                if prop == "C01":
                    if shape_problem:
                        ctx.violate(f"C01/{case.cls_name}.query/index-shape", f"{name}.query: {shape_problem}", replay)
                    if p1:
                        kindp = "short-batch" if p1.startswith("size") else p1
                        ctx.violate(f"C01/{case.cls_name}.query/{kindp}", f"{name}.query [{mode}, batch_size={b}]: {p1}", replay)
                if prop == "C02" and p2:
                    kindp = "utilities-shape" if p2.startswith("utilities shape") else p2
                    ctx.violate(f"C02/{case.cls_name}.query/{kindp}", f"{name}.query [{mode}, batch_size={b}] utilities: {p2}", replay)


def replay(prop, r):
    case = next((c for c in zoo.cases() if c.key == r["zoo"]), None)
    if case is None:
        print("unknown zoo case", r["zoo"])
        return 2
    data = case.data(r["seed"])
    kw = case.query_kwargs(data, case.models(), r["mode"])
    y = np.asarray(kw["y"], dtype=float)
    cand = kw.get("candidates")
    if cand is None:
        cs, ncols = np.flatnonzero(np.isnan(y)), len(y)
    elif np.asarray(cand).ndim == 1:
        cs, ncols = np.unique(np.asarray(cand, dtype=int)), len(y)
    else:
        cs, ncols = np.arange(len(cand)), len(cand)
    kw["batch_size"] = r["b"]
    kw["return_utilities"] = True
    try:
        with warnings.catch_warnings(), np.errstate(all="ignore"):
            warnings.simplefilter("ignore")
            q, U = case.build().query(**kw)
    except Exception as e:  # noqa: BLE001
        print("query raised", type(e).__name__, e)
        return 0
    ql, sp = _pool.as_index_list(q)
    p1, p2 = _pool.py_oracle(cs, ncols, r["b"], ql, U, kind_of(case.cls_name))
    print("indices", ql, "C01:", p1 or sp or "ok", "C02:", p2 or "ok")
    bad = (p1 or sp) if prop == "C01" else p2
    print("REPRODUCED" if bad else "not reproduced")
    return 1 if bad else 0
