"""C03 — stream query is a pure simulation: it never changes strategy state.

Theorems: SkaModel/Props/C03.lean (`X_query_pure` for every budget manager and both baselines over every
numeric carrier, `repeated_query_same`, `extra_queries_irrelevant` for arbitrary histories).  Tie: the
models run at Float against the real classes (same lines as C04, here with histories that interleave
extra queries).  Oracles on the real code: deep snapshots (all instance attributes, nested budget
managers, RandomState.get_state()) before / after every query; every query repeated; every history run
twice, once with extra query calls inserted, all later outputs and all later snapshots compared — for the
budget managers, the baselines and every strategy exported by skactiveml.stream x every budget manager."""
import os

import numpy as np

from .. import vlib
from ..vlib import f2bits
from . import _stream as S

LEAN_TARGETS = ["SkaModel.Props.C03", "SkaModel.Props.C03dens"]
# theorems about, and the executable of, the model translated from the current Python source on every run
GEN_TARGETS = [["SkaModel.Props.StreamGen", "skagendriver"], ["SkaModel.Props.DensityGen", "skadensgendriver"]]

LEVEL = "proof"
RULE = (
    "cases: (a) budget manager / baseline histories: stream + chunking, every chunk = query, repeated query, update; "
    "model vs implementation on queried indices and bit-exact state after every update; (b) the same history with extra "
    "query calls (random utility vectors of length 1..6, NaN included) inserted before / between the original calls; "
    "(c) strategy histories: 11 strategy classes x 7 budget managers (+ default manager), integer grid candidates with "
    "repeats, cognition / density windows of size 3 so eviction happens, chunk sizes 1..5. non-trivial = history with at "
    "least 2 updates and at least one granted label; distinct = distinct (class, manager, parameters, seed, chunking, stream)"
)
ASSUMPTIONS = [
    "a RandomState is a cursor into a fixed stream; get_state/set_state save/restore it (draws captured from the real run)",
    "lazy initialisation: the first call creates the fitted attributes; purity of the first call is judged on the attributes that existed before it plus equality of the final snapshots of the twin runs",
    "snapshot completeness: every entry of vars(obj) is snapshotted (arrays bit-exact, deques with maxlen, nested budget managers, generators by get_state)",
]
TRUSTED = [
    "translator harness/translate/pystream.py (Python subset -> Lean, typing table of the attributes, generator = cursor into the captured "
    "draw streams, lazily initialised attributes = initial object): validated on every run by executing the translated model bit-exactly "
    "against the real classes; the equality translated model = hand-written model is proved in Lean for all inputs (Lemmas/StreamGen.lean)",
    "the window logic (_calculate_ldf) of StreamDensityBasedAL / CognitiveDualQueryStrategy is not modelled in Lean; its purity is covered by the snapshot oracles on the implementation only",
    "classifier (ParzenWindowClassifier), distance function (integer Manhattan) and np.quantile are oracles",
]


def cls_of(kind):
    return {
        "fixed": "FixedUncertaintyBudgetManager", "var": "VariableUncertaintyBudgetManager",
        "randvar": "RandomVariableUncertaintyBudgetManager", "split": "SplitBudgetManager", "random": "RandomBudgetManager",
        "dbsplit": "DensityBasedSplitBudgetManager", "biqf": "BalancedIncrementalQuantileFilter",
        "srs_strict": "StreamRandomSampling", "srs_allow": "StreamRandomSampling", "periodic": "PeriodicSampling",
    }[kind]


def gen_extra(rng, spec):
    extra = {}
    is_base = spec["kind"] in S.BASELINE_KINDS
    for ci in range(len(spec["chunks"])):
        calls = []
        for _ in range(rng.choice([0, 0, 1, 1, 2, 3])):
            k = rng.randint(1, 6)
            arg = k if is_base else S.gen_utils(rng, k)[0]
            calls.append((rng.choice(["before", "between"]), arg))
        if calls:
            extra[ci] = calls
    if not extra:
        extra[0] = [("before", 3 if is_base else [1.0, "nan", 0.5])]
    return extra


def manager_case(ctx, lines, expect, spec, rng):
    meth = "query" if spec["kind"] in S.BASELINE_KINDS else "query_by_utility"
    cname = cls_of(spec["kind"])
    run = S.run_case(spec, check_purity=True)
    lines.append(S.model_line(spec, run))
    expect.append((S.impl_text(run), spec))
    ctx.case(("m", spec["kind"], repr(sorted(spec["params"].items())), spec["seed"], tuple(spec["chunks"]), repr(spec.get("utils"))),
             len(run.states) >= 2 and len(run.grants) >= 1,
             sample=dict(kind=spec["kind"], params=spec["params"], chunks=spec["chunks"], granted=run.grants[:10]))
    ctx.count(f"manager_{spec['kind']}")
    ctx.count("queries_snapshotted", 2 * len(spec["chunks"]))
    if run.query_exc:
        ctx.violate(f"C03/{cname}.{meth}/raises", f"{cname}.{meth} raised {run.query_exc[0][1]} (chunk {run.query_exc[0][0]})",
                    dict(spec=spec, oracle="purity"))
        return
    if run.purity:
        ctx.violate(f"C03/{cname}.{meth}/state-changed",
                    f"{cname}.{meth} changed attributes {run.purity[0][1]} (chunk {run.purity[0][0]})",
                    dict(spec=spec, oracle="purity"))
    if run.repeat_diff:
        ctx.violate(f"C03/{cname}.{meth}/repeated-query-differs",
                    f"{cname}.{meth}: a repeated call with the same arguments returned a different result",
                    dict(spec=spec, oracle="purity"))
    if run.stopped:
        return
    # twin run with extra queries
    extra = gen_extra(rng, spec)
    twin = S.run_case(spec, check_purity=False, extra_at=extra)
    ctx.count("extra_queries_inserted", sum(len(v) for v in extra.values()))
    if twin.segments != run.segments or S.snap_diff(twin.final_snapshot, run.final_snapshot):
        first = next((i for i, (a, b) in enumerate(zip(run.segments, twin.segments)) if a != b), None)
        ctx.violate(f"C03/{cname}.{meth}/extra-queries-change-behaviour",
                    f"{cname}: inserting extra {meth} calls changed later results (first differing chunk {first}) or the final state "
                    f"{S.snap_diff(twin.final_snapshot, run.final_snapshot)}",
                    dict(spec=spec, oracle="extra", extra={str(k): v for k, v in extra.items()}))


def strategy_history(ctx, rng, name, mgr_kind, default_mgr=False):
    ffb = rng.random() < 0.5
    b = rng.choice([0.25, 0.5, 1.0, 0.125])
    seed = rng.randrange(2**31 - 1)
    n = rng.randint(3, 14)
    cand = S.gen_candidates(rng, n)
    cognitive = name.startswith("CognitiveDual")
    chunks = [1] * n if (cognitive and not ffb) else S.gen_chunks(rng, n, maxc=5)
    ops, off = [], 0
    for c in chunks:
        ops.append(cand[off:off + c])
        off += c
    # the other arguments of query (training data, weights, fit_clf, utility_weight): one setting for the regular calls of the
    # history, possibly different ones for the extra calls
    # StreamProbabilisticAL(metric=...) estimates frequencies from the training data: X and y are then mandatory
    metric = rng.choice([None, "rbf"]) if name == "StreamProbabilisticAL" else None
    qargs = S.gen_query_args(rng, name, max(chunks), need_xy=metric is not None)
    extra = {}
    for ci in range(len(ops)):
        calls = []
        for _ in range(rng.choice([0, 1, 1, 2])):
            k = rng.randint(1, 4)
            calls.append((rng.choice(["before", "between"]), S.gen_candidates(rng, k), S.gen_query_args(rng, name, k, like=qargs, need_xy=metric is not None)))
        if calls:
            extra[ci] = calls
    if not extra:
        extra[0] = [("before", S.gen_candidates(rng, 2), S.gen_query_args(rng, name, 2, like=qargs, need_xy=metric is not None))]
    make = lambda: S.make_strategy(name, mgr_kind, b, seed, ffb=ffb, default_mgr=default_mgr, metric=metric)
    payload = dict(strategy=name, manager=("default" if default_mgr else mgr_kind), budget=b, seed=seed, ffb=ffb,
                   chunks=chunks, candidates=cand.tolist(), metric=metric, qargs=S.qa_json(qargs),
                   extra={str(k): [(w, x.tolist(), S.qa_json(qa)) for w, x, qa in v] for k, v in extra.items()})
    ctx.count("query_args_" + ("+".join(sorted(qargs)) or "none"))
    outs_a, snaps_a, prob_a, _ = S.run_history(make, ops, qargs=qargs)
    outs_b, snaps_b, prob_b, _ = S.run_history(make, ops, extra_at=extra, qargs=qargs)
    granted = sum(len(o[1]) for o in outs_a if o[0] == "q")
    ctx.case(("s", name, mgr_kind, default_mgr, seed, b, ffb, tuple(chunks)), len(ops) >= 2 and granted >= 1,
             sample=dict(strategy=name, manager=payload["manager"], budget=b, ffb=ffb, chunks=chunks, outs=[o[:2] for o in outs_a][:6]))
    ctx.count(f"strategy_{name}")
    ctx.count(f"strategy_manager_{payload['manager']}")
    ctx.count("extra_queries_inserted", sum(len(v) for v in extra.values()))
    key_cls = "CognitiveDualQueryStrategy" if cognitive else name
    if prob_a and prob_a[0][1].startswith("query raised"):
        ctx.violate(f"C03/{key_cls}.query/raises-after-earlier-calls",
                    f"{name}+{payload['manager']}: query raised in a plain query/update history: {prob_a[0][1]} (chunk {prob_a[0][0]})",
                    dict(payload, oracle="purity"))
        return
    if prob_a:
        ctx.count("history_cut_short_by_update_exception(C10 topic)")
    # (1) query purity inside run A: snapshot after a query == snapshot after the preceding update
    for j in range(2, len(snaps_a), 2):
        d = S.snap_diff(snaps_a[j - 1], snaps_a[j], lazy=True)
        if d:
            ctx.violate(f"C03/{key_cls}.query/state-changed",
                        f"{name}+{payload['manager']}: query changed attributes {d}", dict(payload, oracle="purity", at=j // 2))
            return
    if len(snaps_a) >= 1:
        # very first query: judged through the twin run below (lazy init)
        pass
    # (2) twin run: outputs of the original calls and snapshots after every original call
    if outs_a != outs_b:
        first = next((i for i, (a, b_) in enumerate(zip(outs_a, outs_b)) if a != b_), min(len(outs_a), len(outs_b)))
        ctx.violate(f"C03/{key_cls}.query/extra-queries-change-behaviour",
                    f"{name}+{payload['manager']}: extra query calls changed the result of original call #{first}",
                    dict(payload, oracle="extra"))
        return
    for j, (sa, sb) in enumerate(zip(snaps_a, snaps_b)):
        d = S.snap_diff(sa, sb, lazy=True)
        if d:
            ctx.violate(f"C03/{key_cls}.query/extra-queries-change-state",
                        f"{name}+{payload['manager']}: after original call #{j} the state differs in {d} when extra queries were made",
                        dict(payload, oracle="extra"))
            return


UNSEEDED = ["StreamRandomSampling", "StreamRandomSampling", "PeriodicSampling", "RandomVariableUncertainty", "Split",
            "StreamProbabilisticAL", "CognitiveDualQueryStrategyRan", "StreamDensityBasedAL", "VariableUncertainty"]


def unseeded_history(ctx, rng, name):
    """`random_state=None` (the default): the strategy draws from numpy's global generator.  Purity is judged for a
    fixed state of that generator at the start of the history (np.random.seed): repeated queries agree, and extra
    queries do not change any later result."""
    from skactiveml import stream

    b = rng.choice([0.25, 0.5, 1.0])
    gs = rng.randrange(2**31 - 1)
    n = rng.randint(3, 12)
    cand = S.gen_candidates(rng, n)
    chunks = S.gen_chunks(rng, n, maxc=4)
    base = name in ("StreamRandomSampling", "PeriodicSampling")
    allow = rng.random() < 0.5

    def make():
        if name == "StreamRandomSampling":
            return stream.StreamRandomSampling(budget=b, allow_exceeding_budget=allow)
        if name == "PeriodicSampling":
            return stream.PeriodicSampling(budget=b)
        return S.make_strategy(name, None, b, None, default_mgr=True)

    def q(qs, c):
        idx, ut = qs.query(c, return_utilities=True) if base else S.strat_query(qs, c)
        return [int(i) for i in idx], [f2bits(v) for v in np.asarray(ut, dtype=float)]

    def upd(qs, c, idx, ut):
        if base:
            qs.update(c, np.array(idx, dtype=int))
        else:
            S.strat_update(qs, c, np.array(idx, dtype=int), np.array([vlib.bits2f(v) for v in ut]))

    extra = {ci: S.gen_candidates(rng, rng.randint(1, 3)) for ci in range(len(chunks)) if rng.random() < 0.6}
    payload = dict(strategy=name, random_state=None, global_seed=gs, budget=b, allow_exceeding_budget=allow, chunks=chunks,
                   candidates=cand.tolist(), extra={str(k): v.tolist() for k, v in extra.items()}, oracle="unseeded")

    def run(with_extra, repeat):
        np.random.seed(gs)
        qs = make()
        outs, off, rep_bad = [], 0, None
        with np.errstate(all="ignore"):
            for ci, c in enumerate(chunks):
                ch = cand[off:off + c]
                off += c
                if with_extra and ci in extra:
                    q(qs, extra[ci])
                r1 = q(qs, ch)
                if repeat:
                    r2 = q(qs, ch)
                    r3 = q(qs, ch)
                    if r2 != r3 or (ci > 0 and r1 != r2):
                        rep_bad = rep_bad if rep_bad is not None else ci
                outs.append(r1)
                upd(qs, ch, *r1)
        return outs, rep_bad

    try:
        a, _ = run(False, False)
        b_, _ = run(True, False)
        c_, rep_bad = run(False, True)
    except Exception as e:  # noqa: BLE001
        ctx.count("unseeded_history_raised:" + type(e).__name__)
        return
    granted = sum(len(o[0]) for o in a)
    ctx.case(("unseeded", name, gs, b, tuple(chunks)), len(chunks) >= 2 and granted >= 1,
             sample=dict(strategy=name, random_state=None, global_seed=gs, budget=b, chunks=chunks, outs=a[:4]))
    ctx.count("unseeded_" + name)
    if rep_bad is not None:
        ctx.violate(f"C03/{name}.query/repeated-query-differs/random_state-None",
                    f"{name}(random_state=None): a repeated query with the same arguments returned a different result (chunk {rep_bad})", payload)
    elif a != b_ or a != c_:
        ctx.violate(f"C03/{name}.query/extra-queries-change-behaviour/random_state-None",
                    f"{name}(random_state=None): extra / repeated query calls changed the results of later calls "
                    f"(numpy's global generator re-seeded identically before both histories)", payload)


def generate(ctx):
    from ..translate import pystream

    if pystream.generate(ctx) is None:
        ctx.gen_failed = False  # the previous generated file is still in place; its tie is reported broken above
    from ..translate import pydensity

    pydensity.generate(ctx)


def density_windows(ctx, n):
    """`window_` / `min_dist_` / `_calculate_ldf` of StreamDensityBasedAL against `Core/Density.lean`: after every query (which
    must put both deques back) and every update, the window contents, the minimal distances and the density-filter outcome
    of every instance (bit-exact; Manhattan distance on grid points)."""
    rng = ctx.rng
    lines, expect = [], []
    for _ in range(n):
        try:
            ws, toks, segs = S.density_window_history(rng)
        except Exception as e:  # noqa: BLE001  (a changed implementation may raise inside the history: an observation)
            ctx.broken.append(f"StreamDensityBasedAL raised inside a plain query / update history: {type(e).__name__}: {str(e)[:120]}")
            break
        lines.append(S.density_window_line(ws, toks))
        expect.append((" ; ".join(segs), dict(window_size=ws, calls=toks)))
        ctx.case(("dens", ws, tuple(toks)), len(toks) >= 3, sample=dict(kind="density-window", window_size=ws, calls=len(toks), last=segs[-1][:80]))
        ctx.count("density_window_histories")
        ctx.count("density_window_calls", len(toks))
    outs = vlib.run_driver(lines)
    for line, out, (impl, case) in zip(lines, outs, expect):
        if out.split() != impl.split():
            ctx.disagree("SkaModel.Core.Density vs StreamDensityBasedAL (window_, min_dist_, _calculate_ldf)", dict(case, line=line[:300]), out[:500], impl[:500])
    # the `_calculate_ldf` translated from the current source, executed inside the same window loops
    groups = getattr(ctx, "gen_ok_groups", [])
    if ctx.prop == "C03" and len(groups) > 1 and groups[1] and os.path.exists(vlib.DENSGENDRIVER):
        gouts = vlib.run_driver(["g_" + l for l in lines], exe=vlib.DENSGENDRIVER)
        for line, out, (impl, case) in zip(lines, gouts, expect):
            ctx.count("generated_density_cases")
            if out.split() != impl.split():
                ctx.disagree("SkaModel.Gen.DensityGen (translated _calculate_ldf) vs StreamDensityBasedAL", dict(case, line=("g_" + line)[:300]), out[:500], impl[:500])


def correspond(ctx):
    rng = ctx.rng
    lines, expect = [], []
    per_kind = 60 if not ctx.thorough else 400
    for kind in S.MANAGER_KINDS + S.BASELINE_KINDS:
        for t in range(per_kind):
            spec = S.gen_case(rng, kind, boundary=(t % 3 == 0), n=rng.randint(2, 40))
            manager_case(ctx, lines, expect, spec, rng)
    S.compare_models(ctx, lines, expect)
    density_windows(ctx, 150 if not ctx.thorough else 1500)
    names, missing = S.strategy_grid()
    if missing:
        ctx.broken.append(f"classes exported by skactiveml.stream that the C03 grid does not cover: {missing}")
    reps = 4 if not ctx.thorough else 25
    pairs = S.grid_pairs()
    for name, mk in pairs:
        for _ in range(reps if mk is not None else 3 * reps):
            strategy_history(ctx, rng, name, mk, default_mgr=(mk is None))
    for _ in range(4 if not ctx.thorough else 30):
        for name in UNSEEDED:
            unseeded_history(ctx, rng, name)
    ctx.notes["strategy_grid"] = (f"{len(names)} strategy classes; {len(pairs)} (strategy, manager) pairs = every budget manager each "
                                  f"class accepts + its default manager; {reps} histories per pair (3x for the default manager)")


def search(ctx):
    rng = ctx.rng
    lines, expect = [], []
    for _ in range(150):
        for kind in S.MANAGER_KINDS + S.BASELINE_KINDS:
            manager_case(ctx, lines, expect, S.gen_case(rng, kind, n=rng.randint(2, 30)), rng)
        if ctx.violations:
            return
    for _ in range(10):
        for name, mk in S.grid_pairs():
            strategy_history(ctx, rng, name, mk, default_mgr=(mk is None))
        for name in UNSEEDED:
            unseeded_history(ctx, rng, name)
        if ctx.violations:
            return


def replay(payload):
    import random

    ctx = vlib.Ctx("C03", "quick", 0)
    r = payload.get("replay", {})
    if r.get("oracle") == "unseeded":
        return replay_unseeded(r)
    if "spec" in r:
        spec = r["spec"]
        run = S.run_case(spec, check_purity=True)
        print("purity:", run.purity, "repeat_diff:", run.repeat_diff)
        bad = bool(run.purity or run.repeat_diff)
        if r.get("extra"):
            extra = {int(k): [tuple(c) for c in v] for k, v in r["extra"].items()}
            twin = S.run_case(spec, check_purity=False, extra_at=extra)
            d = S.snap_diff(twin.final_snapshot, run.final_snapshot)
            print("segments equal:", twin.segments == run.segments, "final state diff:", d)
            bad = bad or twin.segments != run.segments or bool(d)
        print("REPRODUCED" if bad else "not reproduced")
        return 1 if bad else 0
    if "strategy" in r:
        cand = np.array(r["candidates"], dtype=float)
        ops, off = [], 0
        for c in r["chunks"]:
            ops.append(cand[off:off + c])
            off += c
        extra = {int(k): [(e[0], np.array(e[1], dtype=float), S.qa_load(e[2]) if len(e) > 2 else None) for e in v]
                 for k, v in r["extra"].items()}
        mk = None if r["manager"] == "default" else r["manager"]
        qargs = S.qa_load(r.get("qargs"))
        make = lambda: S.make_strategy(r["strategy"], mk, r["budget"], r["seed"], ffb=r["ffb"], default_mgr=(mk is None),
                                       metric=r.get("metric"))
        oa, sa, _, _ = S.run_history(make, ops, qargs=qargs)
        ob, sb, _, _ = S.run_history(make, ops, extra_at=extra, qargs=qargs)
        bad = oa != ob or any(S.snap_diff(a, b, lazy=True) for a, b in zip(sa, sb)) or any("raised" in str(o[1]) for o in oa if o[0] != "u")
        for j in range(2, len(sa), 2):
            d = S.snap_diff(sa[j - 1], sa[j], lazy=True)
            if d:
                print("query changed", d)
                bad = True
        print("outputs equal:", oa == ob)
        print("REPRODUCED" if bad else "not reproduced")
        return 1 if bad else 0
    print("nothing to replay")
    return 0


def replay_unseeded(r):
    import random

    ctx = vlib.Ctx("C03", "quick", 0)

    class Fixed(random.Random):
        pass

    # re-run the same generator path is not possible without the PRNG state; re-evaluate the recorded history directly
    from skactiveml import stream

    name, gs, b, allow = r["strategy"], r["global_seed"], r["budget"], r["allow_exceeding_budget"]
    cand = np.array(r["candidates"], dtype=float)
    base = name in ("StreamRandomSampling", "PeriodicSampling")

    def make():
        if name == "StreamRandomSampling":
            return stream.StreamRandomSampling(budget=b, allow_exceeding_budget=allow)
        if name == "PeriodicSampling":
            return stream.PeriodicSampling(budget=b)
        return S.make_strategy(name, None, b, None, default_mgr=True)

    def q(qs, c):
        idx, ut = qs.query(c, return_utilities=True) if base else S.strat_query(qs, c)
        return [int(i) for i in idx], [f2bits(v) for v in np.asarray(ut, dtype=float)]

    bad = False
    for with_extra in (False, True):
        np.random.seed(gs)
        qs, off, outs = make(), 0, []
        for ci, c in enumerate(r["chunks"]):
            ch = cand[off:off + c]
            off += c
            if with_extra and str(ci) in r["extra"]:
                q(qs, np.array(r["extra"][str(ci)], dtype=float))
            r1 = q(qs, ch)
            r2 = q(qs, ch)
            r3 = q(qs, ch)
            if r2 != r3 or (ci > 0 and r1 != r2):
                print("repeated query differs at chunk", ci, r1, r2, r3)
                bad = True
            outs.append(r1)
            if base:
                qs.update(ch, np.array(r1[0], dtype=int))
            else:
                S.strat_update(qs, ch, np.array(r1[0], dtype=int), np.array([vlib.bits2f(v) for v in r1[1]]))
        if with_extra:
            bad = bad or outs != first
        first = outs
    print("REPRODUCED" if bad else "not reproduced")
    return 1 if bad else 0
