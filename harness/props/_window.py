"""Sliding-window clause of C13: `SlidingWindowClassifier` equals a fit on exactly the last
`window_size` samples it was given (since the last `fit`, filtered to labeled ones if `only_labeled`).

Not a check of its own: the C13 check calls `correspond_window(ctx)` (model `SkaModel/Core/Window.lean`,
theorems `SkaModel/Props/C13w.lean`, add `"SkaModel.Props.C13w"` to its LEAN_TARGETS), optionally
`search_window(ctx)` and, for payloads with `replay["family"] == "window"`, `replay_window(payload)`.
Violations are keyed `C13/SlidingWindowClassifier.<method>/...`."""
import itertools
import warnings

import numpy as np

from .. import vlib
from ..vlib import f2bits, bits2f

LEAN_TARGETS = ["SkaModel.Props.C13w"]
RULE_WINDOW = (
    "window cases: one SlidingWindowClassifier (window_size None/1/2/3/5 or invalid, only_labeled) around a spy estimator "
    "recording what it is fitted on, or around ParzenWindowClassifier; one complete sequence of fit / partial_fit calls "
    "(batches of 0..4 samples, missing labels, weights None/given, wrong lengths); after every call X_train_, y_train_, "
    "sample_weight_train_ and the data the estimator was last fitted on are compared with the model, and with the last "
    "window_size samples given since the last fit; ParzenWindowClassifier predictions are compared with a fresh clone "
    "fitted on exactly those. non-trivial = at least two accepted calls and a window that has overflowed or been reset"
)
ASSUMPTIONS_WINDOW = [
    "a call that raises is read as giving nothing (the object must stay as it was)",
    "sample_weight=None in the most recent call means 'no weights' for the whole window (the code's documented deque handling)",
]
NAN = float("nan")
_cache = {}


def spy_cls():
    if "Spy" in _cache:
        return _cache["Spy"]
    from sklearn.exceptions import NotFittedError
    from skactiveml.base import SkactivemlClassifier

    class WinSpy(SkactivemlClassifier):
        def __init__(self, classes=None, missing_label=np.nan, cost_matrix=None, random_state=None):
            super().__init__(classes=classes, missing_label=missing_label, cost_matrix=cost_matrix, random_state=random_state)

        def fit(self, X, y, sample_weight=None):
            self.classes_ = np.asarray(self.classes, dtype=float)
            A = np.array(X, dtype=float, copy=True)
            A = A.reshape(len(A), -1) if len(A) else np.zeros((0, 2))
            self.seen_ = (A, np.array(y, dtype=float, copy=True),
                          None if sample_weight is None else np.array(sample_weight, dtype=float, copy=True))
            return self

        def predict_proba(self, X):
            if not hasattr(self, "seen_"):
                raise NotFittedError("spy")
            return np.full((len(X), len(self.classes_)), 1.0 / len(self.classes_))

    _cache["Spy"] = WinSpy
    return WinSpy


def lab(v):
    v = float(v)
    return -1 if v != v else int(v)


def err_enum(e):
    if isinstance(e, AttributeError):
        return "err attr"
    if isinstance(e, (ValueError, TypeError)):
        return "err value"
    return f"err other:{type(e).__name__}:{str(e)[:60]}"


def op_tok(op):
    xs = " ".join(f"{i} {lab(v)}" for i, v in zip(op["ids"], op["y"]))
    ws = "N" if op["sw"] is None else " ".join([str(len(op["sw"]))] + [f2bits(w) for w in op["sw"]])
    return f"{int(op['fit'])} {len(op['ids'])} {xs} {ws}".replace("  ", " ")


def case_line(case):
    w = case["window"]
    return " ".join(["win", "N" if w is None else str(int(w)), str(int(case["only_labeled"])), str(len(case["ops"]))]
                    + [op_tok(o) for o in case["ops"]])


def parse_state(seg):
    t = seg.split()
    i = 0
    status = t[0] if t[0] == "ok" else t[0] + " " + t[1]
    i = 1 if t[0] == "ok" else 2

    def samples(i):
        k = int(t[i]); i += 1
        out = [(int(t[i + 2 * j]), int(t[i + 2 * j + 1])) for j in range(k)]
        return out, i + 2 * k

    def optw(i):
        if t[i] == "N":
            return None, i + 1
        k = int(t[i])
        return [bits2f(x) for x in t[i + 1:i + 1 + k]], i + 1 + k

    assert t[i] == "buf"
    buf, i = samples(i + 1)
    assert t[i] == "sw"
    sw, i = optw(i + 1)
    assert t[i] == "clf"
    if t[i + 1] == "none":
        clf = None
    else:
        cb, i = samples(i + 1)
        assert t[i] == "sw"
        cw, i = optw(i + 1)
        clf = (cb, cw)
    return dict(status=status, buf=buf, sw=sw, clf=clf)


def fkey(x):
    return None if x is None else tuple(f2bits(v) for v in x)


# ---------------------------------------------------------------------------------------------

class Given:
    """Specification side: what has been given since the last fit (python mirror of `Ska.C13w.given`)."""

    def __init__(self, case):
        self.case = case
        self.samples, self.weights, self.fitted = [], [], False

    def accept(self, op):
        ids, y, sw = op["ids"], [lab(v) for v in op["y"]], op["sw"]
        if self.case["only_labeled"]:
            keep = [j for j, v in enumerate(y) if v >= 0]
            ids, y = [ids[j] for j in keep], [y[j] for j in keep]
            sw = None if sw is None else [sw[j] for j in keep]
        if op["fit"]:
            self.samples, self.weights = [], []
        self.samples = self.samples + list(zip(ids, y))
        self.weights = None if (sw is None or self.weights is None) else self.weights + [float(w) for w in sw]
        self.fitted = True

    def window(self):
        w = self.case["window"]
        s = self.samples if w is None else self.samples[max(0, len(self.samples) - w):]
        ws = None if self.weights is None else (self.weights if w is None else self.weights[max(0, len(self.weights) - w):])
        return s, ws


def run_case(ctx, case, pending):
    from sklearn import clone
    from skactiveml.classifier import ParzenWindowClassifier, SlidingWindowClassifier

    n = case["n"]
    X = np.array([[float(i), float((3 * i) % 7)] for i in range(n)])
    rowid = {tuple(r): i for i, r in enumerate(X.tolist())}
    if case["kind"] == "spy":
        est = spy_cls()(classes=[0.0, 1.0, 2.0])
    else:
        est = ParzenWindowClassifier(classes=[0.0, 1.0, 2.0], metric="rbf", metric_dict={"gamma": 0.25}, random_state=0)
    obj = SlidingWindowClassifier(est, classes=[0.0, 1.0, 2.0], window_size=case["window"], only_labeled=case["only_labeled"], random_state=0)
    g = Given(case)
    exps, statuses, sent = [], [], []

    def snap():
        d = obj.__dict__
        if "X_train_" not in d:
            buf = []
        else:
            xi = [rowid.get(tuple(np.asarray(x, dtype=float).ravel().tolist()), -99) for x in d["X_train_"]]
            yi = [lab(v) for v in d["y_train_"]]
            m = max(len(xi), len(yi))       # windows out of step show up as padding
            buf = list(zip(xi + [-99] * (m - len(xi)), yi + [-99] * (m - len(yi))))
        sw = d.get("sample_weight_train_", ())
        sw = None if sw is None else [float(w) for w in sw]
        e = d.get("estimator_")
        seen = None
        if e is not None and hasattr(e, "seen_"):
            A, yy, ww = e.seen_
            seen = ([(rowid.get(tuple(r), -99), lab(v)) for r, v in zip(A.tolist(), yy)], None if ww is None else [float(w) for w in ww])
        elif e is not None and hasattr(e, "classes_"):
            seen = "fitted"
        return dict(buf=buf, sw=sw, clf=seen)

    stop = False
    for k, op in enumerate(case["ops"]):
        before = snap()
        ids = op["ids"]
        A = X[ids] if len(ids) else X[:0]
        if op.get("x_short"):
            A = A[:-1]
        y = np.array(op["y"], dtype=float)
        sw = None if op["sw"] is None else np.array(op["sw"], dtype=float)
        try:
            with warnings.catch_warnings():
                warnings.simplefilter("ignore")
                (obj.fit if op["fit"] else obj.partial_fit)(A, y, sample_weight=sw)
            st = "ok"
        except Exception as e:
            st = err_enum(e)
        after = snap()
        if op.get("x_short"):
            # len(X) != len(y): rejected by check_consistent_length; the model's samples are (x, y) pairs, so this
            # call is checked on the implementation only (must raise and change nothing) and not sent to the model
            ctx.count("window_x_y_length_mismatch_" + st.replace(" ", "_"))
            if st != "err value" or _key(before) != _key(after):
                ctx.violate(f"C13/SlidingWindowClassifier.{'fit' if op['fit'] else 'partial_fit'}/length-mismatch-not-rejected-cleanly",
                            f"len(X) != len(y) gave {st}, window {before['buf']} -> {after['buf']}",
                            dict(family="window", case=dict(case, ops=case["ops"][: k + 1]), at=k))
            continue
        statuses.append(st)
        exps.append((st, after))
        sent.append(op)
        ctx.count(f"window_{'fit' if op['fit'] else 'partial_fit'}_{st.replace(' ', '_')[:18]}")
        meth = "fit" if op["fit"] else "partial_fit"
        rp = dict(family="window", case=dict(case, ops=case["ops"][: k + 1]), at=k)
        if st != "ok":
            if _key(before) != _key(after):
                ctx.violate(
                    f"C13/SlidingWindowClassifier.{meth}/failed-call-changes-state/{st[4:]}",
                    f"SlidingWindowClassifier.{meth} raised ({st[4:]}) but changed the window: {before['buf']} -> {after['buf']} "
                    f"(estimator still fitted on {before['clf'] if before['clf'] != 'fitted' else 'the old window'}); the rejected samples stay in the window",
                    rp)
                stop = True
                break
            continue
        g.accept(op)
        want_s, want_w = g.window()
        if after["buf"] != want_s or fkey(after["sw"]) != fkey(want_w):
            ctx.violate(f"C13/SlidingWindowClassifier.{meth}/window-differs-from-last-w",
                        f"after call {k} the window is {after['buf']} / weights {after['sw']} but the last window_size samples given since "
                        f"the last fit are {want_s} / {want_w}", rp)
            stop = True
            break
        if after["clf"] != "fitted":
            if after["clf"] is None or after["clf"][0] != want_s or fkey(after["clf"][1]) != fkey(want_w):
                ctx.violate(f"C13/SlidingWindowClassifier.{meth}/estimator-not-fitted-on-last-w",
                            f"after call {k} the estimator was fitted on {after['clf']} but the last window_size samples are {want_s} / {want_w}", rp)
                stop = True
                break
        else:
            ref = clone(est)
            with warnings.catch_warnings():
                warnings.simplefilter("ignore")
                ii = [s[0] for s in want_s]
                ref.fit(X[ii] if ii else X[:0], np.array([np.nan if s[1] < 0 else float(s[1]) for s in want_s]),
                        None if want_w is None else np.array(want_w))
                with np.errstate(all="ignore"):
                    a, b = obj.predict_proba(X), ref.predict_proba(X)
            if not np.array_equal(a, b, equal_nan=True):
                ctx.violate(f"C13/SlidingWindowClassifier.{meth}/differs-from-fit-on-last-w",
                            f"after call {k} predict_proba differs from a fresh clone fitted on the last window_size samples {want_s} / {want_w}", rp)
                stop = True
                break
            ctx.count("window_oracle_predict_proba_exact")
    pending.append((case_line(dict(case, ops=sent)), exps, case))
    ok = [o for o, s in zip(sent, statuses) if s == "ok"]
    nontrivial = len(ok) >= 2 and (any(o["fit"] for o in ok[1:]) or (case["window"] is not None and sum(len(o["ids"]) for o in ok) > case["window"]))
    ctx.case(("window", case["kind"], case["window"], case["only_labeled"], repr(case["ops"])), nontrivial,
             sample=dict(family="window", kind=case["kind"], window_size=case["window"], only_labeled=case["only_labeled"],
                         calls=[("fit" if o["fit"] else "partial_fit", o["ids"], o["y"], o["sw"]) for o in case["ops"][:5]], statuses=statuses[:5]))
    ctx.count(f"window_size_{case['window']}")


def _key(s):
    return (tuple(s["buf"]), fkey(s["sw"]), None if s["clf"] is None else (s["clf"] if s["clf"] == "fitted" else (tuple(s["clf"][0]), fkey(s["clf"][1]))))


def compare(ctx, line, out, exps, case):
    what = "SkaModel.Core.Window vs skactiveml.classifier.SlidingWindowClassifier"
    if out.startswith("bad-op"):
        ctx.disagree(what, dict(case=case, line=line[:300]), out, "(driver could not parse the case)")
        return
    segs = out.split(" || ") if out.strip() else []
    if len(segs) != len(exps):
        ctx.disagree(what, dict(case=case), f"{len(segs)} segments", f"{len(exps)} calls")
        return
    for k, (seg, (st, obs)) in enumerate(zip(segs, exps)):
        m = parse_state(seg)
        where = dict(case=case, at=k)
        if m["status"] != st:
            ctx.disagree(what + " (exception raised)", where, m["status"], st)
            return
        if m["buf"] != obs["buf"] or fkey(m["sw"]) != fkey(obs["sw"]):
            ctx.disagree(what + " (X_train_, y_train_, sample_weight_train_)", where, (m["buf"], m["sw"]), (obs["buf"], obs["sw"]))
            return
        if (m["clf"] is None) != (obs["clf"] is None):
            ctx.disagree(what + " (estimator_ fitted?)", where, m["clf"], obs["clf"])
            return
        if m["clf"] is not None and obs["clf"] != "fitted":
            if m["clf"][0] != obs["clf"][0] or fkey(m["clf"][1]) != fkey(obs["clf"][1]):
                ctx.disagree(what + " (what estimator_ was fitted on)", where, m["clf"], obs["clf"])
                return


# ---------------------------------------------------------------------------------------------

def gen_case(rng, kind=None):
    n = 8
    case = dict(kind=kind or rng.choice(["spy", "spy", "pwc"]), n=n,
                window=rng.choice([None, 1, 2, 3, 3, 5]) if rng.random() > 0.04 else rng.choice([0, -1]),
                only_labeled=rng.random() < 0.4)
    given = rng.random() < 0.5
    ops = []
    for k in range(rng.randint(2, 8)):
        m = rng.choice([0, 1, 1, 2, 2, 3, 4])
        ids = [rng.randrange(n) for _ in range(m)]
        y = [rng.choice([0.0, 1.0, 2.0, NAN]) for _ in ids]
        use = given if rng.random() > 0.07 else not given
        sw = [rng.choice([0.5, 1.0, 2.0, 3.0]) for _ in ids] if use else None
        op = dict(fit=rng.random() < (0.7 if k == 0 else 0.15), ids=ids, y=y, sw=sw)
        r = rng.random()
        if r < 0.03 and sw is not None:
            op["sw"] = sw + [1.0]
        elif r < 0.06 and m >= 1:
            op["x_short"] = True
        ops.append(op)
    case["ops"] = ops
    return case


def exhaustive(ctx, pending, flush):
    """all call sequences up to length 4 over an alphabet of 7 calls x window sizes x only_labeled (spy estimator)"""
    A = []
    for w in (False, True):
        A.append(dict(fit=True, ids=[0, 1], y=[0.0, NAN], sw=[2.0, 0.5] if w else None))
        A.append(dict(fit=False, ids=[2], y=[1.0], sw=[1.0] if w else None))
        A.append(dict(fit=False, ids=[3, 4, 5], y=[NAN, 2.0, 0.0], sw=[0.5, 1.0, 3.0] if w else None))
    A.append(dict(fit=False, ids=[], y=[], sw=None))
    total = 0
    for window in (None, 1, 2, 3):
        for ol in (False, True):
            for L in range(1, 5):
                for seq in itertools.product(range(len(A)), repeat=L):
                    run_case(ctx, dict(kind="spy", n=8, window=window, only_labeled=ol, ops=[A[i] for i in seq]), pending)
                    total += 1
                    if len(pending) >= 4000:
                        flush()
    ctx.notes["window_exhaustive_subrun"] = f"all call sequences up to length 4 over {len(A)} calls x window_size None/1/2/3 x only_labeled: {total} sequences"


def correspond_window(ctx):
    rng = ctx.rng
    pending = []

    def flush():
        if not pending:
            return
        outs = vlib.run_driver([p[0] for p in pending])
        for (line, exps, case), out in zip(pending, outs):
            compare(ctx, line, out, exps, case)
        del pending[:]

    fixed = [
        # weights after a call without weights: AttributeError after the window was extended
        dict(kind="spy", n=8, window=3, only_labeled=False, ops=[
            dict(fit=False, ids=[0, 1], y=[0.0, 1.0], sw=None), dict(fit=False, ids=[2], y=[1.0], sw=[7.0]),
            dict(fit=False, ids=[3], y=[0.0], sw=None)]),
        dict(kind="pwc", n=8, window=3, only_labeled=True, ops=[
            dict(fit=True, ids=[0, 1, 2, 3], y=[0.0, NAN, 2.0, 1.0], sw=[1.0, 2.0, 3.0, 0.5]),
            dict(fit=False, ids=[4, 5], y=[NAN, 1.0], sw=[2.0, 2.0]), dict(fit=False, ids=[6], y=[0.0], sw=None)]),
    ]
    for c in fixed:
        run_case(ctx, c, pending)
    for _ in range(250 if not ctx.thorough else 4000):
        run_case(ctx, gen_case(rng), pending)
        if len(pending) >= 4000:
            flush()
    flush()
    if ctx.thorough:
        exhaustive(ctx, pending, flush)
        flush()


def search_window(ctx):
    rng = ctx.rng
    pending = []
    for _ in range(5000):
        run_case(ctx, gen_case(rng), pending)
        del pending[:]
        if ctx.violations:
            return


def _decode(x):
    if isinstance(x, list):
        return [_decode(v) for v in x]
    if isinstance(x, dict):
        return {k: _decode(v) for k, v in x.items()}
    return NAN if x == "nan" else x


def replay_window(payload):
    ctx = vlib.Ctx("C13", "quick", 0)
    case = _decode(payload.get("replay", {})).get("case")
    if not case:
        print("nothing to replay")
        return 1
    print(f"SlidingWindowClassifier(estimator={case['kind']}, window_size={case['window']}, only_labeled={case['only_labeled']}) on rows 0..{case['n'] - 1}")
    for o in case["ops"]:
        print(f"  {'fit' if o['fit'] else 'partial_fit'}(X[{o['ids']}], y={o['y']}, sample_weight={o['sw']})")
    run_case(ctx, case, [])
    for v in ctx.violations:
        print("REPRODUCED:", v["key"], "-", v["what"][:400])
    return 1 if ctx.violations else 0
