"""C17 — annotation aggregation equals plain counting: correspondence of `compute_vote_vectors`,
`majority_vote`, `ext_confusion_matrix` with the Lean model `SkaModel/Core/Aggregation.lean`
(on top of the encoder model of `Core/Label.lean`), plus the counting specification evaluated on
every implementation output."""
import itertools

import numpy as np

from .. import vlib
from ..vlib import f2bits
from .c16 import Coder, arr_like_tokens, equals_sentinel, err_enum, is_nan, jv, unjv, kind_of, make_array, same_label, NAN
from .c18 import SpyRS

LEAN_TARGETS = ["SkaModel.Props.C17"]
LEVEL = "proof"
RULE = (
    "cases: calls of compute_vote_vectors / majority_vote / ext_confusion_matrix on random label matrices "
    "(0-6 samples x 1-4 annotators or 1-d, 1-4 classes, encodings float/NaN, int/-1, str/'nan', str/'', object/None, "
    "any missing pattern incl. all-missing rows/columns), weights None / integers / dyadic rationals / with NaN / of the wrong shape, "
    "classes given or inferred (incl. unseen labels), the four normalisation modes + an unknown one, y_true with a missing label; "
    "the noise rand_argmax drew is captured by a RandomState subclass. non-trivial = at least 2 classes, 2 samples and one missing entry; "
    "distinct = distinct (function, matrix, weights, classes, encoding, mode, noise) tuples"
)
ASSUMPTIONS = [
    "labels reach the Lean model as kind tags and order-preserving integer codes computed by the harness per case (see c16.py)",
    "weights are integers or dyadic rationals so that every sum is exact in IEEE doubles and independent of the summation order",
    "the tie-breaking noise is captured through a RandomState subclass overriding random/random_sample",
    "sklearn.metrics.confusion_matrix is modelled as pair counting (not re-verified beyond the correspondence)",
]
TRUSTED = ["np.bincount adds weights in array order; sklearn.metrics.confusion_matrix counts (true, pred) pairs; np.nan_to_num replaces exactly the 0/0 entries here"]

ENCODINGS = {
    "float-nan": dict(dt="float", ml=NAN, labels=[0.0, 1.0, 2.0, 3.0]),
    "int--1": dict(dt="int", ml=-1, labels=[0, 1, 2, 5]),
    "objint-none": dict(dt="objnum", ml=None, labels=[10, 20, 30, 40]),
    "str-nan": dict(dt="str", ml="nan", labels=["a", "b", "c", "d"]),
    "str-empty": dict(dt="str", ml="", labels=["x", "y", "zz", "w"]),
    "object-none": dict(dt="object", ml=None, labels=["a", "b", "c", "d"]),
}
INT_W = [0.0, 1.0, 1.0, 2.0, 3.0]
DYADIC_W = [0.0, 0.25, 0.5, 0.5, 1.0, 1.5, 2.0, 0.125]


def weights_tokens(w):
    if w is None:
        return "0"
    w = np.asarray(w, dtype=float)
    if w.ndim == 1:
        return f"1 {w.shape[0]} - " + " ".join(f2bits(x) for x in w)
    return f"1 {w.shape[0]} {w.shape[1]} " + " ".join(f2bits(x) for x in w.ravel())


def classes_tokens(coder, classes):
    if classes is None:
        return "0"
    return f"1 {kind_of(np.array(classes)) if len(classes) else 'n'} {len(classes)} {coder.toks(list(classes))}".strip()


def gen_labels(rng, enc, n, m, K, p_missing, allow_unseen=False):
    e = ENCODINGS[enc]
    labs = e["labels"][:K]
    pool = list(labs)
    if allow_unseen:
        pool = pool + [e["labels"][K]] if K < len(e["labels"]) else pool
    vals = [e["ml"] if rng.random() < p_missing else rng.choice(pool) for _ in range(n * (m or 1))]
    return vals


NEAR_W = [0.8, 0.800001, 0.8000005, 0.75, 3e-9, 2e-9, 1e-9]


def gen_weights(rng, shape, mode):
    n = int(np.prod(shape))
    if mode == "none":
        return None
    # "near": votes that differ only around the sixth digit, and votes of magnitude 1e-9 (inside numpy's default isclose
    # tolerances of each other / of zero): the class with the strictly larger vote must still win (seed R9C17)
    src = INT_W if mode == "int" else (NEAR_W if mode == "near" else DYADIC_W)
    w = [rng.choice(src) for _ in range(n)]
    if mode == "nan":
        w = [NAN if rng.random() < 0.3 else x for x in w]
    if mode == "inf":
        # infinite confidences (log-odds of a perfect annotator): counted where the annotator voted, ignored at a missing
        # label and for every other class -- `inf * False` is NaN, a masked sum is not a count (seed R11H03)
        w = [float("inf") if rng.random() < 0.3 else (NAN if rng.random() < 0.1 else x) for x in w]
    return np.array(w, dtype=float).reshape(shape)


def vote_spec(vals, shape, ml, classes_sorted, w):
    """The counting specification on Python values: V[i][c] = sum_j w[i][j] * [y[i][j] == classes[c]]."""
    n = shape[0]
    m = shape[1] if len(shape) == 2 else 1
    K = len(classes_sorted)
    V = np.zeros((n, K))
    wf = None if w is None else np.asarray(w, dtype=float).reshape(n, m)
    for i in range(n):
        for j in range(m):
            v = vals[i * m + j]
            if equals_sentinel(v, ml):
                continue
            ww = 1.0 if wf is None else wf[i, j]
            if ww != ww:
                continue
            for c, cl in enumerate(classes_sorted):
                if same_label(v, cl):
                    V[i, c] += ww
    return V


def sorted_classes(classes, vals, ml):
    src = list(classes) if classes is not None else [v for v in vals if not equals_sentinel(v, ml)]
    out = []
    for v in src:
        if not any(same_label(v, o) for o in out):
            out.append(v)
    return sorted(out)


# ---------------------------------------------------------------------------------------------

def layouts_of(vals, shape):
    """Memory layouts of (y, w), derived from the case itself so that a replay uses the same ones: the caller's label
    matrix is often a transposed stack of per-annotator vectors (Fortran order) while the weights are C-ordered."""
    import zlib

    c = zlib.crc32(repr((list(map(str, vals)), list(shape))).encode()) % 4
    return ("C", "C") if c == 0 else (("F", "C") if c == 1 else (("C", "F") if c == 2 else ("F", "F")))


def lay(a, code):
    a = np.asarray(a)
    if a.ndim != 2 or code == "C":
        return a
    return np.asfortranarray(a)


def case_votes(ctx, lines, expect, enc, vals, shape, classes, w):
    from skactiveml.utils import compute_vote_vectors

    e = ENCODINGS[enc]
    ml = e["ml"]
    y = make_array(e["dt"], vals, shape, False)
    coder = Coder(list(vals), ml, classes)
    case = dict(fn="compute_vote_vectors", enc=enc, vals=jv(list(vals)), shape=list(shape), classes=jv(classes) if classes is not None else None, w=None if w is None else jv(np.asarray(w).ravel()), w_shape=None if w is None else list(np.asarray(w).shape))
    try:
        with np.errstate(all="ignore"):
            ly, lw = layouts_of(vals, shape)
            ctx.count(f"layout_y{ly}_w{lw}")
            V = compute_vote_vectors(lay(y.copy(), ly), w=None if w is None else lay(np.array(w, dtype=float), lw), classes=None if classes is None else list(classes), missing_label=ml)
        impl = f"ok {V.shape[0]} {V.shape[1]} " + " ".join(f2bits(x) for x in V.ravel())
    except Exception as ex:
        V = None
        impl = err_enum(ex)
    line = f"votes {coder.ml(ml)} {classes_tokens(coder, classes)} {arr_like_tokens(coder, e['dt'], vals, shape, y)} {weights_tokens(w)}"
    lines.append(" ".join(line.split()))
    expect.append((" ".join(impl.split()), case))
    n_missing = sum(1 for v in vals if equals_sentinel(v, ml))
    ctx.case(("votes", enc, repr(list(vals)), tuple(shape), repr(classes), None if w is None else np.asarray(w).tobytes()),
             V is not None and V.shape[1] >= 2 and V.shape[0] >= 2 and n_missing >= 1, sample=dict(case, result=impl[:100]))
    ctx.count("votes_" + ("ok" if V is not None else impl.replace(" ", "_")[:24]))
    ctx.count("votes_enc_" + enc)
    if V is None:
        return
    # counting specification on the implementation output
    cs = sorted_classes(classes, vals, ml)
    spec = vote_spec(vals, shape, ml, cs, w)
    if V.shape != spec.shape or not np.array_equal(V, spec):
        ctx.violate("C17/compute_vote_vectors/not-the-weighted-count", "compute_vote_vectors differs from the weighted vote count", case)


def case_majority(ctx, lines, expect, enc, vals, shape, classes, w, seed):
    from skactiveml.utils import majority_vote

    e = ENCODINGS[enc]
    ml = e["ml"]
    y = make_array(e["dt"], vals, shape, False)
    coder = Coder(list(vals), ml, classes)
    rs = SpyRS(seed)
    case = dict(fn="majority_vote", enc=enc, vals=jv(list(vals)), shape=list(shape), classes=jv(classes) if classes is not None else None, w=None if w is None else jv(np.asarray(w).ravel()), w_shape=None if w is None else list(np.asarray(w).shape), seed=seed)
    res = None
    try:
        with np.errstate(all="ignore"):
            ly, lw = layouts_of(vals, shape)
            res = majority_vote(lay(y.copy(), ly), w=None if w is None else lay(np.array(w, dtype=float), lw), classes=None if classes is None else list(classes), missing_label=ml, random_state=rs)
        impl = ("ok " + coder.toks(np.asarray(res).ravel().tolist())).strip()
    except Exception as ex:
        impl = err_enum(ex)
    noises = [x[1] for x in rs.log if x[0] == "random"]
    if noises:
        nz = np.asarray(noises[0], dtype=float)
        nz_tok = f"{nz.shape[0]} {nz.shape[1]} " + " ".join(f2bits(x) for x in nz.ravel())
    else:
        nz = None
        nz_tok = "0 0"
    line = f"majority {coder.ml(ml)} {classes_tokens(coder, classes)} {arr_like_tokens(coder, e['dt'], vals, shape, y)} {weights_tokens(w)} {nz_tok}"
    lines.append(" ".join(line.split()))
    expect.append((" ".join(impl.split()), case))
    n = shape[0]
    m = shape[1] if len(shape) == 2 else 1
    n_missing = sum(1 for v in vals if equals_sentinel(v, ml))
    ctx.case(("majority", enc, repr(list(vals)), tuple(shape), repr(classes), None if w is None else np.asarray(w).tobytes(), seed),
             res is not None and n >= 2 and n_missing >= 1 and len(sorted_classes(classes, vals, ml)) >= 2, sample=dict(case, result=impl[:100]))
    ctx.count("majority_" + ("ok" if res is not None else impl.replace(" ", "_")[:24]))
    if res is None:
        return
    # property oracle: a class of maximal vote; sentinel iff the row has no label
    cs = sorted_classes(classes, vals, ml)
    spec = vote_spec(vals, shape, ml, cs, w)
    resl = np.asarray(res).ravel().tolist()
    bad = None
    if len(resl) != n:
        bad = ("length", "majority_vote does not return one label per sample")
    else:
        k = 0
        for i in range(n):
            row = vals[i * m:(i + 1) * m]
            has_label = any(not equals_sentinel(v, ml) for v in row)
            if not has_label:
                if not equals_sentinel(resl[i], ml):
                    bad = ("label-for-unlabeled-row", "a sample without any label did not get the missing-label sentinel")
                    break
                continue
            if equals_sentinel(resl[i], ml):
                bad = ("sentinel-for-labeled-row", "a sample with at least one label got the missing-label sentinel")
                break
            pos = [c for c, cl in enumerate(cs) if same_label(resl[i], cl)]
            if not pos:
                bad = ("not-a-class", "majority_vote returned a value that is not a class")
                break
            if nz is not None and np.all(nz[k] > 0) and spec[i, pos[0]] != spec[i].max():
                bad = ("not-maximal", "majority_vote returned a class whose vote is not maximal")
                break
            if spec[i].max() == np.sort(spec[i])[-2] if len(cs) > 1 else False:
                ctx.count("majority_tied_rows")
            k += 1
    if bad:
        ctx.violate(f"C17/majority_vote/{bad[0]}", bad[1], case)


def conf_spec(tvals, pvals, n, A, ml, cs):
    K = len(cs)
    C = np.zeros((A, K, K))
    for a in range(A):
        for s in range(n):
            p = pvals[s * A + a]
            if equals_sentinel(p, ml):
                continue
            i = [c for c, cl in enumerate(cs) if same_label(tvals[s], cl)][0]
            j = [c for c, cl in enumerate(cs) if same_label(p, cl)][0]
            C[a, i, j] += 1
    return C


def case_conf(ctx, lines, expect, enc, tvals, pvals, n, A, pred_1d, classes, normalize):
    from skactiveml.utils import ext_confusion_matrix

    e = ENCODINGS[enc]
    ml = e["ml"]
    y_true = make_array(e["dt"], tvals, (n,), False)
    y_pred = make_array(e["dt"], pvals, (n,) if pred_1d else (n, A), False)
    coder = Coder(list(tvals), list(pvals), ml, classes)
    case = dict(fn="ext_confusion_matrix", enc=enc, y_true=jv(list(tvals)), y_pred=jv(list(pvals)), n=n, A=A, pred_1d=pred_1d, classes=jv(classes) if classes is not None else None, normalize=normalize)
    C = None
    try:
        with np.errstate(all="ignore"):
            C = ext_confusion_matrix(y_true.copy(), y_pred.copy(), classes=None if classes is None else list(classes), missing_label=ml, normalize=normalize)
        impl = f"ok {C.shape[0]} {C.shape[1]} " + " ".join(f2bits(x) for x in C.ravel())
    except Exception as ex:
        impl = err_enum(ex)
    stack = np.column_stack((y_true, y_pred.reshape(n, -1)))
    svals = []
    for s in range(n):
        svals.append(tvals[s])
        svals += list(pvals[s * A:(s + 1) * A])
    norm_tok = {None: "none", "true": "true", "pred": "pred", "all": "all"}.get(normalize, "other")
    line = f"extconf {norm_tok} {coder.ml(ml)} {classes_tokens(coder, classes)} {arr_like_tokens(coder, e['dt'], svals, (n, A + 1), stack)}"
    lines.append(" ".join(line.split()))
    expect.append((" ".join(impl.split()), case))
    n_missing = sum(1 for v in pvals if equals_sentinel(v, ml))
    ctx.case(("conf", enc, repr(list(tvals)), repr(list(pvals)), n, A, pred_1d, repr(classes), repr(normalize)),
             C is not None and C.shape[1] >= 2 and n >= 2 and n_missing >= 1, sample=dict(case, result=impl[:100]))
    ctx.count(f"conf_{norm_tok}_" + ("ok" if C is not None else impl.replace(" ", "_")[:24]))
    if C is None:
        return
    # property oracle ----------------------------------------------------------------------------
    cs = sorted_classes(classes, list(tvals) + list(pvals), ml)
    K = len(cs)
    raw = conf_spec(tvals, pvals, n, A, ml, cs)
    bad = None
    if C.shape != (A, K, K):
        bad = ("shape", f"result has shape {C.shape}, expected {(A, K, K)}")
    elif normalize is None:
        if not np.array_equal(C, raw):
            bad = ("unnormalised-not-counts", "normalize=None does not return the raw confusion counts of the non-missing predictions")
    else:
        with np.errstate(all="ignore"):
            for a in range(A):
                if normalize == "true":
                    den = raw[a].sum(axis=1, keepdims=True) * np.ones((1, K))
                    fb = 1.0 / K
                elif normalize == "pred":
                    den = raw[a].sum(axis=0, keepdims=True) * np.ones((K, 1))
                    fb = 1.0 / K
                else:
                    den = raw[a].sum() * np.ones((K, K))
                    fb = 1.0 / (K * K)
                want = np.where(den > 0, raw[a] / np.where(den > 0, den, 1), fb)
                if not np.array_equal(C[a], want):
                    bad = (f"normalised-{normalize}-wrong", f"normalize={normalize!r}: entries are not count/denominator (fallback {fb} where the denominator is 0)")
                    break
    if bad:
        ctx.violate(f"C17/ext_confusion_matrix/{bad[0]}", bad[1], case)


# ---------------------------------------------------------------------------------------------

def random_case(ctx, lines, expect, rng):
    enc = rng.choice(list(ENCODINGS))
    e = ENCODINGS[enc]
    K = rng.randint(1, 4)
    kind = rng.random()
    classes = None
    if rng.random() < 0.55:
        classes = rng.sample(e["labels"][:K], K)
    if kind < 0.4:
        n = rng.choice([0, 1, 2, 3, 3, 4, 5, 6])
        m = rng.choice([None, 1, 2, 3, 4])
        shape = (n,) if m is None else (n, m)
        p_missing = rng.choice([0.0, 0.3, 0.3, 0.6, 1.0])
        vals = gen_labels(rng, enc, n, m, K, p_missing, allow_unseen=classes is not None and rng.random() < 0.1)
        mode = rng.choice(["none", "int", "dyadic", "nan", "nan", "inf"])
        wshape = shape
        if mode != "none" and rng.random() < 0.08 and n > 0:
            wshape = (n + 1,) if m is None else rng.choice([(n, m + 1), (n + 1, m)])
        w = gen_weights(rng, wshape, mode) if n > 0 else None
        case_votes(ctx, lines, expect, enc, vals, shape, classes, w)
    elif kind < 0.7:
        n = rng.choice([1, 2, 3, 3, 4, 5, 6])
        m = rng.choice([None, 1, 2, 3, 4])
        shape = (n,) if m is None else (n, m)
        p_missing = rng.choice([0.0, 0.3, 0.5, 0.7, 1.0])
        vals = gen_labels(rng, enc, n, m, K, p_missing)
        mode = rng.choice(["none", "int", "dyadic", "nan", "int", "near", "inf"])
        w = gen_weights(rng, shape, mode)
        case_majority(ctx, lines, expect, enc, vals, shape, classes, w, rng.randrange(2**31 - 1))
    else:
        n = rng.choice([1, 2, 3, 4, 5, 6])
        A = rng.choice([1, 1, 2, 3])
        pred_1d = A == 1 and rng.random() < 0.5
        tvals = [rng.choice(e["labels"][:K]) for _ in range(n)]
        if rng.random() < 0.06:
            tvals[rng.randrange(n)] = e["ml"]
        p_missing = rng.choice([0.0, 0.3, 0.5, 1.0])
        pvals = gen_labels(rng, enc, n, A, K, p_missing)
        normalize = rng.choice([None, None, "true", "pred", "all", "true", "pred", "all", "bogus"])
        case_conf(ctx, lines, expect, enc, tvals, pvals, n, A, pred_1d, classes, normalize)


def correspond(ctx):
    rng = ctx.rng
    lines, expect = [], []
    n_rand = 3000 if not ctx.thorough else 30000
    for _ in range(n_rand):
        random_case(ctx, lines, expect, rng)
    if ctx.thorough:
        exhaustive(ctx, lines, expect)
    outs = vlib.run_driver(lines)
    for line, out, (impl, case) in zip(lines, outs, expect):
        if out.split() != impl.split():
            ctx.disagree("SkaModel.Core.Aggregation vs skactiveml.utils._aggregation/_multi_annot", dict(case, line=line), out, impl)


def exhaustive(ctx, lines, expect):
    """Thorough tier: every (n <= 3) x (m <= 2) label matrix over {class0, class1, missing} for two
    encodings, unweighted and with one fixed dyadic weight pattern; every confusion input with n <= 3, A <= 2."""
    cnt = 0
    for enc in ("float-nan", "str-nan", "object-none"):
        e = ENCODINGS[enc]
        alpha = [e["labels"][0], e["labels"][1], e["ml"]]
        for n in (1, 2, 3):
            for m in (1, 2):
                for vals in itertools.product(alpha, repeat=n * m):
                    for w in (None, np.array(([0.5, 1.0, 0.25, 2.0, 1.0, 0.5])[: n * m]).reshape(n, m)):
                        case_votes(ctx, lines, expect, enc, list(vals), (n, m), list(alpha[:2]), w)
                        case_majority(ctx, lines, expect, enc, list(vals), (n, m), list(alpha[:2]), w, 11 + cnt % 7)
                    cnt += 1
        for n in (1, 2, 3):
            for A in (1, 2):
                for tv in itertools.product(alpha[:2], repeat=n):
                    for pv in itertools.product(alpha, repeat=n * A):
                        for norm in (None, "true", "pred", "all"):
                            case_conf(ctx, lines, expect, enc, list(tv), list(pv), n, A, False, list(alpha[:2]), norm)
                        cnt += 1
    ctx.notes["exhaustive_subrun"] = (
        f"all label matrices with n<=3 samples, m<=2 annotators over {{class0, class1, missing}} for encodings float/NaN, str/'nan', object/None "
        f"(votes + majority, unweighted and dyadic weights) and all confusion inputs with n<=3, A<=2 x 4 modes ({cnt} inputs)"
    )
    ctx.exhaustive = False


def search(ctx):
    rng = ctx.rng
    lines, expect = [], []
    for _ in range(15000):
        random_case(ctx, lines, expect, rng)
        if ctx.violations:
            return


def replay(payload):
    ctx = vlib.Ctx("C17", "quick", 0)
    r = payload.get("replay", {})
    lines, expect = [], []
    cls = None if r.get("classes") is None else unjv(r["classes"])
    w = None
    if r.get("w") is not None:
        w = np.array(unjv(r["w"]), dtype=float).reshape(r["w_shape"])
    enc = r.get("enc")
    if r.get("fn") == "compute_vote_vectors":
        case_votes(ctx, lines, expect, enc, unjv(r["vals"]), tuple(r["shape"]), cls, w)
    elif r.get("fn") == "majority_vote":
        case_majority(ctx, lines, expect, enc, unjv(r["vals"]), tuple(r["shape"]), cls, w, r["seed"])
    elif r.get("fn") == "ext_confusion_matrix":
        case_conf(ctx, lines, expect, enc, unjv(r["y_true"]), unjv(r["y_pred"]), r["n"], r["A"], r["pred_1d"], cls, r["normalize"])
    for v in ctx.violations:
        print("REPRODUCED:", v["key"], "-", v["what"])
    return 1 if ctx.violations else 0
