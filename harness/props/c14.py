"""C14 — the pool active-learning loop labels every sample exactly once.
Theorem: Props/C14.lean (`alLoop_exhausts` for every query function satisfying C01, `skeletonA_loop`
discharging that hypothesis for Skeleton A, `alTraceAccepts_sound` for the acceptor).  Tie: the README
loop is run on the real strategies (one strategy object across all cycles, so state kept between cycles is
exercised) and the recorded trace is fed to the Lean acceptor; the same conclusions are evaluated in Python."""
import warnings

import numpy as np

from .. import vlib
from ..catalog import make_data, pool_specs
from ..vlib import il
from . import _pool

LEAN_TARGETS = ["SkaModel.Props.C14"]
LEVEL = "proof"
RULE = (
    "cases: complete query->reveal loops on every strategy configuration of harness/catalog.py, from random initial labelings "
    "(zero labels .. one unlabeled sample), batch sizes 1..u+1, constant / alternating / true-label oracles, data flavours as in C01; "
    "non-trivial = at least two cycles; distinct = distinct (strategy, pool size, #labeled, batch size, oracle, seed)"
)
ASSUMPTIONS = [
    "per-strategy hypothesis (query returns a C01-valid batch at every labeling) is proved for Skeleton A (Props/C01) and validated on traces for the strategies with their own loops",
    "SubSamplingWrapper / ParallelUtilityEstimationWrapper are covered by C20",
]
TRUSTED = ["the oracle only decides which label value is revealed; the labeling mask evolves identically for every oracle (model)"]


def run_loop(spec, data, b, oracle, seed, max_cycles=None):
    """README loop on the real code. Returns (trace, error)."""
    X, y = data["X"], data["y"].copy()
    qs = spec.make(seed)
    u0 = int(np.sum(np.isnan(y)))
    trace = []
    cap = max_cycles or (u0 + 3)
    cyc = 0
    classes = spec.classes or (0, 1, 2)
    while np.any(np.isnan(y)) and cyc < cap:
        kw = spec.kwargs(data, seed)
        try:
            with _pool.alarm(60), warnings.catch_warnings(), np.errstate(all="ignore"):
                warnings.simplefilter("ignore")
                q = qs.query(X, y, batch_size=b, **kw)
        except _pool.Timeout:
            return trace, "non-termination"
        except Exception as e:
            return trace, f"{type(e).__name__}: {str(e)[:100]}"
        ql, prob = _pool.as_index_list(q)
        trace.append(ql)
        if prob:
            return trace, "index-shape: " + prob
        bad = [i for i in ql if not (0 <= i < len(y))]
        if bad:
            return trace, f"index out of range: {bad}"
        for j, i in enumerate(ql):
            if oracle == "true":
                y[i] = data["y_true"][i]
            elif oracle == "constant":
                y[i] = classes[0] if spec.kind == "clf" else 0.5
            else:
                y[i] = (classes[(cyc + j) % len(classes)] if spec.kind == "clf" else float((cyc + j) % 3))
        cyc += 1
    return trace, None


def py_exhausts(y0, b, trace):
    """The C14 conclusions evaluated directly on a trace. Returns problem or None."""
    unl = np.isnan(y0)
    u = int(unl.sum())
    y = unl.copy()
    seen = set()
    for c, q in enumerate(trace):
        if not y.any():
            return "query issued on an exhausted pool"
        k = min(b, int(y.sum()))
        if len(q) != k:
            return "short-batch"
        for i in q:
            if i in seen:
                return "sample-queried-twice"
            if not y[i]:
                return "labeled-sample-queried"
            seen.add(i)
        for i in q:
            y[i] = False
    if y.any():
        return "pool-not-exhausted"
    if len(trace) != -(-u // b):
        return "wrong-number-of-queries"
    return None


# strategies that keep state between the cycles of a run (caches keyed by frequencies / distances): they get more
# and longer runs, because a stale cache only shows after several cycles on one object
STATEFUL = {"EpistemicUncertaintySampling[precompute]": 14, "EpistemicUncertaintySampling[pwc]": 2, "ProbCover": 4}


def explore(ctx, per_spec, sizes):
    rng = ctx.rng
    lines, checks = [], []
    dense_done, dense_budget = 0, 10**9
    for spec in pool_specs():
        mult = STATEFUL.get(spec.name, 1)
        for _ in range(per_spec * mult):
            nrs = np.random.RandomState(rng.randrange(2**31 - 1))
            n = rng.randint(*sizes) if mult == 1 else rng.randint(sizes[1] + 2, sizes[1] + 16)
            flavour = rng.choice(_pool.FLAVOURS)
            r = rng.random()
            n_lab = 0 if r < 0.15 else (n - 1 if r < 0.25 else rng.randint(0, n - 1))
            data = make_data(nrs, n, spec.kind, flavour, n_labeled=n_lab, classes=spec.classes or (0, 1, 2))
            u = int(np.sum(np.isnan(data["y"])))
            if u == 0:
                continue
            b = rng.choice([1, 2, 3, u, u + 1, rng.randint(1, u + 1)])
            oracle = rng.choice(["true", "constant", "alternating"])
            seed = rng.randrange(10**6)
            case = dict(spec=spec.name, n=n, flavour=flavour, n_labeled=n_lab, b=int(b), oracle=oracle, seed=seed,
                        X=data["X"], y=data["y"], y_true=data["y_true"])
            evaluate(ctx, spec, data, case, lines, checks)
        if dense_done < dense_budget:
            # the last cycles of a run on a large dense pool: about two hundred labeled samples on top of each other (seed R12I02)
            dense_done += 1
            nrs = np.random.RandomState(rng.randrange(2**31 - 1))
            n = rng.randint(185, 230)
            u = rng.randint(3, 7)
            flavour = rng.choice(["all_equal", "all_equal", "all_equal", "duplicates", "grid"])
            data = make_data(nrs, n, spec.kind, flavour, n_labeled=n - u, classes=spec.classes or (0, 1, 2))
            case = dict(spec=spec.name, n=n, flavour=flavour, n_labeled=n - u, b=int(rng.choice([1, 2, 3])), oracle="true", seed=rng.randrange(10**6),
                        X=data["X"], y=data["y"], y_true=data["y_true"])
            ctx.count("dense_large_pool_loops")
            evaluate(ctx, spec, data, case, lines, checks)
        if spec.skeleton == "B":
            # the last cycles of a run on a larger pool (distinct points, several labels, few unlabeled samples left, batch of
            # 2-4): quotas per cluster / leaf have to be redistributed there (seeds R6C01, R8C14)
            # the per-leaf clustering of RegressionTreeBasedAL[representativity] is the most fragile consumer of the quotas
            for _ in range(per_spec * (10 if "representativity" in spec.name else 2)):
                nrs = np.random.RandomState(rng.randrange(2**31 - 1))
                n = rng.randint(14, 30)
                u = rng.randint(3, 9)
                data = make_data(nrs, n, spec.kind, "random", n_labeled=n - u, classes=spec.classes or (0, 1, 2))
                b = rng.choice([2, 3, 4])
                case = dict(spec=spec.name, n=n, flavour="random", n_labeled=n - u, b=int(b), oracle="true", seed=rng.randrange(10**6),
                            X=data["X"], y=data["y"], y_true=data["y_true"])
                ctx.count("end_of_run_loops")
                evaluate(ctx, spec, data, case, lines, checks)
    outs = vlib.run_driver(lines)
    for line, out, (case, expect) in zip(lines, outs, checks):
        if out.strip() != expect:
            ctx.disagree("alTraceAccepts (Lean) vs Python evaluation of the C14 conclusions on a real trace", dict(case, line=line), out, expect)


def evaluate(ctx, spec, data, case, lines, checks):
    b = case["b"]
    trace, err = run_loop(spec, data, b, case["oracle"], case["seed"])
    u = int(np.sum(np.isnan(data["y"])))
    ctx.case((spec.name, case["n"], case["n_labeled"], b, case["oracle"], case["seed"]), len(trace) >= 2,
             sample=dict(strategy=spec.name, n=case["n"], unlabeled=u, batch_size=b, oracle=case["oracle"], trace=trace, error=err))
    ctx.count(f"oracle_{case['oracle']}")
    ctx.count("cold_start" if case["n_labeled"] == 0 else ("single_unlabeled" if u == 1 else "partial"))
    ctx.count(f"flavour_{case['flavour']}")
    if err:
        kind = "raises" if not err.startswith(("index", "non-termination")) else err.split(":")[0]
        Xp = np.asarray(data["X"], dtype=float)
        if kind == "raises":
            kind += "/" + _pool.err_sig(err)
        if kind.startswith("raises") and len(np.unique(Xp, axis=0)) < len(Xp):
            kind += "/duplicated-points-in-pool"       # precondition class (part of the key a known finding is matched by)
        ctx.violate(f"C14/{spec.name}/{kind}", f"pool loop with {spec.name}: cycle {len(trace)} failed: {err}", case)
        return
    prob = py_exhausts(data["y"], b, trace)
    if prob:
        ctx.violate(f"C14/{spec.name}/{prob}", f"pool loop with {spec.name}: {prob} (trace {trace})", case)
    mask = [1 if v else 0 for v in np.isnan(data["y"])]
    line = f"altrace {b} {il(mask)} {len(trace)} " + " ".join(il(q) for q in trace)
    lines.append(line)
    checks.append((case, f"accept={0 if prob else 1}"))


def correspond(ctx):
    explore(ctx, per_spec=8 if not ctx.thorough else 30, sizes=(4, 16) if not ctx.thorough else (4, 24))


def search(ctx):
    explore(ctx, per_spec=10, sizes=(4, 12))


def replay(payload):
    r = payload["replay"]
    spec = [s for s in pool_specs() if s.name == r["spec"]][0]

    def arr(x):
        return np.array([[float("nan") if v == "nan" else v for v in row] if isinstance(row, list) else (float("nan") if row == "nan" else row) for row in x], dtype=float)

    data = dict(X=arr(r["X"]), y=arr(r["y"]), y_true=arr(r["y_true"]))
    ctx = vlib.Ctx("C14", "quick", 0)
    evaluate(ctx, spec, data, dict(r, X=data["X"], y=data["y"], y_true=data["y_true"]), [], [])
    for v in ctx.violations:
        print("REPRODUCED:", v["key"], "-", v["what"][:200])
    return 1 if ctx.violations else 0
