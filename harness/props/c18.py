"""C18 — selection primitives: correspondence of `rand_argmax`, `rand_argmin`, `simple_batch`
with the Lean model `SkaModel/Core/Selection.lean`, plus the property's own oracle on every
implementation output."""
import itertools
import math

import os

import numpy as np

from .. import vlib
from ..vlib import f2bits, fl, il

LEAN_TARGETS = ["SkaModel.Props.C18", "SkaModel.Props.C18choice"]
# theorems about, and the executable of, the model translated from the current source of utils/_selection.py on every run
GEN_TARGETS = ["SkaModel.Props.SelectionGen", "skaselgendriver"]
LEVEL = "proof"
RULE = (
    "cases: calls of rand_argmax / rand_argmin (1-d, 2-d with axis None/0/1) and simple_batch (max / proportional, "
    "1-d and 2-d, batch sizes -1..n+2) on arrays over {NaN,-inf,negatives,-0.0,0,ties,+inf}; the noise / choice "
    "actually drawn by numpy is captured by a RandomState subclass and fed to the model. non-trivial = at least two "
    "non-NaN entries; distinct = distinct (function, array, batch size, noise) tuples"
)
ASSUMPTIONS = [
    "noise vectors are captured through a RandomState subclass overriding random/choice (numpy draws are replayed exactly)",
    "MT19937 is trusted as a source of arbitrary noise in [0,1)",
]
TRUSTED = ["np.argmax returns the first maximum; RandomState.choice(replace=False,p) returns distinct indices of positive p or raises"]

VALS = [float("nan"), float("-inf"), -2.0, -1.0, -0.0, 0.0, 0.25, 1.0, 1.0, 2.5, float("inf")]
FINITE = [float("nan"), -2.0, -1.0, -0.0, 0.0, 0.25, 0.5, 1.0, 1.0, 2.5, 3.0]
NONNEG = [float("nan"), 0.0, 0.0, 0.25, 0.5, 1.0, 1.0, 2.5, 3.0]
# near-ties: unequal doubles that differ by a few ulps / 1e-12 .. 1e-6 relative (an "almost equal" comparison
# in the implementation would treat them as tied)
NEAR = [float("nan"), 0.3, 0.1 + 0.2, float(np.nextafter(0.3, 1.0)), 1.0, float(np.nextafter(1.0, 2.0)), 1.0 + 1e-12, 1.0 + 1e-9,
        1.0 - 1e-7, -1.0, float(np.nextafter(-1.0, 0.0)), 1e-300, 2e-300, 0.0, -0.0, 5e-324]


class SpyRS(np.random.RandomState):
    """Records what the code under test draws (outermost calls only: numpy implements `random`
    through `random_sample` and `choice` through further draws)."""

    def __init__(self, seed):
        super().__init__(seed)
        self.log = []
        self._depth = 0

    def _wrap(self, kind, fn, *a, **k):
        self._depth += 1
        try:
            r = fn(*a, **k)
        except Exception as e:
            self._depth -= 1
            if self._depth == 0:
                self.log.append((kind + "-raised", str(e)))
            raise
        self._depth -= 1
        if self._depth == 0:
            self.log.append((kind, np.array(r).copy()))
        return r

    def random(self, size=None):
        return self._wrap("random", super().random, size)

    def random_sample(self, size=None):
        return self._wrap("random", super().random_sample, size)

    def choice(self, a, size=None, replace=True, p=None):
        return self._wrap("choice", super().choice, a, size=size, replace=replace, p=p)


class ChoiceSpyRS(SpyRS):
    """Additionally records, for every outermost `choice(…, p=…)` call, the weight vector and the uniform numbers
    numpy draws inside it (`choice` calls `self.random_sample`, which resolves to the override below)."""

    def __init__(self, seed):
        super().__init__(seed)
        self.choice_calls = []
        self._cur = None

    def random_sample(self, size=None):
        r = super().random_sample(size)
        if self._cur is not None:
            self._cur["inner"].append(np.array(r, dtype=float).ravel().copy())
        return r

    def choice(self, a, size=None, replace=True, p=None):
        outer = self._cur is None and self._depth == 0
        if outer:
            self._cur = dict(a=np.array(a).copy(), size=size, replace=replace, p=None if p is None else np.array(p, dtype=float).copy(), inner=[])
        try:
            r = super().choice(a, size=size, replace=replace, p=p)
        finally:
            cur, self._cur = (self._cur, None) if outer else (None, self._cur)
        if outer:
            cur["out"] = np.array(r).copy()
            self.choice_calls.append(cur)
        return r



def err_enum(e):
    s = str(e)
    if isinstance(e, ValueError):
        if "batch_size" in s:
            return "err batch-size"
        if "infinity" in s or "too large" in s:
            return "err infinite"
        if '"method"' in s:
            return "err method"
        if "probabilities" in s or "non-zero entries" in s or "'p'" in s or "NaN" in s:
            return "err mass"
    if isinstance(e, TypeError) and "batch_size" in s:
        return "err batch-size"
    return f"err other:{type(e).__name__}:{s[:60]}"


def relayout(a, layout):
    """The same values in a different memory layout (what a caller may legitimately pass): a view into a larger
    buffer with a stride, a reversed view, a column of a 2-d buffer, Fortran order / a transposed buffer for 2-d."""
    a = np.asarray(a, dtype=float)
    if layout == "contiguous" or a.size == 0:
        return a.copy()
    if a.ndim == 1:
        if layout == "strided":
            buf = np.full(2 * a.size + 1, 123.0)
            buf[1::2] = a
            return buf[1::2]
        if layout == "reversed":
            return a[::-1].copy()[::-1]
        if layout == "column":
            buf = np.full((a.size, 3), -7.0)
            buf[:, 1] = a
            return buf[:, 1]
        return a.copy()
    if layout == "fortran":
        return np.array(a, order="F", copy=True)   # always a fresh buffer: simple_batch writes NaN into its input
    if layout == "transposed":
        return np.array(a.T, order="C", copy=True).T
    if layout in ("strided", "column"):
        buf = np.full((a.shape[0], 2 * a.shape[1]), 5.0)
        buf[:, ::2] = a
        return buf[:, ::2]
    return a.copy()


LAYOUTS_1D = ["contiguous", "contiguous", "strided", "reversed", "column"]
LAYOUTS_2D = ["contiguous", "contiguous", "fortran", "transposed", "strided"]


def nontrivial(a):
    a = np.asarray(a, dtype=float).ravel()
    return int(np.sum(~np.isnan(a))) >= 2


# ---------------------------------------------------------------------------------------------

INT_POOLS = {"uint8": [0, 0, 1, 3, 7, 255], "uint16": [0, 0, 1, 4, 9, 65535], "int8": [-128, -128, -1, 0, 5, 127], "int64": [-3, 0, 0, 2, 2, 9]}


def case_randarg(ctx, lines, expect, a, which, axis, seed, int_dtype=None):
    """Build one rand_argmax/min case: run the implementation, queue the model line."""
    from skactiveml.utils import rand_argmax, rand_argmin

    fn = rand_argmax if which == "max" else rand_argmin
    a = np.asarray(a, dtype=float)
    rs = SpyRS(seed)
    kw = {} if axis is None else {"axis": axis}
    if axis is None and (seed // 5) % 2 == 1:
        kw = {"axis": None}          # the keyword spelled out: same call as leaving it out
        ctx.count("axis_None_passed_explicitly")
    layout = (LAYOUTS_1D if a.ndim == 1 else LAYOUTS_2D)[seed % 5]
    arg = relayout(a, layout)
    if int_dtype is not None:
        arg = arg.astype(int_dtype)        # integer arrays are legal input: same order, same positions
        ctx.count(f"rand_arg_integer_dtype_{np.dtype(int_dtype).name}")
    try:
        with np.errstate(all="ignore"):
            res = fn(arg, random_state=rs, **kw)
    except Exception as e:
        ctx.count("randarg_raised")
        return
    noise = rs.log[0][1]
    name = "randarg" + which
    want_len = 1 if a.ndim == 1 else (2 if axis is None else a.shape[1 - axis])
    if np.ndim(res) != 1 or len(res) != want_len:
        # not a position of the array at all (a mutated implementation may return anything)
        ctx.violate(f"C18/rand_arg{which}/result-is-not-a-position",
                    f"rand_arg{which}({'axis=' + str(kw['axis']) if kw else 'no axis'}) on an array of shape {a.shape} returned {np.asarray(res).tolist()!r}, "
                    f"expected an index array of length {want_len}", dict(fn=f"rand_arg{which}", a=a, axis=axis, seed=seed, dtype=int_dtype))
        return
    if a.ndim == 1:
        line = f"{name} {fl(a)} {fl(noise)}"
        impl = str(int(res[0]))
    elif axis is None:
        line = f"{name}_flat2 {a.shape[0]} {a.shape[1]} " + " ".join(f2bits(x) for x in a.ravel()) + " " + " ".join(f2bits(x) for x in noise.ravel())
        impl = f"{int(res[0])} {int(res[1])}"
    else:
        aa, nn = (a, noise) if axis == 1 else (a.T, noise.T)
        line = f"{name}_rows {aa.shape[0]} {aa.shape[1]} " + " ".join(f2bits(x) for x in aa.ravel()) + " " + " ".join(f2bits(x) for x in nn.ravel())
        impl = " ".join(str(int(x)) for x in res)
    lines.append(line)
    case = dict(fn=f"rand_arg{which}", a=a, axis=axis, seed=seed, dtype=int_dtype)
    expect.append((impl, case))
    ctx.case((which, a.tolist().__repr__(), axis, seed), nontrivial(a), sample=dict(fn=f"rand_arg{which}", a=a, axis=axis, seed=seed, result=impl))
    ctx.count(f"rand_arg{which}_ndim{a.ndim}_axis{axis}")
    # property oracle on the implementation output (noise > 0 everywhere is what the theorem assumes)
    if np.all(noise > 0):
        with np.errstate(all="ignore"):
            if a.ndim == 1 or axis is None:
                if np.any(~np.isnan(a)):
                    opt = np.nanmax(a) if which == "max" else np.nanmin(a)
                    got = a[tuple(int(x) for x in res)] if a.ndim > 1 else a[int(res[0])]
                    if not (got == opt):
                        ctx.violate(f"C18/rand_arg{which}/not-optimal", f"rand_arg{which} returned a non-optimal position", case)
            else:
                for k, idx in enumerate(res):
                    vec = a[k] if axis == 1 else a[:, k]
                    if np.any(~np.isnan(vec)):
                        opt = np.nanmax(vec) if which == "max" else np.nanmin(vec)
                        if not (vec[int(idx)] == opt):
                            ctx.violate(f"C18/rand_arg{which}/not-optimal-axis", f"rand_arg{which}(axis={axis}) returned a non-optimal position", case)
    else:
        ctx.count("zero_noise_drawn")
    # ties?
    flat = a.ravel()
    if np.any(~np.isnan(flat)):
        with np.errstate(all="ignore"):
            opt = np.nanmax(flat) if which == "max" else np.nanmin(flat)
        if np.sum(flat == opt) > 1:
            ctx.count("tied_optimum")


def case_simple_batch(ctx, lines, expect, u, b, method, seed, int_seed=False):
    from skactiveml.utils import simple_batch

    u = np.asarray(u, dtype=float)
    rs = ChoiceSpyRS(seed)
    layout = (LAYOUTS_1D if u.ndim == 1 else LAYOUTS_2D)[seed % 5]
    case = dict(fn="simple_batch", u=u, batch_size=b, method=method, seed=seed, layout=layout)
    try:
        with np.errstate(all="ignore"):
            idx, ut = simple_batch(relayout(u, layout), random_state=rs, batch_size=b, return_utilities=True, method=method)
        impl_err = None
    except Exception as e:
        impl_err = err_enum(e)
    noises = [x[1] for x in rs.log if x[0] == "random"]
    choices = [x for x in rs.log if x[0] == "choice"]
    choice = choices[0][1] if choices else np.array([], dtype=int)
    flat = u.ravel()
    n = flat.size
    line = (
        f"simplebatch {method} {int(b)} {fl(flat)} {len(noises)} "
        + " ".join(f2bits(x) for nz in noises for x in nz.ravel())
        + (" " if noises else "")
        + il(np.atleast_1d(choice))
    )
    line = " ".join(line.split())
    if impl_err is not None:
        impl = impl_err
    else:
        if u.ndim == 1:
            picks = [int(i) for i in idx]
        else:
            picks = [int(np.ravel_multi_index(tuple(int(x) for x in row), u.shape)) for row in idx]
        rows = [" ".join(f2bits(x) for x in np.asarray(r).ravel()) for r in ut]
        impl = "ok " + " ".join(str(p) for p in picks) + " | " + " ; ".join(rows)
        impl = " ".join(impl.split())
    if u.ndim == 2 and method == "proportional":
        # 2-d proportional is rejected by numpy ('p' must be 1-dimensional): outside the 1-d model
        ctx.count("simple_batch_2d_proportional_skipped")
        return
    lines.append(line)
    expect.append((impl, case))
    ctx.case(("sb", flat.tolist().__repr__(), u.shape, b, method, seed), nontrivial(u), sample=dict(case, result=impl[:120]))
    ctx.count(f"simple_batch_{method}_ndim{u.ndim}_" + ("ok" if impl_err is None else impl_err.replace(" ", "_")[:24]))
    ctx.count(f"layout_{layout}")
    if impl_err is not None:
        return
    # numpy's choice without replacement itself (weights and per-round uniform draws captured inside the call)
    for c in rs.choice_calls:
        if c["p"] is not None and c["replace"] is False and "out" in c and np.ndim(c["a"]) == 0:
            size = int(np.prod(c["size"])) if c["size"] is not None else 1
            lines.append(" ".join(f"choicenr {size} {fl(c['p'])} {len(c['inner'])} ".split() + [fl(r) for r in c["inner"]]))
            expect.append(("picks " + " ".join(str(int(x)) for x in np.asarray(c["out"]).ravel()) + " | enough=1", dict(case, sub="choice-without-replacement")))
            ctx.count(f"choice_without_replacement_rounds_{min(len(c['inner']), 4)}")
            # (the model sums right to left, numpy left to right / pairwise: only inputs on which both give the same
            # double are compared end to end; the choice itself is compared above in every case)
            vals = [x for x in flat if not np.isnan(x)]
            rsum = 0.0
            for x in reversed(vals):
                rsum = x + rsum
            if method == "proportional" and u.ndim == 1 and f2bits(rsum) != f2bits(np.nansum(flat)):
                ctx.count("simple_batch_proportional_end_to_end_skipped_summation_order")
            elif method == "proportional" and u.ndim == 1:
                # the whole proportional branch as a function of the utilities and the uniform draws alone
                lines.append(" ".join(f"simplebatchprop {int(b)} {fl(flat)} {len(c['inner'])} ".split() + [fl(r) for r in c["inner"]]))
                expect.append((impl, dict(case, sub="proportional-end-to-end")))
                ctx.count("simple_batch_proportional_end_to_end")
    # property oracle -----------------------------------------------------------------------
    k = min(b, int(np.sum(~np.isnan(flat))))
    bad = None
    if len(picks) != k:
        bad = f"returned {len(picks)} picks, expected min(batch_size, #non-NaN) = {k}"
    elif len(set(picks)) != len(picks):
        bad = "duplicate picks"
    elif any(np.isnan(flat[p]) for p in picks):
        bad = "picked a NaN entry"
    else:
        utf = np.asarray(ut).reshape(len(picks), -1) if len(picks) else np.zeros((0, n))
        for i, p in enumerate(picks):
            exp_nan = np.isnan(flat).copy()
            exp_nan[picks[:i]] = True
            if not np.array_equal(np.isnan(utf[i]), exp_nan):
                bad = f"row {i} NaN pattern is not (NaN inputs + earlier picks)"
                break
            if not np.array_equal(utf[i][~exp_nan], flat[~exp_nan]):
                bad = f"row {i} values differ from the input utilities"
                break
            if method == "max" and all(np.all(nz > 0) for nz in noises):
                if not (flat[p] == np.nanmax(utf[i])):
                    bad = f"pick {i} does not attain the maximum of row {i}"
                    break
        if bad is None and method == "max" and all(np.all(nz > 0) for nz in noises):
            vals = [flat[p] for p in picks]
            if any(vals[i] < vals[i + 1] for i in range(len(vals) - 1)):
                bad = "picks not in non-increasing utility order"
        if bad is None and method == "proportional":
            s = np.nansum(flat)
            if any(flat[p] / s <= 0 or flat[p] == 0 for p in picks):
                bad = "proportional mode picked an entry of zero weight"
    if bad:
        ctx.violate("C18/simple_batch/" + bad.split(",")[0][:40], f"simple_batch: {bad}", case)


def generate(ctx):
    from ..translate import pyselect

    pyselect.generate(ctx)


def correspond(ctx):
    rng = ctx.rng
    lines, expect = [], []
    n_rand = 1500 if not ctx.thorough else 12000
    for _ in range(n_rand):
        kind = rng.random()
        seed = rng.randrange(2**31 - 1)
        r0 = rng.random()
        pool = VALS if r0 < 0.55 else ([float("nan"), 1.0, 1.0, 1.0, 0.0] if r0 < 0.75 else NEAR)
        if kind < 0.06:
            # integer-valued arrays handed over in an integer dtype (unsigned types and the most negative value of a signed type
            # included: negation wraps around there; seed R9C18)
            dt = rng.choice(sorted(INT_POOLS))
            if rng.random() < 0.6:
                a = [float(rng.choice(INT_POOLS[dt])) for _ in range(rng.randint(2, 7))]
                case_randarg(ctx, lines, expect, a, rng.choice(["max", "min"]), None, seed, int_dtype=dt)
            else:
                r, c = rng.randint(2, 3), rng.randint(2, 4)
                a = [[float(rng.choice(INT_POOLS[dt])) for _ in range(c)] for _ in range(r)]
                case_randarg(ctx, lines, expect, a, rng.choice(["max", "min"]), rng.choice([None, 0, 1]), seed, int_dtype=dt)
        elif kind < 0.35:
            n = rng.randint(1, 9)
            a = [rng.choice(pool) for _ in range(n)]
            case_randarg(ctx, lines, expect, a, rng.choice(["max", "min"]), None, seed)
        elif kind < 0.55:
            r, c = rng.randint(1, 4), rng.randint(1, 4)
            a = [[rng.choice(pool) for _ in range(c)] for _ in range(r)]
            case_randarg(ctx, lines, expect, a, rng.choice(["max", "min"]), rng.choice([None, 0, 1]), seed)
        else:
            method = "max" if rng.random() < 0.6 else "proportional"
            two_d = method == "max" and rng.random() < 0.2
            vals = (FINITE if rng.random() < 0.85 else VALS) if method == "max" else (NONNEG if rng.random() < 0.75 else FINITE)
            if rng.random() < 0.15:
                vals = [float("nan"), 1.0, 1.0, 0.0, 1.0]
            elif rng.random() < 0.2:
                # proportional mode divides by the total mass: tiny values underflow to probability 0.0, which exact
                # arithmetic (the model) cannot exhibit, so they are kept out of that mode
                vals = NEAR if method == "max" else [v for v in NEAR if not (v < 0) and not (0 < v < 1e-200)]
            if two_d:
                r, c = rng.randint(1, 3), rng.randint(1, 3)
                u = [[rng.choice(vals) for _ in range(c)] for _ in range(r)]
                n = r * c
            else:
                n = rng.randint(1, 8)
                u = [rng.choice(vals) for _ in range(n)]
            b = rng.choice([1, 1, 2, 3, n - 1, n, n + 2, 0, -1])
            m = method if rng.random() < 0.97 else "other"
            case_simple_batch(ctx, lines, expect, u, b, m, seed)
    if ctx.thorough:
        # exhaustive small scope: all vectors over a 6-letter alphabet up to length 4 x all batch sizes x 2 seeds
        alpha = [float("nan"), float("-inf"), -1.0, 0.0, 1.0, float("inf")]
        cnt = 0
        for n in range(1, 5):
            for a in itertools.product(alpha, repeat=n):
                for seed in (1, 2):
                    case_randarg(ctx, lines, expect, list(a), "max", None, seed)
                    case_randarg(ctx, lines, expect, list(a), "min", None, seed)
                    for b in range(1, n + 2):
                        case_simple_batch(ctx, lines, expect, list(a), b, "max", seed)
                    cnt += 1
        fin = [float("nan"), 0.0, 1.0, 2.0]
        for n in range(1, 5):
            for a in itertools.product(fin, repeat=n):
                for b in range(1, n + 2):
                    case_simple_batch(ctx, lines, expect, list(a), b, "proportional", 3)
        ctx.notes["exhaustive_subrun"] = f"all vectors over {{nan,-inf,-1,0,1,inf}}^n, n<=4, x batch sizes 1..n+1 x 2 seeds ({cnt} vectors); proportional over {{nan,0,1,2}}^n"
        ctx.exhaustive = False  # the random part is not exhaustive; the sub-run above is
    outs = vlib.run_driver(lines)
    for line, out, (impl, case) in zip(lines, outs, expect):
        if out.split() != impl.split():
            ctx.disagree("SkaModel.Core.Selection vs skactiveml.utils._selection", dict(case, line=line), out, impl)
    # the model translated from the current source (1-d rand_argmax / rand_argmin, simple_batch with method "max")
    if getattr(ctx, "gen_ok", False) and os.path.exists(vlib.SELGENDRIVER):
        sel = [(l, e) for l, e in zip(lines, expect)
               if l.split(" ", 1)[0] in ("randargmax", "randargmin") or l.startswith("simplebatch max ")]
        gouts = vlib.run_driver(["g_" + l for l, _ in sel], exe=vlib.SELGENDRIVER)
        for (line, (impl, case)), out in zip(sel, gouts):
            ctx.count("generated_model_cases")
            if out.split() != impl.split():
                ctx.disagree("SkaModel.Gen.SelectionGen (translated from the current source) vs skactiveml.utils._selection",
                             dict(case, line="g_" + line), out, impl)
    seeds_reach(ctx)


def seeds_reach(ctx):
    """Tie reachability and reproducibility on the implementation (a test, labelled as such): sweep seeds on tied
    arrays (1-d max / min, 2-d with axis=None and axis=1)."""
    from skactiveml.utils import rand_argmax, rand_argmin

    a = np.array([1.0, 3.0, np.nan, 3.0, 3.0, 0.0])
    m = np.array([[2.0, -1.0, np.nan], [-1.0, 5.0, -1.0]])
    sweeps = [
        ("rand_argmax", lambda s: int(rand_argmax(a, random_state=s)[0]), {1, 3, 4}),
        ("rand_argmin", lambda s: int(rand_argmin(-a, random_state=s)[0]), {1, 3, 4}),
        ("rand_argmin-2d", lambda s: tuple(int(x) for x in rand_argmin(m, random_state=s)), {(0, 1), (1, 0), (1, 2)}),
        ("rand_argmin-axis1", lambda s: int(rand_argmin(m, random_state=s, axis=1)[1]), {0, 2}),
    ]
    for name, f, want in sweeps:
        got = {f(s) for s in range(80)}
        ctx.notes[f"tie_reachability_{name}"] = sorted(got)
        if got != want:
            ctx.violate(f"C18/{name}/tie-unreachable", f"80 seeds reached {sorted(got)} instead of exactly the tied optima {sorted(want)}",
                        dict(fn=name, seeds="0..79"))
        if len({f(7) for _ in range(3)}) != 1:
            ctx.violate(f"C18/{name}/not-reproducible", "same seed, different result", dict(fn=name, seed=7))


def search(ctx):
    """Deeper failing-input search (only when a tie broke): many more random arrays through the
    property oracle on the implementation alone."""
    rng = ctx.rng
    lines, expect = [], []
    for _ in range(20000):
        seed = rng.randrange(2**31 - 1)
        n = rng.randint(1, 7)
        if rng.random() < 0.5:
            case_randarg(ctx, lines, expect, [rng.choice(VALS) for _ in range(n)], rng.choice(["max", "min"]), None, seed)
        else:
            method = rng.choice(["max", "proportional"])
            vals = FINITE if method == "max" else NONNEG
            case_simple_batch(ctx, lines, expect, [rng.choice(vals) for _ in range(n)], rng.randint(1, n + 1), method, seed)
        if ctx.violations:
            return


def replay(payload):
    """Re-run a recorded failing input on the real code and print what happens."""
    ctx = vlib.Ctx("C18", "quick", 0)
    r = payload.get("replay", {})
    lines, expect = [], []
    if r.get("fn", "").startswith("rand_arg") and "seed" in r:
        a = np.array([[float(x) for x in row] if isinstance(row, list) else float(row) for row in r["a"]], dtype=float)
        case_randarg(ctx, lines, expect, a, r["fn"][-3:], r.get("axis"), r["seed"], int_dtype=r.get("dtype"))
    elif r.get("fn") == "simple_batch":
        u = np.array(r["u"], dtype=float)
        case_simple_batch(ctx, lines, expect, u, r["batch_size"], r["method"], r["seed"])
    for v in ctx.violations:
        print("REPRODUCED:", v["what"])
    return 1 if ctx.violations else 0
