"""C08 — a sample's utility does not depend on how candidates are addressed.
Theorems: Props/C08.lean (index algebra of _transform_candidates and the scatter step).
Correspondence: `_validate_data` + `_transform_candidates` of the real base class vs the model's
`transformCandidates`; paired real queries (None / indices of the unlabeled / feature rows; candidate
subsets; row permutations) on every strategy, judged by the property's clauses."""
import warnings

import numpy as np

from .. import vlib
from ..catalog import make_data, pool_specs
from ..vlib import il
from . import _pool

LEAN_TARGETS = ["SkaModel.Props.C08", "SkaModel.Props.C08us"]
LEVEL = "proof"
RULE = (
    "cases: (a) _transform_candidates of the real base class vs the model on random labelings and index lists with duplicates / arbitrary order; "
    "(b) per strategy configuration: query with candidates=None vs the indices of the unlabeled samples vs their feature rows (where supported), same seed; "
    "(c) for the sample-wise scorers: random candidate subsets and random row permutations; non-trivial = at least three unlabeled samples; "
    "distinct = distinct (strategy, relation, pool, seed)"
)
ASSUMPTIONS = [
    "utilities are compared bit-exactly when both runs perform identical floating-point operations (None vs indices) and with rtol 1e-9 / atol 1e-8 (scikit-learn computes Euclidean distances through dot products, so identical points may be at distance ~1e-10 instead of 0 depending on the other rows) "
    "when the operand order or array shapes differ (feature rows, subsets, permutations); the tolerance is a declared oracle parameter",
    "which strategies score samples independently is a fixed list (below), validated by the restriction test itself; strategies that normalise over the "
    "candidate set or cluster it (FourDs, Clue, DropQuery, Badge, Falcun, ProbCover, RegressionTreeBasedAL[representativity], TypiClust) are outside the restriction clause; "
    "strategies whose learner depends on the row order for a fixed seed (bootstrap / random forests / MDS / k-means: QueryByCommittee[vote_entropy] with a random forest, "
    "CostEmbeddingAL, ExpectedModelChangeMaximization, TypiClust, FourDs, DropQuery) are outside the permutation clause",
    "RandomSampling's utilities are random draws, not a score of the sample: only the representation clause applies",
]
TRUSTED = []

NOT_RESTRICT = {"RandomSampling", "FourDs", "Clue", "DropQuery", "Badge", "Falcun", "ProbCover", "TypiClust"}
NOT_RESTRICT_NAMES = {"RegressionTreeBasedAL[representativity]"}
NOT_PERMUTE_NAMES = {"QueryByCommittee[vote_entropy]", "CostEmbeddingAL", "ExpectedModelChangeMaximization"}


def run(spec, data, cand, b, seed, qs=None):
    r = _pool.run_query(spec, data, cand, b, seed, qs=qs)
    if r["err"]:
        return None, None, r["err"]
    return np.asarray(r["q"]).ravel(), np.asarray(r["U"], dtype=float), None


def close(a, b):
    # scikit-learn computes Euclidean distances as sqrt(|x|^2 + |y|^2 - 2 x.y): for (nearly) identical points the
    # cancellation error is of the order sqrt(machine epsilon) * scale ~ 1e-7, and which operand order / block is used
    # depends on the number of rows handed over.  The tolerance is that noise level (a wrong candidate set moves
    # utilities by orders of magnitude more).
    return a.shape == b.shape and np.array_equal(np.isnan(a), np.isnan(b)) and np.allclose(a, b, rtol=1e-7, atol=1e-6, equal_nan=True)


def unique_best(row):
    return np.any(~np.isnan(row)) and np.sum(row == np.nanmax(row)) == 1


def summary(case):
    return {k: v for k, v in case.items() if k not in ("X", "y", "y_true")}


def candmap_cases(ctx, n_cases):
    """(a) the real `_validate_data` + `_transform_candidates` vs the Lean `transformCandidates`."""
    from skactiveml.pool import RandomSampling

    rng = ctx.rng
    lines, expect = [], []
    for _ in range(n_cases):
        n = rng.randint(1, 9)
        mask = [rng.random() < 0.6 for _ in range(n)]
        y = np.array([np.nan if m else 1.0 for m in mask])
        X = np.zeros((n, 1))
        kind = rng.choice(["none", "idx", "idx", "rows"])
        qs = RandomSampling(random_state=0)
        if kind == "none":
            cand, tok = None, "none"
        elif kind == "idx":
            k = rng.randint(1, n + 2)
            cand = [rng.randrange(n) for _ in range(k)]
            tok = "idx " + il(cand)
        else:
            k = rng.randint(1, 4)
            cand, tok = np.zeros((k, 1)), f"rows {k}"
        try:
            with warnings.catch_warnings():
                warnings.simplefilter("ignore")
                Xv, yv, cv, _, _ = qs._validate_data(X, y, cand, 1, False)
                _, mapping = qs._transform_candidates(cv, Xv, yv)
            impl = "none" if mapping is None else "some " + " ".join(str(int(i)) for i in mapping)
        except Exception as e:
            impl = f"err {type(e).__name__}"
        lines.append(f"candmap {tok} {il([1 if m else 0 for m in mask])}")
        expect.append((impl, dict(kind=kind, mask=mask, cand=None if cand is None else np.asarray(cand).tolist())))
        ctx.case(("candmap", kind, tuple(mask), tok), n >= 3, sample=dict(relation="candmap", kind=kind, mask=mask, mapping=impl))
        ctx.count(f"candmap_{kind}")
    outs = vlib.run_driver(lines)
    for line, out, (impl, case) in zip(lines, outs, expect):
        if out.split() != impl.split():
            ctx.disagree("transformCandidates (Lean) vs _validate_data + _transform_candidates", dict(case, line=line), out, impl)


def relations(ctx, per_spec):
    rng = ctx.rng
    for spec in pool_specs():
        for k_rep in range(per_spec):
            # the first repetition of every spec is the state-carrying scenario: ONE object, a batch of two, a warm pool
            forced = k_rep == 0
            nrs = np.random.RandomState(rng.randrange(2**31 - 1))
            n = rng.randint(6, 13)
            flavour = rng.choice(["random", "random", "grid", "duplicates"])
            # a share of cold starts (no label at all) and single-label pools: strategies take their
            # fallback branches there, where candidate bookkeeping differs between the addressings
            r0 = rng.random()
            n_lab = 0 if r0 < 0.2 else (1 if r0 < 0.3 else rng.randint(2, n - 3))
            if forced and n_lab < 2:
                n_lab = 2
            if k_rep == 1:
                n_lab = 0          # the second repetition is a cold start (fallback branches of the strategies; seed C08b)
            ctx.count("cold_start" if n_lab == 0 else ("single_label" if n_lab == 1 else "warm"))
            data = make_data(nrs, n, spec.kind, flavour, n_labeled=n_lab, classes=spec.classes or (0, 1, 2))
            cold = "/cold-start" if n_lab == 0 else ""   # precondition class of a finding
            unl = np.flatnonzero(np.isnan(data["y"]))
            seed = rng.randrange(10**6)
            b = rng.choice([1, 1, 2])
            if forced:
                b = 2
            case = dict(spec=spec.name, n=n, flavour=flavour, b=b, seed=seed, X=data["X"], y=data["y"], y_true=data["y_true"])
            # --- (b) representation equivalence ----------------------------------------------
            # half of the time ONE strategy object answers all addressings of this pool (state kept between calls must
            # not make the addressings disagree); otherwise a fresh object per call
            shared = spec.make(seed) if (rng.random() < 0.5 or forced) else None
            case["one_object"] = shared is not None
            ctx.count("repr_one_object" if shared is not None else "repr_fresh_objects")
            qn, Un, e1 = run(spec, data, None, b, seed, qs=shared)
            # the unlabeled indices designate a *set*: half of the time they are handed over in another order
            # and / or with repeated entries
            idx_arg = unl.copy()
            r1 = rng.random()
            if r1 < 0.5 and len(unl) >= 2:
                idx_arg = np.array(rng.sample(list(unl), len(unl)))
                if r1 < 0.2:
                    idx_arg = np.concatenate([idx_arg, idx_arg[: rng.randint(1, 2)]])
                ctx.count("repr_indices_unsorted_or_repeated")
            case["idx_arg"] = idx_arg.tolist()
            qi, Ui, e2 = run(spec, data, idx_arg.copy(), b, seed, qs=shared)
            ctx.case((spec.name, "repr", n, seed), len(unl) >= 3, sample=dict(summary(case), relation="None vs indices vs rows",
                                                                              picks_none=None if qn is None else qn.tolist(), picks_idx=None if qi is None else qi.tolist()))
            if e1 or e2:
                ctx.count("repr_query_raised")   # C01's business
            else:
                same_sel = np.array_equal(qn, qi)
                rows_cmp = slice(None) if same_sel else slice(0, 1)
                if Un.shape != Ui.shape or not np.array_equal(Un[rows_cmp], Ui[rows_cmp], equal_nan=True):
                    ctx.violate(f"C08/{spec.name}.query/none-vs-indices/utilities-differ",
                                f"{spec.name}: candidates=None and candidates=<unlabeled indices> give different utilities", dict(case, relation="none-vs-idx"))
                elif not same_sel and unique_best(Un[0]):
                    ctx.violate(f"C08/{spec.name}.query/none-vs-indices/selection-differs",
                                f"{spec.name}: unique best candidate but different selection for None vs indices", dict(case, relation="none-vs-idx"))
                ctx.count("repr_none_idx_compared")
                if spec.rows:
                    qr, Ur, e3 = run(spec, data, data["X"][unl].copy(), b, seed, qs=shared)
                    if e3:
                        ctx.count("repr_rows_raised")
                    else:
                        if Ur.shape[1] != len(unl) or not close(Ur[0], Ui[0][unl]):
                            ctx.violate(f"C08/{spec.name}.query/rows-vs-indices/utilities-differ",
                                        f"{spec.name}: feature-row candidates give different utilities than the same samples addressed by index", dict(case, relation="rows-vs-idx"))
                        elif unique_best(Ui[0]) and unique_best(Ur[0]) and unl[int(qr[0])] != int(qi[0]):
                            ctx.violate(f"C08/{spec.name}.query/rows-vs-indices/selection-differs",
                                        f"{spec.name}: unique best candidate but different selection for rows vs indices", dict(case, relation="rows-vs-idx"))
                        ctx.count("repr_rows_compared")
            if not spec.samplewise:
                continue
            # --- (c) restriction -------------------------------------------------------------------
            if len(unl) >= 3 and spec.cls not in NOT_RESTRICT and spec.name not in NOT_RESTRICT_NAMES:
                S = np.array(sorted(rng.sample(list(unl), rng.randint(1, len(unl) - 1))))
                qs_, Us, e = run(spec, data, S, 1, seed, qs=shared)
                qf, Uf, e2 = run(spec, data, unl.copy(), 1, seed, qs=shared)
                ctx.case((spec.name, "restrict", n, seed), True, sample=dict(summary(case), relation="restriction", subset=S.tolist()))
                if not (e or e2):
                    if not close(Us[0][S], Uf[0][S]):
                        ctx.violate(f"C08/{spec.name}.query/restriction/utilities-differ{cold}",
                                    f"{spec.name}: restricting the candidates to {S.tolist()} changes their first-step utilities", dict(case, relation="restriction", subset=S))
                    ctx.count("restriction_compared")
            # --- (c) permutation -------------------------------------------------------------------
            if spec.cls not in NOT_RESTRICT and spec.name not in NOT_PERMUTE_NAMES and spec.name not in NOT_RESTRICT_NAMES:
                perm = np.array(rng.sample(range(n), n))
                d2 = dict(X=data["X"][perm], y=data["y"][perm], y_true=data["y_true"][perm])
                qp, Up, e = run(spec, d2, None, 1, seed)
                qf, Uf, e2 = run(spec, data, None, 1, seed)
                ctx.case((spec.name, "permute", n, seed), True, sample=dict(summary(case), relation="permutation", perm=perm.tolist()))
                if not (e or e2):
                    if not close(Up[0], Uf[0][perm]):
                        ctx.violate(f"C08/{spec.name}.query/permutation/utilities-differ{cold}",
                                    f"{spec.name}: permuting the rows of (X, y) does not permute the utilities accordingly", dict(case, relation="permutation", perm=perm))
                    ctx.count("permutation_compared")


def us_cases(ctx, n_cases):
    """UncertaintySampling (least_confident / margin_sampling, no cost matrix) against `Core/Uncertainty.lean`: the probability
    rows the strategy hands to `uncertainty_scores` are captured from the real call; the model computes the scores, scatters them
    through the mapping and multiplies by `utility_weight`; compared bit-exactly with the first utilities row of the real query."""
    import skactiveml.pool._uncertainty_sampling as US
    from skactiveml.classifier import ParzenWindowClassifier
    from skactiveml.pool import UncertaintySampling

    rng = ctx.rng
    lines, expect = [], []
    for _ in range(n_cases):
        nrs = np.random.RandomState(rng.randrange(2**31 - 1))
        n, k = rng.randint(3, 10), rng.choice([2, 3, 4])
        X = nrs.randint(-4, 5, size=(n, 2)).astype(float)
        y = np.full(n, np.nan)
        lab = rng.sample(range(n), rng.randint(1, n - 1))
        for i in lab:
            y[i] = rng.randrange(k)
        unl = [i for i in range(n) if i not in lab]
        mode = rng.choice(["none", "idx", "rows"])
        method = rng.choice(["least_confident", "margin_sampling"])
        if mode == "none":
            cand, mapping = None, unl
        elif mode == "idx":
            mapping = sorted(rng.sample(unl, rng.randint(1, len(unl))))
            cand = np.array(mapping)
        else:
            cand = nrs.randint(-4, 5, size=(rng.randint(1, 5), 2)).astype(float)
            mapping = None
        nw = n if mapping is not None else len(cand)
        w = None if rng.random() < 0.5 else np.array([rng.choice([0.5, 1.0, 2.0, 0.25]) for _ in range(nw)])
        seen = []
        orig = US.uncertainty_scores

        def spy(probas, *a, **kw):
            seen.append(np.array(probas, dtype=float, copy=True))
            return orig(probas, *a, **kw)

        US.uncertainty_scores = spy
        try:
            clf = ParzenWindowClassifier(classes=list(range(k)), metric_dict={"gamma": 0.125}, random_state=0)
            qs = UncertaintySampling(method=method, random_state=rng.randrange(10**6))
            with warnings.catch_warnings(), np.errstate(all="ignore"):
                warnings.simplefilter("ignore")
                _, U = qs.query(X, y, clf=clf, candidates=cand, utility_weight=w, batch_size=1, return_utilities=True)
        finally:
            US.uncertainty_scores = orig
        if len(seen) != 1:
            ctx.disagree("UncertaintySampling calls uncertainty_scores exactly once", dict(method=method, mode=mode), "1 call", f"{len(seen)} calls")
            continue
        P = seen[0]
        ww = np.ones(nw) if w is None else w
        line = (f"us_util {0 if method == 'least_confident' else 1} {n} {1 if mapping is not None else 0} "
                f"{vlib.il(mapping or [])} {P.shape[0]} {P.shape[1]} " + " ".join(vlib.f2bits(v) for v in P.ravel()) + " " + vlib.fl(ww))
        lines.append(" ".join(line.split()))
        case = dict(fn="UncertaintySampling", method=method, mode=mode, n=n, mapping=mapping, weights=None if w is None else w.tolist())
        expect.append((" ".join(vlib.f2bits(v) for v in np.asarray(U, dtype=float)[0]), case))
        ctx.case(("us", method, mode, n, repr(mapping), repr(P.tolist())), P.shape[0] >= 2, sample=dict(case, utilities=np.asarray(U)[0].tolist()[:6]))
        ctx.count(f"us_{method}_{mode}")
    outs = vlib.run_driver(lines)
    for line, out, (impl, case) in zip(lines, outs, expect):
        if out.split() != impl.split():
            ctx.disagree("SkaModel.Core.Uncertainty vs UncertaintySampling (scores, scatter, utility_weight)", dict(case, line=line[:300]), out[:400], impl[:400])


def weighted_duplicates(ctx, n_cases):
    """Restriction with per-sample training weights on duplicated points (seed R10G05): two candidates with identical features
    but different `sample_weight`; the utility of the second copy must be the same whether all unlabeled samples or only that
    copy are candidates (expected-model-change strategies are sample-wise: every candidate is scored with its own row of
    (X, y, sample_weight))."""
    import skactiveml.pool as P
    from skactiveml.regressor import NICKernelRegressor

    rng = ctx.rng
    mk = {
        "ExpectedModelOutputChange": lambda s: P.ExpectedModelOutputChange(random_state=s, integration_dict={"method": "assume_linear"}),
        "ExpectedModelVarianceReduction": lambda s: P.ExpectedModelVarianceReduction(random_state=s, integration_dict={"method": "assume_linear"}),
        "KLDivergenceMaximization": lambda s: P.KLDivergenceMaximization(random_state=s, integration_dict_target_val={"method": "assume_linear"},
                                                                          integration_dict_cross_entropy={"method": "assume_linear"}),
    }
    for _ in range(n_cases):
        name = rng.choice(sorted(mk))
        nrs = np.random.RandomState(rng.randrange(2**31 - 1))
        n = rng.randint(7, 11)
        X = nrs.randint(-6, 7, size=(n, 2)) / 2.0
        y = np.full(n, np.nan)
        lab = rng.sample(range(n), 3)
        for i in lab:
            y[i] = float(nrs.randint(-4, 5)) / 2.0
        unl = [i for i in range(n) if i not in lab]
        a, b = unl[0], unl[-1]
        X[b] = X[a]                                  # an exact copy ...
        w = np.array([rng.choice([0.5, 1.0, 2.0]) for _ in range(n)])
        w[a], w[b] = 0.5, 4.0                        # ... with another training weight
        seed = rng.randrange(10**6)
        case = dict(fn="weighted-duplicates", strategy=name, X=X.tolist(), y=["nan" if v != v else v for v in y], sample_weight=w.tolist(), copy=(a, b), seed=seed)
        try:
            with warnings.catch_warnings(), np.errstate(all="ignore"):
                warnings.simplefilter("ignore")
                reg = lambda: NICKernelRegressor(metric_dict={"gamma": 0.25}, random_state=0)   # noqa: E731
                _, Uf = mk[name](seed).query(X, y, reg=reg(), sample_weight=w, candidates=None, batch_size=1, return_utilities=True)
                _, Us = mk[name](seed).query(X, y, reg=reg(), sample_weight=w, candidates=np.array([b]), batch_size=1, return_utilities=True)
        except Exception as e:  # noqa: BLE001
            ctx.count("weighted_duplicates_raised:" + type(e).__name__)
            continue
        ctx.case(("wdup", name, seed, repr(X.tolist())), True, sample=dict(kind="weighted duplicates", strategy=name, full=float(Uf[0][b]), single=float(Us[0][b])))
        ctx.count("weighted_duplicates_" + name)
        if not close(np.array([Uf[0][b]]), np.array([Us[0][b]])):
            ctx.violate(f"C08/{name}.query/restriction/utilities-differ/weighted-duplicates",
                        f"{name}: sample {b} (an exact copy of sample {a} with another sample_weight) has utility {float(Uf[0][b])!r} among all candidates "
                        f"but {float(Us[0][b])!r} as the only candidate", case)


def correspond(ctx):
    weighted_duplicates(ctx, 24 if not ctx.thorough else 200)
    us_cases(ctx, 150 if not ctx.thorough else 1500)
    candmap_cases(ctx, 400 if not ctx.thorough else 4000)
    relations(ctx, 3 if not ctx.thorough else 12)


def search(ctx):
    relations(ctx, 8)


def replay(payload):
    r = payload["replay"]
    if r.get("fn") == "weighted-duplicates":
        import skactiveml.pool as P
        from skactiveml.regressor import NICKernelRegressor

        X = np.array(r["X"], dtype=float)
        y = np.array([float("nan") if v == "nan" else v for v in r["y"]], dtype=float)
        w = np.array(r["sample_weight"], dtype=float)
        b = r["copy"][1]
        kw = dict(integration_dict={"method": "assume_linear"}) if r["strategy"] != "KLDivergenceMaximization" else dict(
            integration_dict_target_val={"method": "assume_linear"}, integration_dict_cross_entropy={"method": "assume_linear"})
        mk = lambda: getattr(P, r["strategy"])(random_state=r["seed"], **kw)   # noqa: E731
        reg = lambda: NICKernelRegressor(metric_dict={"gamma": 0.25}, random_state=0)   # noqa: E731
        _, Uf = mk().query(X, y, reg=reg(), sample_weight=w, candidates=None, batch_size=1, return_utilities=True)
        _, Us = mk().query(X, y, reg=reg(), sample_weight=w, candidates=np.array([b]), batch_size=1, return_utilities=True)
        print("utility among all candidates:", float(Uf[0][b]), "| as the only candidate:", float(Us[0][b]))
        bad = not close(np.array([Uf[0][b]]), np.array([Us[0][b]]))
        print("REPRODUCED" if bad else "not reproduced")
        return 1 if bad else 0
    print("recorded case:", {k: v for k, v in r.items() if k not in ("X", "y", "y_true")})
    spec = [s for s in pool_specs() if s.name == r["spec"]][0]

    def arr(x):
        return np.array([[float("nan") if v == "nan" else v for v in row] if isinstance(row, list) else (float("nan") if row == "nan" else row) for row in x], dtype=float)

    data = dict(X=arr(r["X"]), y=arr(r["y"]), y_true=arr(r["y_true"]))
    unl = np.flatnonzero(np.isnan(data["y"]))
    rel = r.get("relation")
    shared = spec.make(r["seed"]) if r.get("one_object") else None
    if rel == "none-vs-idx":
        _, A, _ = run(spec, data, None, r["b"], r["seed"], qs=shared)
        _, B, _ = run(spec, data, np.array(r.get("idx_arg", unl.tolist())), r["b"], r["seed"], qs=shared)
        bad = not np.array_equal(A[:1], B[:1], equal_nan=True)
    elif rel == "rows-vs-idx":
        if shared is not None:
            run(spec, data, None, r["b"], r["seed"], qs=shared)
        _, B, _ = run(spec, data, np.array(r.get("idx_arg", unl.tolist())), r["b"], r["seed"], qs=shared)
        _, A, _ = run(spec, data, data["X"][unl].copy(), r["b"], r["seed"], qs=shared)
        bad = not close(A[0], B[0][unl])
    elif rel == "restriction":
        S = np.array(r["subset"])
        if shared is not None:   # the recorded run had answered None / indices (/ rows) on this object before
            run(spec, data, None, r["b"], r["seed"], qs=shared)
            run(spec, data, np.array(r.get("idx_arg", unl.tolist())), r["b"], r["seed"], qs=shared)
            if spec.rows:
                run(spec, data, data["X"][unl].copy(), r["b"], r["seed"], qs=shared)
        _, A, _ = run(spec, data, S, 1, r["seed"], qs=shared)
        _, B, _ = run(spec, data, unl.copy(), 1, r["seed"], qs=shared)
        bad = not close(A[0][S], B[0][S])
        print("subset utilities:", A[0][S], "full:", B[0][S])
    else:
        perm = np.array(r["perm"])
        d2 = dict(X=data["X"][perm], y=data["y"][perm], y_true=data["y_true"][perm])
        _, A, _ = run(spec, d2, None, 1, r["seed"])
        _, B, _ = run(spec, data, None, 1, r["seed"])
        bad = not close(A[0], B[0][perm])
    print("REPRODUCED" if bad else "not reproduced")
    return 1 if bad else 0
