"""C05 — a pool query has no side effects on caller data, models or settings.

Two ties:
  * translation: `harness/translate` parses the current source (`vlib.REPO`) and regenerates
    `lean/SkaModel/Gen/EffectsC05.lean` — one effect summary and one `decide`d obligation
    `FrameOK summary_<Class>_query = true|false` per pool strategy; the general theorems of
    `Props/C05.lean` turn `FrameOK` into "get_params, caller objects and inner strategies' parameters
    are unchanged, for all stores, for any number of calls";
  * dynamic oracle on the real code (also validates the translator): before/after snapshots of every
    input array, `get_params(deep=True)`, every model argument, pickling, clone-vs-twin, for every
    exported pool strategy x configuration (incl. every lazily resolved `None` default) x candidate
    mode, over consecutive queries.
A dynamic violation the summary did not predict, or a predicted one that is expected to be a finding
but cannot be reproduced, is a broken tie.
"""
import os
import time

# tiny data: BLAS / OpenMP thread pools only add overhead (and nondeterministic summation order)
for _v in ("OMP_NUM_THREADS", "OPENBLAS_NUM_THREADS", "MKL_NUM_THREADS"):
    os.environ.setdefault(_v, "1")

from .. import vlib
from ..translate import gen, oracles, zoo

PROP = "C05"
LEAN_TARGETS = ["SkaModel.Props.C05", "SkaModel.Gen.EffectsC05"]
LEVEL = "proof"
RULE = (
    "cases: (exported pool strategy, configuration from harness/translate/zoo.py incl. every None default that is resolved "
    "lazily, candidate mode none/idx/arr, data seed); each case = 2-3 consecutive queries with byte-wise digests of all "
    "array arguments, structural get_params(deep=True) and model-argument snapshots before/after every query; for every strategy "
    "with a fit_clf/fit_reg/fit_ensemble flag additionally the flag False with a model the caller fitted, with and without "
    "sample_weight (fitted attributes and predictions of the model compared); "
    "pickle.dumps and clone-vs-twin equality. non-trivial = the query returned a batch and utilities; distinct = distinct "
    "(class, configuration, mode, seed)"
)
ASSUMPTIONS = [
    "the effect summary over-approximates the Python method (translator in the trusted base, validated by the snapshots of this run)",
    "fit-like calls do not store references to caller objects in the receiver; numpy views are not modelled: immutability of the input arrays is established by the dynamic runs only (partial clause)",
    "a value failing an isinstance test for a container/estimator type is treated as immutable (such configurations are rejected by the code)",
    "strategies with an internal clustering are configured with cluster_algo_dict={'random_state': 0} here (the unseeded default is C06's finding)",
]
TRUSTED = [
    "harness/translate (AST -> effect summary) and its Python mirror of `check`; Lean's `decide` re-checks every emitted obligation",
    "sklearn.base.clone / copy.deepcopy / check_array as modelled (new object; deep copy = private region)",
]


def _own(g):
    """the `query_<Class>_historyFree` obligations in the same generated module belong to C06"""
    g = dict(g)
    for k in ("flips", "leads", "repaired"):
        g[k] = [o for o in g[k] if o["kind"] != "history-query"]
    g["obligations"] = [o for o in g["obligations"] if o["kind"] != "history-query"]
    return g


def generate(ctx):
    ctx.gen = _own(gen.generate(PROP, ctx))
    # the Gen module is part of LEAN_TARGETS, so its theorems are counted by the axiom audit already
    ctx.notes["generated_obligations_in_audit"] = ctx.notes.pop("generated_obligations", 0)
    ctx.notes.pop("generated_discharged", None)


def _gen(ctx):
    g = getattr(ctx, "gen", None)
    if g is None:
        g = _own(gen.generate(PROP, None, write=False))
        ctx.gen = g
    return g


def key_of(cls, f):
    return f"C05/{cls}.query/{f['kind']}/{f['name']}"


def run_case(ctx, case, mode, seed, observed, n_queries=2, variant=None):
    t0 = time.time()
    findings, info = oracles.pool_side_effects(case, mode, seed, n_queries=n_queries, variant=variant)
    replay = dict(case=case.key, mode=mode, seed=seed, n_queries=n_queries, variant=variant)
    if info.get("not_applicable"):
        return
    if variant:
        ctx.count("variant_" + variant)
    if "raised" in info and not findings:
        ctx.count("query_raised:" + info["raised"].split(":")[0])
        ctx.case((case.key, mode, seed, variant), False)
        return
    nontriv = bool(info.get("outs"))
    ctx.case((case.key, mode, seed, variant), nontriv, sample=dict(case=case.key, mode=mode, seed=seed, variant=variant, findings=[f["kind"] + "/" + f["name"] for f in findings], seconds=round(time.time() - t0, 3)))
    ctx.count("mode_" + mode)
    ctx.count("family_" + case.family)
    if case.lazy_none:
        ctx.count("configs_with_lazily_resolved_None")
    if info.get("deterministic") is False:
        ctx.count("twin_comparison_skipped_nondeterministic")
    for f in findings:
        observed.setdefault(case.cls_name, set()).add((f["kind"], f["name"]))
        ctx.violate(key_of(case.cls_name, f), f"{case.cls_name}.query [{case.config}, candidates={mode}{', ' + variant if variant else ''}]: {f['what']}", dict(replay, finding=f["kind"] + "/" + f["name"]))


def pool_cases():
    return [c for c in zoo.cases() if c.family in ("pool", "pool_ma") and "unseeded" not in c.config]


def correspond(ctx):
    g = _gen(ctx)
    pred = {o["cls"]: o for o in g["obligations"] if o["kind"] == "frame" and o["method"] == "query"}
    flipped = {o["cls"] for o in g["flips"]}
    cases = pool_cases()
    observed = {}
    seeds = [ctx.seed] if not ctx.thorough else [ctx.seed + 101 * k for k in range(5)]
    # classes whose tie flipped come first and get every mode
    cases.sort(key=lambda c: (c.cls_name not in flipped, c.cls_name, c.config))
    t_start = time.time()
    for i, case in enumerate(cases):
        lead = case.cls_name in flipped or not pred.get(case.cls_name, {}).get("value", True)
        if ctx.thorough or lead or case.lazy_none:
            modes = case.cand_modes
        else:
            modes = (case.cand_modes[(i + ctx.seed) % len(case.cand_modes)],)
        for seed in seeds:
            for mode in modes:
                run_case(ctx, case, mode, seed, observed, n_queries=3 if ctx.thorough else 2)
            rs_mode = case.cand_modes[(i + ctx.seed) % len(case.cand_modes)]
            run_case(ctx, case, rs_mode, seed, observed, n_queries=2, variant="rs-instance")
            for mode in [m for m in case.cand_modes if m != "none"][: (2 if ctx.thorough else 1)]:
                run_case(ctx, case, mode, seed, observed, n_queries=2, variant="rs-instance-all-labeled")
            if oracles.has_fit_flag(case):
                # fit_<model>=False with a model the caller has fitted, with and without sample_weight
                vmodes = case.cand_modes if (ctx.thorough or lead) else (case.cand_modes[(i + ctx.seed + 1) % len(case.cand_modes)],)
                for mode in vmodes:
                    for variant in ("prefit", "prefit-nosw"):
                        run_case(ctx, case, mode, seed, observed, n_queries=2, variant=variant)
    # read-only probe (detector only)
    ro = {}
    for case in cases[:: (1 if ctx.thorough else 4)]:
        try:
            msg = oracles.pool_readonly_probe(case, case.cand_modes[0], ctx.seed)
        except Exception:
            msg = None
        if msg:
            ro[case.key] = msg
    ctx.notes["readonly_probe_errors"] = ro
    for k in ro:
        cls = k.split("/")[1]
        if not any(kind == "array-modified" for kind, _ in observed.get(cls, ())):
            ctx.count("readonly_error_without_observed_modification")
    ctx.notes["dynamic_seconds"] = round(time.time() - t_start, 1)
    compare_with_summaries(ctx, g, observed)


_WRAPPERS = None


def wrapper_classes():
    """Classes that hold another query strategy as a constructor parameter."""
    global _WRAPPERS
    if _WRAPPERS is None:
        _WRAPPERS = set()
        for c in pool_cases():
            try:
                if any(hasattr(v, "query") for v in c.build().get_params(deep=False).values()):
                    _WRAPPERS.add(c.cls_name)
            except Exception:
                pass
    return _WRAPPERS


def compare_with_summaries(ctx, g, observed):
    """Each dynamic disagreement with what the summary predicts is a broken tie."""
    exp = gen.load_expected()
    classes_run = {c.cls_name for c in pool_cases()}
    for o in g["obligations"]:
        if o["kind"] != "frame" or o["method"] != "query" or o["cls"] not in classes_run:
            continue
        obs = observed.get(o["cls"], set())
        pred_params = {ld["attr"] for ld in o["leads"] if ld["kind"] == "param-write"}
        pred_other = [ld for ld in o["leads"] if ld["kind"] in ("mutation", "fit-receiver")]
        obs_params = {n.split("__")[0] for k, n in obs if k == "param-write"}
        obs_other = {(k, n) for k, n in obs if k in ("model-altered", "array-modified")}
        # a wrapper's summary relies on the contract of its inner strategy (`callInner`): effects of a
        # defective inner strategy are attributed to that strategy's own obligation
        modular = (o.get("inner") or o["cls"] in wrapper_classes()) and g["flips"]
        for p in sorted(obs_params - pred_params):
            if not pred_other:
                msg = f"translator missed: {o['cls']}.query changes get_params()['{p}'] on the real code but its summary has no such write"
                (ctx.notes.setdefault("effects_through_inner_strategy", []) if modular else ctx.broken).append(msg)
        if obs_other and not pred_other and not pred_params:
            msg = f"translator missed: {o['cls']}.query {sorted(obs_other)} observed on the real code but its summary is FrameOK"
            (ctx.notes.setdefault("effects_through_inner_strategy", []) if modular else ctx.broken).append(msg)
        why = exp.get(o["name"], {}).get("why", "")
        if not o["value"] and why.startswith("finding") and not obs:
            ctx.broken.append(f"lead not reproduced: summary of {o['cls']}.query violates FrameOK ({sorted(pred_params) or [ld['path'] for ld in pred_other]}) and is recorded as a finding, but no configuration shows it on the real code")
        if not o["value"] and not obs and not why:
            ctx.count("unconfirmed_new_lead")
    ctx.notes["observed_effects"] = {k: sorted(f"{a}/{b}" for a, b in v) for k, v in observed.items()}


def search(ctx):
    """Deeper failing-input search when a tie broke and nothing was found: every mode, more seeds,
    more consecutive queries, the flipped classes first."""
    g = _gen(ctx)
    flipped = {o["cls"] for o in g["flips"]}
    cases = pool_cases()
    cases.sort(key=lambda c: (c.cls_name not in flipped, c.cls_name))
    observed = {}
    t0 = time.time()
    for rnd in range(4):
        for case in cases:
            if flipped and case.cls_name not in flipped and rnd > 0:
                continue
            for mode in case.cand_modes:
                run_case(ctx, case, mode, ctx.seed + 1000 + 17 * rnd, observed, n_queries=4)
                for variant in ("prefit", "prefit-nosw", "rs-instance", "rs-instance-all-labeled"):
                    run_case(ctx, case, mode, ctx.seed + 1000 + 17 * rnd, observed, n_queries=2, variant=variant)
            if time.time() - t0 > (600 if ctx.thorough else 120):
                return
        if ctx.violations:
            return


def replay(payload):
    r = payload.get("replay", {})
    case = next((c for c in zoo.cases() if c.key == r.get("case")), None)
    if case is None:
        print("unknown case", r.get("case"))
        return 2
    findings, info = oracles.pool_side_effects(case, r["mode"], r["seed"], n_queries=r.get("n_queries", 2), variant=r.get("variant"))
    for f in findings:
        print("REPRODUCED:", key_of(case.cls_name, f), "-", f["what"])
    if not findings:
        print("not reproduced", info.get("raised", ""))
    return 1 if findings else 0
