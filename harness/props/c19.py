"""C19 — IndexClassifierWrapper: index-based incremental refitting equals retraining from scratch.

Correspondence of `skactiveml.pool.utils.IndexClassifierWrapper` with the Lean model
`SkaModel/Core/IndexWrapper.lean` on whole call sequences (state after every call), plus the
property's own oracle: after every call the wrapper must predict like a fresh clone of the wrapped
classifier trained on the multiset of (sample, label, weight) triples the call sequence implies,
and the precomputed-kernel speed-up must never change a prediction."""
import copy
import itertools
import warnings

import numpy as np

from .. import vlib
from ..vlib import f2bits, bits2f

LEAN_TARGETS = ["SkaModel.Props.C19"]
# theorems about, and the executable of, the training-record block translated from the current source of pool/utils.py on every run
GEN_TARGETS = ["SkaModel.Props.WrapperGen", "skawrapgendriver"]
LEVEL = "proof"
RULE = (
    "case = one IndexClassifierWrapper (constructor flags ignore_partial_fit x enforce_unique_samples x use_speed_up, "
    "optionally a pre-fitted classifier and set_base_clf in __init__) around one of: a history-recording spy classifier "
    "(with / without native partial_fit), ParzenWindowClassifier (rbf or a dyadic callable kernel; speed-up off and on run "
    "in lock-step), SklearnClassifier(GaussianNB) (native partial_fit or emulated); plus one complete sequence of "
    "fit / partial_fit (use_base_clf x set_base_clf, label overrides, weights None/given, wrong lengths, duplicate / "
    "negative / out-of-range indices) / precompute calls; after every call the model's (clf history, idx_, y_, "
    "sample_weight_, base_*) is compared with the object's attributes and predict / predict_proba / predict_freq with a "
    "freshly trained reference. non-trivial = at least two successful training calls of which one is a partial_fit; "
    "distinct = distinct (classifier kind, flags, data, call sequence)"
)
ASSUMPTIONS = [
    "the wrapped classifier's fit is history-free (C13) and does not raise on the generated data (labels within classes or missing)",
    "a call that raises is read as adding nothing to the implied multiset (the object must stay as it was)",
    "prediction queries use indices in [-n, n); under enforce_unique_samples two distinct index values that alias one sample "
    "(i and i-n) are treated as the code treats them (as different indices); occurrences are counted in the evidence",
    "speed-up on/off and permuted references are compared exactly for dyadic kernels / weights and with rtol 1e-12 for rbf "
    "(BLAS summation order); everything else bit-exact",
]
TRUSTED = [
    "numpy fancy / boolean indexing and np.concatenate as modelled (wrap-around of negative indices, IndexError below -n)",
    "pairwise_kernels values are captured from the real run (spy on skactiveml.pool.utils.pairwise_kernels), not recomputed",
]

NAN = float("nan")
CLASSES = [0.0, 1.0, 2.0]
PARAMS = ["all", "labeled", "unlabeled", "bogus"]
KINDS = ["predict", "predict_proba", "predict_freq"]
_cls_cache = {}


# ---------------------------------------------------------------------------------------------
# classifiers

def classes_():
    """Spy classifiers (defined lazily so that importing this module does not import skactiveml)."""
    if _cls_cache:
        return _cls_cache
    from sklearn.exceptions import NotFittedError
    from skactiveml.base import SkactivemlClassifier
    from skactiveml.classifier import ParzenWindowClassifier

    class SpyClf(SkactivemlClassifier):
        """Records exactly what it is trained on; predictions are label counts over its history."""

        def __init__(self, classes=None, missing_label=np.nan, cost_matrix=None, random_state=None):
            super().__init__(classes=classes, missing_label=missing_label, cost_matrix=cost_matrix, random_state=random_state)

        @staticmethod
        def _rec(kind, X, y, sw):
            return (kind, np.array(X, dtype=float, copy=True), np.array(y, dtype=float, copy=True),
                    None if sw is None else np.array(sw, dtype=float, copy=True))

        def fit(self, X, y, sample_weight=None):
            _cls_cache["n_fit"] = _cls_cache.get("n_fit", 0) + 1
            self.classes_ = np.asarray(self.classes, dtype=float)
            self.hist_ = [self._rec("F", X, y, sample_weight)]
            return self

        def predict_freq(self, X):
            if not hasattr(self, "hist_"):
                raise NotFittedError("spy not fitted")
            F = np.zeros(len(self.classes_))
            for _, _, y, sw in self.hist_:
                w = np.ones(len(y)) if sw is None else sw
                for j, c in enumerate(self.classes_):
                    F[j] += np.sum(w[y == c])
            return np.tile(F, (len(X), 1))

        def predict_proba(self, X):
            F = self.predict_freq(X) + 1.0
            return F / F.sum(axis=1, keepdims=True)

        def predict(self, X):
            return self.classes_[np.argmax(self.predict_freq(X), axis=1)]

    class SpyClfPF(SpyClf):
        def partial_fit(self, X, y, sample_weight=None):
            if not hasattr(self, "hist_"):
                raise NotFittedError("spy not fitted")
            _cls_cache["n_pfit"] = _cls_cache.get("n_pfit", 0) + 1
            self.hist_ = list(self.hist_) + [self._rec("P", X, y, sample_weight)]
            return self

    class PWCSpy(ParzenWindowClassifier):
        """ParzenWindowClassifier that logs the kernel matrix it is handed in `precomputed` mode."""

        LOG = []

        def predict_freq(self, X):
            if self.metric == "precomputed":
                PWCSpy.LOG.append(np.array(X, dtype=float, copy=True))
            return super().predict_freq(X)

    _cls_cache.update(SpyClf=SpyClf, SpyClfPF=SpyClfPF, PWCSpy=PWCSpy)
    return _cls_cache


def dyadic_kernel(x, y, **kw):
    """2^-|x-y|_1 on integer-valued features: every kernel value and every sum of products with dyadic
    weights is exact in binary floating point, whatever the summation order."""
    return float(2.0 ** (-np.abs(np.asarray(x) - np.asarray(y)).sum()))


def make_clf(kind):
    c = classes_()
    if kind == "spy":
        return c["SpyClf"](classes=CLASSES)
    if kind == "spypf":
        return c["SpyClfPF"](classes=CLASSES)
    if kind == "pwc_rbf":
        return c["PWCSpy"](classes=CLASSES, metric="rbf", metric_dict={"gamma": 0.25}, random_state=0)
    if kind == "pwc_dy":
        return c["PWCSpy"](classes=CLASSES, metric=dyadic_kernel, random_state=0)
    if kind == "pwc_dy_nn":
        # neighbour limit: the k nearest *training samples* (labeled or not, weighted or not) vote; the speed-up path
        # (precomputed kernel) and the plain path must pick them from the same set (seed R6C19)
        return c["PWCSpy"](classes=CLASSES, metric=dyadic_kernel, n_neighbors=2, random_state=0)
    if kind == "gnb":
        from sklearn.naive_bayes import GaussianNB
        from skactiveml.classifier import SklearnClassifier

        return SklearnClassifier(GaussianNB(), classes=CLASSES, random_state=0)
    raise ValueError(kind)


def has_pf(kind):
    return kind in ("spypf", "gnb")


def kinds_of(kind):
    """SklearnClassifier is no ClassFrequencyEstimator: it has no predict_freq."""
    return KINDS[:2] if kind == "gnb" else KINDS


# ---------------------------------------------------------------------------------------------
# small helpers

def lab(v):
    v = float(v)
    return -1 if v != v else int(v)


def unlab(i):
    return NAN if i < 0 else float(i)


def fkey(x):
    return None if x is None else tuple(f2bits(v) for v in x)


def err_enum(e):
    from sklearn.exceptions import NotFittedError

    s = str(e)
    if isinstance(e, NotFittedError):
        return "err notfitted"
    if isinstance(e, AttributeError):
        return "err attr"
    if isinstance(e, IndexError):
        return "err index"
    if isinstance(e, ValueError):
        if "must be either None or given" in s:
            return "err mixed"
        if "pre-computed" in s:
            return "err nan"
        if "not defined" in s:
            return "err param"
        return "err value"
    return f"err other:{type(e).__name__}:{s[:80]}"


def optl(xs, f):
    return "N" if xs is None else " ".join([str(len(xs))] + [f(x) for x in xs])


def ints(xs):
    return " ".join([str(len(xs))] + [str(int(x)) for x in xs])


def data_tok(d):
    idx, y, sw = d
    return f"{ints(idx)} {ints([lab(v) for v in y])} {optl(sw, f2bits)}"


def op_tok(op):
    if op["op"] == "F":
        return f"F {ints(op['idx'])} {optl(op['y'], lambda v: str(lab(v)))} {optl(op['sw'], f2bits)} {int(op['sb'])}"
    if op["op"] == "P":
        return (f"P {ints(op['idx'])} {optl(op['y'], lambda v: str(lab(v)))} {optl(op['sw'], f2bits)} "
                f"{int(op['ub'])} {int(op['sb'])}")
    if op["op"] == "C":
        return f"C {ints(op['a'])} {ints(op['b'])} {PARAMS.index(op['fp'])} {PARAMS.index(op['pp'])}"
    if op["op"] == "Q":
        return f"Q {KINDS.index(op['kind'])} {ints(op['q'])}"
    raise ValueError(op)


def op_str(o):
    """human-readable form of a call (evidence samples, violation texts, replay)"""
    if o["op"] == "F":
        return f"fit(idx={o['idx']}, y={o['y']}, sample_weight={o['sw']}, set_base_clf={o['sb']})"
    if o["op"] == "P":
        return f"partial_fit(idx={o['idx']}, y={o['y']}, sample_weight={o['sw']}, use_base_clf={o['ub']}, set_base_clf={o['sb']})"
    if o["op"] == "C":
        return f"precompute(idx_fit={o['a']}, idx_pred={o['b']}, fit_params={o['fp']!r}, pred_params={o['pp']!r})"
    return f"{o['kind']}(idx={o['q']})"


# ---- parsing the model's output ------------------------------------------------------------------

class Cur:
    def __init__(self, toks):
        self.t, self.i = toks, 0

    def tok(self):
        self.i += 1
        return self.t[self.i - 1]

    def peek(self):
        return self.t[self.i] if self.i < len(self.t) else None

    def nat(self):
        return int(self.tok())

    def lst(self, f):
        k = self.nat()
        return [f(self.tok()) for _ in range(k)]

    def data(self):
        t = self.tok()
        if t == "none":
            return None
        assert t == "d", t
        idx = self.lst(int)
        y = self.lst(int)
        if self.peek() == "N":
            self.tok()
            sw = None
        else:
            sw = self.lst(bits2f)
        return (idx, y, sw)

    def hist(self):
        t = self.tok()
        if t == "none":
            return None
        assert t == "h", t
        return [self.data() for _ in range(self.nat())]

    def state(self):
        st = {}
        for name, kind in (("clf", "h"), ("cur", "d"), ("bclf", "h"), ("base", "d")):
            assert self.tok() == name
            st[name] = self.hist() if kind == "h" else self.data()
        return st

    def mat(self):
        r, c = self.nat(), self.nat()
        return [[bits2f(self.tok()) for _ in range(c)] for _ in range(r)]


def parse_segment(seg):
    """-> dict(status, state? , tab?, plan?, rows?, freq?, q?)"""
    c = Cur(seg.split())
    t = c.tok()
    out = {}
    if t == "init":
        t = c.tok()
    if t == "err":
        out["status"] = "err " + c.tok()
    else:
        out["status"] = "ok"
    nxt = c.peek()
    if nxt == "clf":
        out["state"] = c.state()
    elif nxt == "tab":
        c.tok()
        out["tab"] = c.t[c.i:]
    elif nxt in ("table", "direct", "orig"):
        out["plan"] = c.tok()
        out["kind"] = KINDS[c.nat()]
        if out["plan"] == "table":
            out["rows"] = c.mat()
            assert c.tok() == "freq"
            out["freq"] = c.mat()
        else:
            out["q"] = [int(x) for x in c.t[c.i:]]
    return out


# ---------------------------------------------------------------------------------------------
# the specification side: implied multisets (python mirror of `SkaModel/Lemmas/IndexWrapper.lean: specFit / specPartial`)

class Spec:
    """`clf` / `bclf` are recipes for a reference classifier: None (unfitted) | ("fit", triples) |
    ("hist", (first, triples, ...)) with first = triples (fit) or "prefit" (the classifier handed to the
    constructor); `cur` / `base` are tuples of triples (idx, label, weight|None) or None."""

    def __init__(self, case):
        self.case = case
        self.native = has_pf(case["kind"]) and not case["ignore_pf"]
        pre = ("hist", ("prefit",)) if case["prefit"] is not None else None
        speed_pwc = case["kind"].startswith("pwc") and case["speed"]
        self.clf = None if speed_pwc else pre
        # speed-up + pre-fitted: the constructor drops the fitted copy; the object answers through `self.clf`
        self.clf_visible = pre
        self.bclf = pre if case["init_sb"] else None
        self.cur = None
        self.base = None

    def resolve(self, op):
        c = self.case
        n = c["n"]
        idx = op["idx"]
        y = op["y"] if op["y"] is not None else [c["y0"][i] for i in idx]
        if op["sw"] is not None:
            sw = list(op["sw"])
        elif c["sw0"] is not None:
            sw = [c["sw0"][i] for i in idx]
        else:
            sw = [None] * len(idx)
        return tuple((int(i), lab(v), (None if w is None else float(w))) for i, v, w in zip(idx, y, sw))

    def apply(self, op):
        """Only called for calls that returned normally."""
        add = self.resolve(op)
        if op["op"] == "F":
            if self.native:
                self.clf = ("hist", (add,))
            else:
                self.cur = add
                self.clf = ("fit", add)
        else:
            if self.native:
                start = self.bclf if op["ub"] else self.clf
                self.clf = ("hist", start[1] + (add,))
            else:
                start = self.base if op["ub"] else self.cur
                if self.case["unique"]:
                    gone = {t[0] for t in add}
                    start = tuple(t for t in start if t[0] not in gone)
                self.cur = start + add
                self.clf = ("fit", self.cur)
        self.clf_visible = self.clf
        if op["sb"]:
            self.bclf = self.clf
            if not self.native:
                self.base = self.cur


def triples_of(d):
    if d is None:
        return None
    idx, y, sw = d
    sw = [None] * len(idx) if sw is None else sw
    return tuple((int(i), int(v), (None if w is None else float(w))) for i, v, w in zip(idx, y, sw))


def mset(ts, n):
    if ts is None:
        return None
    return sorted((t[0] % n, t[1], f2bits(t[2]) if t[2] is not None else "N") for t in ts)


# ---------------------------------------------------------------------------------------------
# running one case on the real code

class Runner:
    """One wrapper object driven through the case's calls; collects what is needed for the model line."""

    def __init__(self, case, speed):
        from skactiveml.pool import utils as U

        self.U = U
        self.case, self.speed = case, speed
        self.n = case["n"]
        self.X = np.array(case["X"], dtype=float)
        self.rowid = {tuple(r): i for i, r in enumerate(self.X.tolist())}
        self.y0 = np.array(case["y0"], dtype=float)
        self.sw0 = None if case["sw0"] is None else np.array(case["sw0"], dtype=float)
        self.orig = make_clf(case["kind"])
        self.kern = {}
        if case["prefit"] is not None:
            i, y, sw = case["prefit"]
            self.orig.fit(self.X[i], np.array(y, dtype=float), None if sw is None else np.array(sw, dtype=float))
        self.ref_cache = {}
        self.init_status = "ok"
        self.w = None
        try:
            self.w = U.IndexClassifierWrapper(
                self.orig, self.X.copy(), self.y0.copy(), None if self.sw0 is None else self.sw0.copy(),
                set_base_clf=case["init_sb"], ignore_partial_fit=case["ignore_pf"],
                enforce_unique_samples=case["unique"], use_speed_up=speed,
            )
        except Exception as e:
            self.init_status = err_enum(e)

    # -- kernel spy --------------------------------------------------------------------------
    def _spy_kernels(self):
        real = self.U.pairwise_kernels
        runner = self

        def spy(A, B, *a, **k):
            out = real(A, B, *a, **k)
            for ia, ra in enumerate(np.asarray(A).tolist()):
                for ib, rb in enumerate(np.asarray(B).tolist()):
                    i, j = runner.rowid[tuple(ra)], runner.rowid[tuple(rb)]
                    v = float(out[ia, ib])
                    old = runner.kern.get((i, j))
                    if old is not None and f2bits(old) != f2bits(v):
                        runner.kern_conflict = (i, j, old, v)
                    runner.kern[(i, j)] = v
            return out

        return real, spy

    def call(self, op):
        w = self.w
        real, spy = self._spy_kernels()
        self.U.pairwise_kernels = spy
        try:
            with warnings.catch_warnings():
                warnings.simplefilter("ignore")
                if op["op"] == "F":
                    w.fit(list(op["idx"]), y=None if op["y"] is None else list(op["y"]),
                          sample_weight=None if op["sw"] is None else list(op["sw"]), set_base_clf=op["sb"])
                elif op["op"] == "P":
                    w.partial_fit(list(op["idx"]), y=None if op["y"] is None else list(op["y"]),
                                  sample_weight=None if op["sw"] is None else list(op["sw"]),
                                  use_base_clf=op["ub"], set_base_clf=op["sb"])
                elif op["op"] == "C":
                    w.precompute(list(op["a"]), list(op["b"]), fit_params=op["fp"], pred_params=op["pp"])
            return "ok"
        except Exception as e:
            return err_enum(e)
        finally:
            self.U.pairwise_kernels = real

    def predict(self, kind, q):
        """-> ("ok", array, P-matrix-or-None) | (err, None, None)"""
        PW = classes_()["PWCSpy"]
        del PW.LOG[:]
        try:
            with warnings.catch_warnings():
                warnings.simplefilter("ignore")
                with np.errstate(all="ignore"):
                    r = getattr(self.w, kind)(list(q))
            P = PW.LOG[-1] if PW.LOG else None
            return "ok", np.asarray(r), P
        except Exception as e:
            en = err_enum(e)
            if en == "err attr":      # `clf_` absent: same class as "unfitted" in the model
                en = "err notfitted"
            return en, None, None

    def snap(self):
        w = self.w
        d = w.__dict__

        def data(p):
            if p + "idx_" not in d:
                return None
            sw = d.get(p + "sample_weight_")
            return ([int(i) for i in d[p + "idx_"]], [lab(v) for v in d[p + "y_"]],
                    None if sw is None else [float(x) for x in sw])

        def hist(name):
            c = d.get(name)
            if c is None or not hasattr(c, "classes_"):
                return None
            h = c.__dict__.get("hist_")
            if h is None:
                return "fitted"
            out = []
            for kind, X, y, sw in h:
                out.append((kind, [self.rowid[tuple(r)] for r in X.tolist()], [lab(v) for v in y],
                            None if sw is None else [float(x) for x in sw]))
            return out

        alias = None
        for a, b in (("idx_", "base_idx_"), ("y_", "base_y_"), ("sample_weight_", "base_sample_weight_")):
            if isinstance(d.get(a), np.ndarray) and isinstance(d.get(b), np.ndarray) and np.shares_memory(d[a], d[b]):
                alias = (a, b)
        return dict(cur=data(""), base=data("base_"), clf=hist("clf_"), bclf=hist("base_clf_"), alias=alias)

    # -- references --------------------------------------------------------------------------
    def reference(self, recipe):
        """A fresh copy of the wrapped classifier trained as the recipe says (None = unfitted)."""
        if recipe is None:
            return None
        if recipe in self.ref_cache:
            return self.ref_cache[recipe]
        from sklearn import clone

        def arrays(ts):
            idx = [t[0] for t in ts]
            y = np.array([unlab(t[1]) for t in ts], dtype=float)
            sw = None if (len(ts) == 0 or ts[0][2] is None) else np.array([t[2] for t in ts], dtype=float)
            return self.X[idx], y, sw

        with warnings.catch_warnings():
            warnings.simplefilter("ignore")
            if recipe[0] == "fit":
                A, y, sw = arrays(recipe[1])
                ref = clone(self.orig).fit(A, y, sw)
            else:
                ref = clone(self.orig)
                for k, ts in enumerate(recipe[1]):
                    if k == 0 and ts == "prefit":
                        ref = copy.deepcopy(self.orig)
                        continue
                    A, y, sw = arrays(ts)
                    if k == 0:
                        ref.fit(A, y, sw)
                    elif sw is None:
                        ref.partial_fit(A, y)
                    else:
                        ref.partial_fit(A, y, sample_weight=sw)
        if len(self.ref_cache) > 64:
            self.ref_cache.clear()
        self.ref_cache[recipe] = ref
        return ref


def ref_predict(ref, kind, Xq):
    with warnings.catch_warnings():
        warnings.simplefilter("ignore")
        with np.errstate(all="ignore"):
            return np.asarray(getattr(ref, kind)(Xq))


def same(a, b, exact_only=False):
    """-> 'exact' | 'close' | None"""
    a, b = np.asarray(a, dtype=float), np.asarray(b, dtype=float)
    if a.shape != b.shape:
        return None
    if np.array_equal(a, b, equal_nan=True):
        return "exact"
    if not exact_only and np.allclose(a, b, rtol=1e-12, atol=1e-15, equal_nan=True):
        return "close"
    return None


def label_ok(ref, got, Xq):
    """`predict` breaks exact cost ties with the classifier's random state: accept any tied optimum."""
    try:
        P = ref_predict(ref, "predict_proba", Xq)
        cm = getattr(ref, "cost_matrix_", None)
        if cm is None:
            return False
        costs = P @ cm
        cl = list(np.asarray(ref.classes_, dtype=float))
        for r in range(len(got)):
            j = cl.index(float(got[r]))
            if not costs[r, j] <= costs[r].min() * (1 + 1e-12) + 1e-15:
                return False
        return True
    except Exception:
        return False


# ---------------------------------------------------------------------------------------------

def case_line(case, speed, ops_with_queries, kern):
    n = case["n"]
    native = has_pf(case["kind"]) and not case["ignore_pf"]
    speed_pwc = case["kind"].startswith("pwc") and speed
    head = [
        "iw", str(n), str(int(native)), str(int(case["unique"])), str(int(speed_pwc)),
        " ".join(str(lab(v)) for v in case["y0"]), optl(case["sw0"], f2bits),
    ]
    if case["prefit"] is not None:
        head += ["1", data_tok(case["prefit"])]
    else:
        head += ["0"]
    head += [str(int(case["init_sb"])), ints([int(c) for c in CLASSES])]
    head += [" ".join(f2bits(kern.get((i, j), NAN)) for i in range(n) for j in range(n))]
    head += [str(len(ops_with_queries))] + [op_tok(o) for o in ops_with_queries]
    return " ".join(head)


def is_nontrivial(statuses, ops):
    ok = [o for o, s in zip(ops, statuses) if s == "ok" and o["op"] in "FP"]
    return len(ok) >= 2 and any(o["op"] == "P" for o in ok)


def run_case(ctx, case, pending, oracle=True):
    """Drive the real wrapper(s) through the case, evaluate the property oracle, queue the model line(s).
    `pending` collects (line, expectation list, case, speed)."""
    kind = case["kind"]
    speeds = [False, True] if kind.startswith("pwc") else [bool(case["speed"])]
    runners = [Runner(dict(case, speed=s), s) for s in speeds]
    specs = [Spec(dict(case, speed=s)) for s in speeds]
    n = case["n"]
    X = runners[0].X
    exps = [[("init", r.init_status, None)] for r in runners]
    emitted = [[] for _ in runners]
    if any(r.w is None for r in runners):
        for r, ex, em in zip(runners, exps, emitted):
            pending.append((case_line(case, r.speed, em, r.kern), ex, case, r.speed))
        ctx.count("init_" + runners[0].init_status.replace(" ", "_"))
        return
    for r, ex in zip(runners, exps):
        ex[0] = ("init", "ok", r.snap())
    statuses = []
    stop = False
    dy_exact = kind in ("pwc_dy", "pwc_dy_nn")
    for k, op in enumerate(case["ops"]):
        sts = []
        for r, sp, ex, em in zip(runners, specs, exps, emitted):
            before = r.snap()
            st = r.call(op)
            after = r.snap()
            sts.append(st)
            em.append(op)
            if op["op"] == "C":
                K = r.w.__dict__.get("pwc_K_")
                after = dict(K=None if K is None else np.array(K, copy=True))
            ex.append((op["op"], st, after))
            ctx.count(f"{op['op']}_{st.replace(' ', '_')[:20]}")
            if op["op"] == "C":
                continue
            # ---- property oracle, part 1: a call that raises must leave the object as it was
            if st != "ok":
                if oracle and _state_key(before) != _state_key(after):
                    what = (
                        f"IndexClassifierWrapper.{'fit' if op['op'] == 'F' else 'partial_fit'} raised ({st[4:]}) but changed the object: "
                        f"idx_/y_/sample_weight_ {before['cur']} -> {after['cur']}, clf_ fitted {before['clf'] is not None} -> "
                        f"{after['clf'] is not None}; the rejected call leaks into later fits / predictions"
                    )
                    what += _consequence(r, sp, before)
                    ctx.violate(f"C19/IndexClassifierWrapper.{'fit' if op['op'] == 'F' else 'partial_fit'}/failed-call-changes-state/{st[4:]}",
                                what, dict(case=dict(case, ops=case["ops"][: k + 1], speed=r.speed), at=k))
                    stop = True
                continue
            sp.apply(op)
            if after["alias"] is not None:
                ctx.disagree("value semantics of the model (current and base arrays never share memory)",
                             dict(case=case, at=k), "independent arrays", f"{after['alias']} share memory")
            if not oracle:
                continue
            # ---- part 2: recorded training set = implied multiset
            if not sp.native:
                if mset(triples_of(after["cur"]), n) != mset(sp.cur, n) or (
                    mset(triples_of(after["base"]), n) != mset(sp.base, n)
                ):
                    ctx.violate(
                        f"C19/IndexClassifierWrapper.{'fit' if op['op'] == 'F' else 'partial_fit'}/training-set-differs-from-implied-multiset",
                        f"after call {k} ({op_str(op)}) the object holds cur={after['cur']} base={after['base']} but the call "
                        f"sequence implies cur={sp.cur} base={sp.base}",
                        dict(case=dict(case, ops=case["ops"][: k + 1], speed=r.speed), at=k))
                    stop = True
            if sp.native is False and sp.case["unique"] and after["cur"] is not None:
                ii = [i % n for i in after["cur"][0]]
                if len(set(ii)) < len(ii):
                    ctx.count("unique_mode_holds_one_sample_twice_via_negative_alias")
        statuses.append(sts[0])
        if stop:
            break
        if not oracle:
            if op["op"] != "C":
                _queue_queries(case, k, runners, exps, emitted, ctx)
            continue
        # ---- part 3: predictions = freshly trained reference; speed-up on = off
        q = case["queries"][k % len(case["queries"])]
        Xq = X[q]
        outs = []
        for r, sp, ex, em in zip(runners, specs, exps, emitted):
            res = {}
            for kd in kinds_of(kind):
                em.append(dict(op="Q", kind=kd, q=q))
                st, val, P = r.predict(kd, q)
                ex.append(("Q", st, dict(val=val, P=P, kind=kd)))
                res[kd] = (st, val)
            outs.append(res)
        r0, sp0 = runners[0], specs[0]
        ref = r0.reference(sp0.clf_visible)
        for kd in kinds_of(kind):
            st, val = outs[0][kd]
            bad = None
            if ref is None:
                if st == "ok":
                    bad = f"{kd} answered although no training call has succeeded"
            elif st != "ok":
                bad = f"{kd} raised {st} although the implied training set is {sp0.clf_visible}"
            else:
                want = ref_predict(ref, kd, Xq)
                m = same(val, want)
                if m is None and kd == "predict" and val.shape == want.shape and label_ok(ref, val, Xq):
                    m = "tie"
                if m is None:
                    bad = f"{kd} = {np.asarray(val).tolist()} but a fresh copy trained on the implied multiset gives {want.tolist()}"
                else:
                    ctx.count(f"oracle_{kd}_{m}")
            if bad:
                key = f"C19/IndexClassifierWrapper.{kd}/differs-from-retrained"
                if sts[0] != "ok" and op["op"] in "FP":
                    # the call just made raised, yet the predictions moved: same class as part 1 (seen through the classifier)
                    key = f"C19/IndexClassifierWrapper.{'fit' if op['op'] == 'F' else 'partial_fit'}/failed-call-changes-state/{sts[0][4:]}"
                    bad = f"the call raised ({sts[0][4:]}) but changed the predictions: " + bad
                ctx.violate(key, f"after call {k} ({op_str(op)}): {bad}",
                            dict(case=dict(case, ops=case["ops"][: k + 1], speed=r0.speed), at=k, query=q))
                stop = True
        if len(runners) == 2:
            nv = len(ctx.violations)
            _speed_oracle(ctx, case, k, op, q, Xq, runners, specs, outs, dy_exact)
            if len(ctx.violations) > nv:
                stop = True
        # permuted reference (the property speaks of a multiset): PWC only, exact for the dyadic kernel
        if kind.startswith("pwc") and not kind.endswith("_nn") and sp0.clf is not None and sp0.clf[0] == "fit" and len(sp0.clf[1]) > 1 and outs[0]["predict_freq"][0] == "ok":
            perm = tuple(reversed(sp0.clf[1]))
            refp = r0.reference(("fit", perm))
            m = same(outs[0]["predict_freq"][1], ref_predict(refp, "predict_freq", Xq), exact_only=dy_exact)
            if m is None:
                ctx.violate("C19/IndexClassifierWrapper.predict_freq/depends-on-order-of-multiset",
                            f"after call {k}: predict_freq differs from a fresh copy trained on the reversed training list",
                            dict(case=dict(case, ops=case["ops"][: k + 1], speed=False), at=k, query=q))
            else:
                ctx.count(f"oracle_permuted_{m}")
        if stop:
            break
    if not stop:
        for sp, ex in zip(specs, exps):
            ex.append(("spec", sp, None))
    for r, ex, em in zip(runners, exps, emitted):
        pending.append((case_line(case, r.speed, em, r.kern), ex, case, r.speed))
        if getattr(r, "kern_conflict", None):
            ctx.broken.append(f"pairwise_kernels returned two different values for one pair: {r.kern_conflict}")
    key = (kind, case["ignore_pf"], case["unique"], case["speed"], case["init_sb"], repr(case["prefit"]), repr(case["X"]), repr(case["y0"]),
           repr(case["sw0"]), repr(case["ops"]))
    ctx.case(key, is_nontrivial(statuses, case["ops"]),
             sample=dict(kind=kind, flags=dict(ignore_partial_fit=case["ignore_pf"], enforce_unique=case["unique"], use_speed_up=speeds),
                         n=n, calls=[op_str(o) for o in case["ops"][:6]], statuses=statuses[:6]))
    ctx.count(f"kind_{kind}_{'native' if specs[0].native else 'emulated'}_{'unique' if case['unique'] else 'multi'}")
    ctx.count(f"seq_len_{min(len(case['ops']), 9)}")


def _consequence(r, sp, before):
    """What a caller who catches the exception observes next (best effort, for the report only)."""
    n = r.n
    try:
        ref = r.reference(sp.clf_visible)
        st, val, _ = r.predict("predict_proba", list(range(n)))
        if ref is not None:
            want = ref_predict(ref, "predict_proba", r.X)
            if st != "ok":
                return f" | next: predict_proba raises ({st[4:]}) although the object was fitted before the rejected call"
            if same(val, want) is None:
                return " | next: predict_proba differs from the classifier before the rejected call"
        if sp.native or before["cur"] is None:
            return ""
        used = set(i % n for i in r.snap()["cur"][0])
        j = next((i for i in range(n) if i not in used), 0)
        op = dict(op="P", idx=[j], y=[0.0], sw=None if before["cur"][2] is None and r.sw0 is None else [1.0], ub=False, sb=False)
        st2 = r.call(op)
        if st2 != "ok":
            return f" | next: a following valid partial_fit([{j}], y=[0]) raises too ({st2[4:]})"
        else:
            sp2 = copy.copy(sp)
            sp2.apply(op)
            got = r.snap()["cur"]
            if mset(triples_of(got), n) != mset(sp2.cur, n):
                return (f" | next: a following partial_fit([{j}], y=[0]) trains on idx={got[0]} y={got[1]} — the rejected samples "
                        f"included — while the accepted calls imply {[t[0] for t in sp2.cur]} / {[t[1] for t in sp2.cur]}")
    except Exception as e:
        return f" | (follow-up probe failed: {type(e).__name__})"
    return ""


def _queue_queries(case, k, runners, exps, emitted, ctx):
    """Spy classifiers: one query per call (plan / error correspondence only)."""
    q = case["queries"][k % len(case["queries"])]
    for r, ex, em in zip(runners, exps, emitted):
        kd = kinds_of(case['kind'])[k % 2]
        em.append(dict(op="Q", kind=kd, q=q))
        st, val, P = r.predict(kd, q)
        ex.append(("Q", st, dict(val=val, P=P, kind=kd)))


def _state_key(s):
    def d(x):
        return None if x is None else (tuple(x[0]), tuple(x[1]), fkey(x[2]))

    def h(x):
        if x is None or x == "fitted":
            return x
        return tuple((a, tuple(b), tuple(c), fkey(e)) for a, b, c, e in x)

    return (d(s["cur"]), d(s["base"]), h(s["clf"]), h(s["bclf"]))


def _speed_oracle(ctx, case, k, op, q, Xq, runners, specs, outs, dy_exact):
    """use_speed_up=True must predict exactly like use_speed_up=False whenever it answers; it may only
    refuse (ValueError) when a needed kernel value was never precomputed."""
    r_on = runners[1]
    for kd in KINDS:
        st0, v0 = outs[0][kd]
        st1, v1 = outs[1][kd]
        if st1 == "err nan":
            ctx.count("speedup_refused_missing_kernel")
            continue
        bad = None
        if st0 != st1:
            bad = f"{kd}: use_speed_up=False gives {st0}, use_speed_up=True gives {st1}"
        elif st0 == "ok":
            m = same(v0, v1, exact_only=dy_exact and kd != "predict")
            if m is None and kd == "predict" and np.shape(v0) == np.shape(v1):
                ref = runners[0].reference(specs[0].clf_visible)
                if ref is not None and label_ok(ref, v1, Xq):
                    m = "tie"
            if m is None:
                bad = f"{kd}: use_speed_up=False gives {np.asarray(v0).tolist()}, use_speed_up=True gives {np.asarray(v1).tolist()}"
            else:
                ctx.count(f"oracle_speed_{kd}_{m}")
        if bad:
            pre = case["prefit"] is not None and specs[1].cur is None
            key = (f"C19/IndexClassifierWrapper.{kd}/speedup-prefitted-returns-proba" if pre and kd != "predict_proba"
                   else f"C19/IndexClassifierWrapper.{kd}/speedup-changes-prediction")
            ctx.violate(key, f"after call {k} ({op_str(op)}): {bad}",
                        dict(case=dict(case, ops=case["ops"][: k + 1]), at=k, query=q, both_speeds=True))


# ---------------------------------------------------------------------------------------------
# comparing with the model

def compare(ctx, line, out, exps, case, speed):
    segs = out.split(" || ")
    what = "SkaModel.Core.IndexWrapper vs skactiveml.pool.utils.IndexClassifierWrapper"
    info = dict(case=case, speed=speed)
    if out.startswith("bad-op"):
        ctx.disagree(what, dict(info, line=line[:400]), out, "(driver could not parse the case)")
        return
    spec = None
    if exps and exps[-1][0] == "spec":
        spec = exps[-1][1]
        exps = exps[:-1]
    if len(segs) != len(exps):
        ctx.disagree(what, dict(info, line=line[:400]), f"{len(segs)} segments", f"{len(exps)} calls")
        return
    n = case["n"]
    last_state = None
    for k, (seg, (opk, st, obs)) in enumerate(zip(segs, exps)):
        try:
            m = parse_segment(seg)
        except Exception as e:
            ctx.disagree(what, dict(info, at=k), seg[:300], f"unparsable model output: {e}")
            return
        where = dict(info, at=k - 1, call=opk)
        if m["status"] != st:
            ctx.disagree(what + " (exception raised)", where, m["status"], st)
            return
        if opk == "init":
            if st != "ok":
                return
        if "state" in m and obs is not None:
            ms = m["state"]
            last_state = ms
            for nm in ("cur", "base"):
                a, b = ms[nm], obs[nm]
                if (a is None) != (b is None) or (a is not None and (a[0] != b[0] or a[1] != b[1] or fkey(a[2]) != fkey(b[2]))):
                    ctx.disagree(what + f" ({'idx_, y_, sample_weight_' if nm == 'cur' else 'base_idx_, base_y_, base_sample_weight_'})", where, a, b)
                    return
            for nm in ("clf", "bclf"):
                a, b = ms[nm], obs[nm]
                if (a is None) != (b is None):
                    ctx.disagree(what + f" ({nm} fitted?)", where, a, b)
                    return
                if a is not None and b != "fitted":
                    ma = [(("F" if j == 0 else "P"), [i % n for i in d[0]], d[1], fkey(d[2])) for j, d in enumerate(a)]
                    mb = [(kd, ii, yy, fkey(sw)) for kd, ii, yy, sw in b]
                    if ma != mb:
                        ctx.disagree(what + f" ({nm}: what the wrapped classifier was trained on)", where, ma, mb)
                        return
        if "tab" in m and obs is not None and obs.get("K") is not None:
            mk = ["nan" if t == "nan" else t for t in m["tab"]]
            rk = [f2bits(v) for v in np.asarray(obs["K"]).ravel()]
            if mk != rk:
                ctx.disagree(what + " (pwc_K_ after precompute)", where, mk, rk)
                return
        if opk == "Q" and st == "ok":
            if m["plan"] == "table":
                P = obs["P"]
                if P is None or [f2bits(v) for v in np.asarray(P).ravel()] != [f2bits(v) for row in m["rows"] for v in row] or (
                    np.asarray(P).shape != (len(m["rows"]), len(m["rows"][0]) if m["rows"] else 0)
                ):
                    ctx.disagree(what + " (kernel rows handed to the precomputed clone)", where, m["rows"], None if P is None else np.asarray(P).tolist())
                    return
                if obs["kind"] == "predict_freq" and case["kind"] == "pwc_dy":
                    if [f2bits(v) for v in np.asarray(obs["val"]).ravel()] != [f2bits(v) for row in m["freq"] for v in row]:
                        ctx.disagree(what + " (frequencies through the table)", where, m["freq"], np.asarray(obs["val"]).tolist())
                        return
            ctx.count("plan_" + m["plan"] + ("_kind_changed" if m["kind"] != obs["kind"] else ""))
    # the python mirror of the specification must agree with the model on runs without a corrupting exception
    if spec is not None and last_state is not None and not spec.native:
        if mset(triples_of(last_state["cur"]), n) != mset(spec.cur, n) or mset(triples_of(last_state["base"]), n) != mset(spec.base, n):
            ctx.broken.append(f"python specification mirror disagrees with the Lean model on a clean run: {last_state} vs cur={spec.cur} base={spec.base}")


# ---------------------------------------------------------------------------------------------
# generators

WEIGHTS = [0.25, 0.5, 1.0, 1.0, 2.0, 3.0]
LABELS = [0.0, 1.0, 2.0, NAN]


def gen_idx(rng, n, unique, p_bad=0.02):
    k = rng.randint(1, min(3, n))
    idx = rng.sample(range(n), k)
    r = rng.random()
    if r < p_bad:
        idx[rng.randrange(k)] = rng.choice([n, n + 1])
    elif r < 2 * p_bad:
        idx[rng.randrange(k)] = rng.choice([-n - 1, -n - 2])
    elif r < 4 * p_bad:
        j = rng.randrange(k)
        idx[j] = idx[j] - n
    elif r < 5.5 * p_bad:
        idx.append(rng.choice(idx))
    elif r < 5.8 * p_bad:
        idx = []
    return idx


def gen_ops(rng, case, length):
    n = case["n"]
    given = case["sw0"] is None and rng.random() < 0.45     # weights passed explicitly throughout
    ops = []
    base_set = case["init_sb"]
    for k in range(length):
        first = k == 0
        is_fit = rng.random() < (0.9 if first else 0.15)
        idx = gen_idx(rng, n, case["unique"])
        y = None
        if rng.random() < 0.5:
            y = [rng.choice(LABELS) for _ in idx]
            if rng.random() < 0.04:
                y = y + [1.0]
        sw = None
        use_given = given if rng.random() > 0.05 else not given
        if case["sw0"] is not None:
            use_given = rng.random() < 0.4
        if use_given:
            sw = [rng.choice(WEIGHTS) for _ in idx]
            if rng.random() < 0.04:
                sw = sw[:-1] if len(sw) > 1 else sw + [1.0]
        sb = rng.random() < (0.3 if base_set else 0.6)
        if is_fit:
            ops.append(dict(op="F", idx=idx, y=y, sw=sw, sb=sb))
        else:
            ops.append(dict(op="P", idx=idx, y=y, sw=sw, ub=rng.random() < (0.5 if base_set else 0.06), sb=sb))
        base_set = base_set or sb
        if case["kind"].startswith("pwc") and rng.random() < 0.08:
            ops.append(gen_pre(rng, n))
    return ops


def gen_pre(rng, n, full=False):
    if full:
        return dict(op="C", a=list(range(n)), b=list(range(n)), fp="all", pp="all")
    a = gen_idx(rng, n, False, p_bad=0.03)
    b = gen_idx(rng, n, False, p_bad=0.03)
    if rng.random() < 0.5:
        a = list(range(n))
    fp = rng.choice(["all", "all", "labeled", "unlabeled"] + (["bogus"] if rng.random() < 0.1 else []))
    pp = rng.choice(["all", "all", "labeled", "unlabeled"] + (["bogus"] if rng.random() < 0.1 else []))
    return dict(op="C", a=a, b=b, fp=fp, pp=pp)


def gen_case(rng, kind=None, length=None):
    kind = kind or rng.choice(["spy", "spy", "spypf", "spypf", "pwc_rbf", "pwc_dy", "pwc_dy", "pwc_dy_nn", "gnb"])
    n = rng.randint(3, 6)
    pts = rng.sample([(a, b) for a in range(4) for b in range(3)], n)
    y0 = [rng.choice(LABELS) for _ in range(n)]
    sw0 = [rng.choice(WEIGHTS) for _ in range(n)] if rng.random() < 0.35 else None
    case = dict(kind=kind, n=n, X=[list(map(float, p)) for p in pts], y0=y0, sw0=sw0,
                ignore_pf=rng.random() < 0.5, unique=rng.random() < 0.5, speed=rng.random() < 0.5,
                prefit=None, init_sb=False)
    if rng.random() < 0.15:
        k = rng.randint(1, n)
        idx = rng.sample(range(n), k)
        case["prefit"] = (idx, [rng.choice(LABELS) for _ in idx], None)
        case["init_sb"] = rng.random() < 0.5
    elif rng.random() < 0.03:
        case["init_sb"] = True          # NotFittedError in __init__
    ops = gen_ops(rng, case, length or rng.randint(2, 8))
    if kind.startswith("pwc"):
        if rng.random() < 0.8:
            ops = [gen_pre(rng, n, full=True)] + ops
        else:
            ops = [gen_pre(rng, n) for _ in range(rng.randint(0, 3))] + ops
    case["ops"] = ops
    qs = [list(range(n))]
    for _ in range(2):
        q = rng.sample(range(n), rng.randint(1, n))
        if rng.random() < 0.3:
            q[0] -= n
        qs.append(q)
    case["queries"] = qs
    return case


# exhaustive small scope -------------------------------------------------------------------------

def small_alphabet(weights):
    """Calls over 4 samples: two fits and partial fits of one or two indices with / without label override,
    from the current or the base model, with / without storing the result as the new base."""
    w1 = [2.0] if weights else None
    w2 = [0.5, 1.0] if weights else None
    A = [
        dict(op="F", idx=[0, 1], y=None, sw=w2, sb=True),
        dict(op="F", idx=[2, 0], y=[1.0, 2.0], sw=w2, sb=False),
    ]
    for ub in (False, True):
        for sb in (False, True):
            A.append(dict(op="P", idx=[2], y=None, sw=w1, ub=ub, sb=sb))
            A.append(dict(op="P", idx=[0], y=[2.0], sw=w1, ub=ub, sb=sb))
        A.append(dict(op="P", idx=[3, 1], y=[0.0, NAN], sw=w2, ub=ub, sb=False))
    return A


def exhaustive(ctx, pending, flush):
    X = [[0.0, 0.0], [1.0, 0.0], [0.0, 2.0], [3.0, 1.0]]
    y0 = [0.0, 1.0, NAN, 1.0]
    total = 0
    for kind, maxlen, oracle in (("spy", 4, True), ("spypf", 4, True), ("pwc_dy", 3, True)):
        for weights in (False, True):
            A = small_alphabet(weights)
            for unique in (False, True):
                for ignore_pf in ((False, True) if kind == "spypf" else (False,)):
                    # spypf with ignore_partial_fit=True repeats the emulated path of `spy`: one length less
                    for L in range(1, (maxlen if not ignore_pf else maxlen - 1) + 1):
                        for seq in itertools.product(range(len(A)), repeat=L):
                            ops = [A[i] for i in seq]
                            if kind == "pwc_dy":
                                ops = [dict(op="C", a=[0, 1, 2, 3], b=[0, 1, 2, 3], fp="all", pp="all")] + ops
                            case = dict(kind=kind, n=4, X=X, y0=y0, sw0=None, ignore_pf=ignore_pf, unique=unique, speed=False,
                                        prefit=None, init_sb=False, ops=ops, queries=[[0, 1, 2, 3]])
                            run_case(ctx, case, pending, oracle=oracle)
                            total += 1
                            if len(pending) >= 4000:
                                flush()
    ctx.notes["exhaustive_subrun"] = (
        f"all call sequences up to length 4 (ParzenWindowClassifier with both speed-up settings, and the spy with native "
        f"partial_fit ignored: up to length 3) over 4 samples "
        f"from an alphabet of {len(small_alphabet(False))} calls x weights None/given x enforce_unique_samples x "
        f"ignore_partial_fit: {total} sequences"
    )
    ctx.exhaustive = False


# ---------------------------------------------------------------------------------------------

def probes(ctx, pending):
    """Fixed cases for the corners the random generator reaches only now and then (several are regression guards
    for defects repaired in /repo: 1805c2fd speed-up fallback, 4cfa9b0d atomic partial_fit)."""
    X = [[0.0, 0.0], [1.0, 0.0], [0.0, 2.0], [3.0, 1.0]]
    y0 = [0.0, 1.0, NAN, 1.0]
    base = dict(n=4, X=X, y0=y0, sw0=None, ignore_pf=False, unique=False, speed=False, prefit=None, init_sb=False,
                queries=[[0, 1, 2, 3]])
    full = dict(op="C", a=[0, 1, 2, 3], b=[0, 1, 2, 3], fp="all", pp="all")
    F = dict(op="F", idx=[0, 1], y=None, sw=None, sb=True)
    cases = [
        # weights None so far, then given -> ValueError from _concat_sw after idx_/y_ were extended
        dict(base, kind="spy", ops=[F, dict(op="P", idx=[2], y=[1.0], sw=[1.0], ub=False, sb=False), dict(op="P", idx=[3], y=None, sw=None, ub=False, sb=False)]),
        dict(base, kind="pwc_dy", ops=[full, F, dict(op="P", idx=[2], y=[1.0], sw=[1.0], ub=True, sb=False)]),
        # base classifier from __init__, then fit, then partial_fit(use_base_clf=True)
        dict(base, kind="spy", prefit=([0, 1, 3], [0.0, 1.0, 1.0], None), init_sb=True,
             ops=[dict(F, sb=False), dict(op="P", idx=[2], y=[1.0], sw=None, ub=True, sb=False)]),
        # pre-fitted ParzenWindowClassifier, no fit through the wrapper: predictions with / without speed-up
        # (regression guard for /repo commit 1805c2fd: predict / predict_freq used to return predict_proba)
        dict(base, kind="pwc_rbf", prefit=([0, 1, 3], [0.0, 1.0, 1.0], None), ops=[full]),
        dict(base, kind="pwc_dy", prefit=([0, 1, 3], [0.0, 1.0, 1.0], None), init_sb=True, ops=[full, dict(op="C", a=[0], b=[1], fp="bogus", pp="all")]),
        # index below -n passes the validation when labels and weights are given
        dict(base, kind="spy", ops=[F, dict(op="P", idx=[-5], y=[1.0], sw=None, ub=False, sb=False)]),
        dict(base, kind="spypf", ops=[F, dict(op="P", idx=[-5], y=[1.0], sw=None, ub=True, sb=False)]),
        # replacement semantics of enforce_unique_samples incl. restoring the constructor's label
        dict(base, kind="pwc_dy", unique=True, ops=[full, F, dict(op="P", idx=[1, 2], y=[2.0, 0.0], sw=None, ub=False, sb=True),
                                                   dict(op="P", idx=[1], y=None, sw=None, ub=False, sb=False),
                                                   dict(op="P", idx=[3], y=None, sw=None, ub=True, sb=False)]),
        # partial precompute: the speed-up must refuse, not guess
        dict(base, kind="pwc_rbf", ops=[dict(op="C", a=[0, 1], b=[0, 1, 2], fp="all", pp="all"), F,
                                        dict(op="P", idx=[3], y=None, sw=None, ub=False, sb=False)],
             queries=[[0, 1, 2], [3]]),
        dict(base, kind="gnb", ops=[F, dict(op="P", idx=[2, 3], y=[2.0, 0.0], sw=None, ub=False, sb=True),
                                    dict(op="P", idx=[1], y=[0.0], sw=None, ub=True, sb=False)]),
        dict(base, kind="gnb", ignore_pf=True, unique=True, sw0=[1.0, 2.0, 0.5, 1.0],
             ops=[F, dict(op="P", idx=[2, 1], y=[2.0, 0.0], sw=None, ub=False, sb=True),
                  dict(op="P", idx=[1], y=None, sw=[3.0], ub=True, sb=False)]),
    ]
    for c in cases:
        run_case(ctx, c, pending)


def generate(ctx):
    from ..translate import pywrapper

    pywrapper.generate(ctx)


def gen_merge_correspond(ctx, n_cases):
    """The block translated from the current source (`Gen/WrapperGen.lean`: cur_idx / new_idx / new_y / new_sample_weight of
    the emulated partial_fit) executed against the real `partial_fit`: a recording classifier without native partial_fit is
    fitted, optionally updated once, then updated from the current or the base record; the record the real object holds
    afterwards (or the exception) must be the translated block's result on the record it held before."""
    import os

    from skactiveml.pool.utils import IndexClassifierWrapper

    if not (getattr(ctx, "gen_ok", False) and os.path.exists(vlib.WRAPGENDRIVER)):
        return
    rng = ctx.rng
    lines, expect = [], []

    def lst(xs):
        return f"{len(xs)} " + " ".join((str(int(x)) if x == x else "nan") for x in xs) if len(xs) else "0"

    def opt(xs):
        return "0" if xs is None else "1 " + lst(xs)

    for _ in range(n_cases):
        n = rng.randint(3, 9)
        unique = rng.random() < 0.6
        weighted0 = rng.random() < 0.5
        X = np.arange(2 * n, dtype=float).reshape(n, 2)
        y_full = np.array([float(rng.randrange(3)) for _ in range(n)])
        sw_full = np.array([float(rng.randint(1, 4)) for _ in range(n)]) if weighted0 else None
        clf = make_clf("spy")
        w = IndexClassifierWrapper(clf, X, y_full, sample_weight=sw_full, set_base_clf=False, ignore_partial_fit=True,
                                   enforce_unique_samples=unique, use_speed_up=False, missing_label=NAN)
        k0 = rng.randint(1, n - 1)
        idx0 = rng.sample(range(n), k0) if unique else [rng.randrange(n) for _ in range(k0)]
        use_base = rng.random() < 0.4
        try:
            with warnings.catch_warnings():
                warnings.simplefilter("ignore")
                w.fit(idx0, set_base_clf=use_base)
                if rng.random() < 0.5:
                    k1 = rng.randint(1, 2)
                    i1 = rng.sample(range(n), k1)
                    w.partial_fit(i1, y=[float(rng.randrange(3)) for _ in i1],
                                  sample_weight=[float(rng.randint(1, 4)) for _ in i1] if weighted0 else None)
        except Exception as e:  # noqa: BLE001
            ctx.count("generated_model_setup_raised")
            continue
        pre = ("base_" if use_base else "")
        idx_ = list(getattr(w, pre + "idx_"))
        y_ = list(getattr(w, pre + "y_"))
        sw_ = getattr(w, pre + "sample_weight_")
        sw_ = None if sw_ is None else list(sw_)
        ka = rng.randint(1, 3)
        add_idx = rng.sample(range(n), ka) if (unique or rng.random() < 0.5) else [rng.randrange(n) for _ in range(ka)]
        # re-add a known sample more often than chance would
        if rng.random() < 0.5:
            add_idx[0] = int(rng.choice(idx_))
            if unique and len(set(add_idx)) < len(add_idx):
                add_idx = list(dict.fromkeys(add_idx))
        add_y = [float(rng.randrange(3)) for _ in add_idx]
        r = rng.random()
        add_sw = ([float(rng.randint(1, 4)) for _ in add_idx] if (sw_ is not None) == (r < 0.85) else None)
        try:
            with warnings.catch_warnings():
                warnings.simplefilter("ignore")
                w.partial_fit(add_idx, y=add_y, sample_weight=add_sw, use_base_clf=use_base)
            swn = w.sample_weight_
            def tv(v):
                return str(int(v)) if v == v else "nan"

            impl = "ok " + " ".join(tv(v) for v in w.idx_) + " | " + " ".join(tv(v) for v in w.y_) + " | " + \
                   ("none" if swn is None else " ".join(tv(v) for v in swn))
        except Exception as e:  # noqa: BLE001
            impl = err_enum(e)
        ctx.count("generated_model_cases")
        ctx.count("generated_model_" + impl.split()[0] + ("_" + impl.split()[1] if impl.startswith("err") else ""))
        if set(add_idx) & set(idx_):
            ctx.count("generated_model_readded_sample")
        # what the block receives: `sample_weight=None` is resolved from the constructor's weights before it
        blk_sw = add_sw if (add_sw is not None or sw_full is None) else [float(sw_full[i]) for i in add_idx]
        lines.append(f"g_iw_merge {int(unique)} {lst(idx_)} {lst(y_)} {opt(sw_)} {lst(add_idx)} {lst(add_y)} {opt(blk_sw)}")
        expect.append((impl, dict(unique=unique, idx_=idx_, y_=y_, sw_=sw_, add_idx=add_idx, add_y=add_y, add_sw=add_sw, use_base=use_base)))
    outs = vlib.run_driver(lines, exe=vlib.WRAPGENDRIVER)
    for line, out, (impl, case) in zip(lines, outs, expect):
        if out.split() != impl.split():
            ctx.disagree("SkaModel.Gen.WrapperGen (translated from the current source) vs IndexClassifierWrapper.partial_fit",
                         dict(case, line=line), out, impl)
    gen_store_correspond(ctx, n_cases)


def gen_store_correspond(ctx, n_cases):
    """The attribute-storing tail of `fit` translated from the current source, executed on the attributes the real object held
    before a real `fit` call and on what the recording classifier was fitted on; compared with the attributes it holds after."""
    from skactiveml.pool.utils import IndexClassifierWrapper

    rng = ctx.rng
    ATTRS = ["idx_", "y_", "sample_weight_", "base_idx_", "base_y_", "base_sample_weight_"]

    def tv(v):
        return str(int(v)) if v == v else "nan"

    def lst(xs):
        return f"{len(xs)} " + " ".join(tv(x) for x in xs) if len(xs) else "0"

    def enc(w, a):
        if a not in w.__dict__:
            return "0"
        v = w.__dict__[a]
        if a.endswith("sample_weight_"):
            return "1 0" if v is None else "1 1 " + lst(v)
        return "1 " + lst(v)

    def show(w):
        def sh(a):
            if a not in w.__dict__:
                return "absent"
            v = w.__dict__[a]
            return "None" if v is None else "[" + " ".join(tv(x) for x in v) + "]"

        return (f"clf {int('clf_' in w.__dict__)} | {sh('idx_')} | {sh('y_')} | {sh('sample_weight_')} | "
                f"base {int('base_clf_' in w.__dict__)} | {sh('base_idx_')} | {sh('base_y_')} | {sh('base_sample_weight_')}")

    lines, expect = [], []
    for _ in range(n_cases):
        n = rng.randint(3, 8)
        native = rng.random() < 0.4
        X = np.arange(2 * n, dtype=float).reshape(n, 2)
        y_full = np.array([float(rng.randrange(3)) for _ in range(n)])
        sw_full = np.array([float(rng.randint(1, 4)) for _ in range(n)]) if rng.random() < 0.5 else None
        w = IndexClassifierWrapper(make_clf("spypf" if native else "spy"), X, y_full, sample_weight=sw_full, set_base_clf=False,
                                   ignore_partial_fit=False, enforce_unique_samples=False, use_speed_up=False, missing_label=NAN)

        def args():
            k = rng.randint(1, n)
            idx = [rng.randrange(n) for _ in range(k)]
            y = None if rng.random() < 0.5 else [float(rng.randrange(3)) for _ in idx]
            sw = None if rng.random() < 0.5 else [float(rng.randint(1, 4)) for _ in idx]
            return idx, y, sw

        try:
            with warnings.catch_warnings():
                warnings.simplefilter("ignore")
                for _k in range(rng.choice([0, 1, 1, 2])):     # earlier calls: the attributes the tail starts from
                    i0, y0, s0 = args()
                    w.fit(i0, y=y0, sample_weight=s0, set_base_clf=rng.random() < 0.4)
                pre = [enc(w, a) for a in ATTRS]
                pre_base_clf = int("base_clf_" in w.__dict__)
                idx, y, sw = args()
                sb = rng.random() < 0.5
                w.fit(idx, y=y, sample_weight=sw, set_base_clf=sb)
        except Exception:  # noqa: BLE001
            ctx.count("generated_store_setup_raised")
            continue
        rec = w.clf_.hist_[0]      # what the wrapped classifier was fitted on: (kind, X, y, sample_weight)
        yy, ww = list(rec[2]), (None if rec[3] is None else list(rec[3]))
        ctx.count("generated_store_cases")
        ctx.count(f"generated_store_native{int(native)}_setbase{int(sb)}")
        lines.append(f"g_iw_store {int(native)} {int(sb)} {pre[0]} {pre[1]} {pre[2]} {pre_base_clf} {pre[3]} {pre[4]} {pre[5]} "
                     f"{lst(idx)} {lst(yy)} {'0' if ww is None else '1 ' + lst(ww)}")
        expect.append((show(w), dict(native=native, set_base_clf=sb, idx=idx)))
    outs = vlib.run_driver(lines, exe=vlib.WRAPGENDRIVER)
    for line, out, (impl, case) in zip(lines, outs, expect):
        if out.split() != impl.split():
            ctx.disagree("SkaModel.Gen.WrapperGen fit.store (translated from the current source) vs IndexClassifierWrapper.fit",
                         dict(case, line=line), out, impl)
    gen_native_correspond(ctx, n_cases)


def gen_native_correspond(ctx, n_cases):
    """The native branch of `partial_fit` translated from the current source, executed on the recording classifier's histories
    (`clf_`, `base_clf_`) the real object held before a real `partial_fit` and compared with the histories it holds afterwards
    (which native calls each classifier object has received: sharing or a missing deep copy shows up as a longer history)."""
    from skactiveml.pool.utils import IndexClassifierWrapper

    rng = ctx.rng

    def hist(w, a):
        """the index lists of the calls the classifier object behind attribute `a` has received (None: attribute absent)"""
        if a not in w.__dict__:
            return None
        return [[int(r[0] // 2) for r in rec[1]] for rec in w.__dict__[a].hist_]

    def enc(h):
        return "0" if h is None else f"1 {len(h)} " + " ".join(f"{len(x)} " + " ".join(map(str, x)) for x in h)

    def show(h):
        return "absent" if h is None else " ; ".join(" ".join(map(str, x)) for x in h)

    lines, expect = [], []
    for _ in range(n_cases):
        n = rng.randint(3, 8)
        X = np.arange(2 * n, dtype=float).reshape(n, 2)
        y_full = np.array([float(rng.randrange(3)) for _ in range(n)])
        sw_full = np.array([float(rng.randint(1, 4)) for _ in range(n)]) if rng.random() < 0.5 else None
        w = IndexClassifierWrapper(make_clf("spypf"), X, y_full, sample_weight=sw_full, set_base_clf=False, ignore_partial_fit=False,
                                   enforce_unique_samples=False, use_speed_up=False, missing_label=NAN)

        def args(neg=False):
            k = rng.randint(1, n)
            idx = [rng.randrange((-n - (2 if rng.random() < 0.15 else 0)) if neg else 0, n) for _ in range(k)]
            y = None if rng.random() < 0.5 else [float(rng.randrange(3)) for _ in idx]
            sw = None if rng.random() < 0.5 else [float(rng.randint(1, 4)) for _ in idx]
            return idx, y, sw

        try:
            with warnings.catch_warnings():
                warnings.simplefilter("ignore")
                i0, y0, s0 = args()
                w.fit(i0, y=y0, sample_weight=s0, set_base_clf=rng.random() < 0.6)
                for _k in range(rng.choice([0, 1, 2])):
                    i1, y1, s1 = args()
                    w.partial_fit(i1, y=y1, sample_weight=s1, use_base_clf=("base_clf_" in w.__dict__ and rng.random() < 0.4),
                                  set_base_clf=rng.random() < 0.3)
        except Exception:  # noqa: BLE001
            ctx.count("generated_native_setup_raised")
            continue
        pre_c, pre_b = hist(w, "clf_"), hist(w, "base_clf_")
        idx, y, sw = args(neg=True)
        ub = pre_b is not None and rng.random() < 0.5
        sb = rng.random() < 0.5
        try:
            with warnings.catch_warnings():
                warnings.simplefilter("ignore")
                w.partial_fit(idx, y=y, sample_weight=sw, use_base_clf=ub, set_base_clf=sb)
            impl = f"clf {show(hist(w, 'clf_'))} | base {show(hist(w, 'base_clf_'))}"
        except Exception as e:  # noqa: BLE001
            impl = err_enum(e)
        if impl.startswith("err") and impl != "err index":
            ctx.count("generated_native_rejected_by_validation")     # raised before the branch (argument checks)
            continue
        ctx.count("generated_native_cases")
        ctx.count(f"generated_native_usebase{int(ub)}_setbase{int(sb)}" + ("_indexerror" if impl.startswith("err") else ""))
        blk_sw = sw if (sw is not None or sw_full is None) else [1.0] * len(idx)     # only its None-ness matters to the branch
        lines.append(f"g_iw_native {n} {int(ub)} {int(sb)} {enc(pre_c)} {enc(pre_b)} {len(idx)} " + " ".join(map(str, idx))
                     + f" {len(idx)} " + " ".join("0" for _ in idx) + (" 0" if blk_sw is None else f" 1 {len(idx)} " + " ".join("1" for _ in idx)))
        expect.append((impl, dict(n=n, use_base_clf=ub, set_base_clf=sb, idx=idx)))
    outs = vlib.run_driver([" ".join(l.split()) for l in lines], exe=vlib.WRAPGENDRIVER)
    for line, out, (impl, case) in zip(lines, outs, expect):
        # the recording classifier sees rows of X, the model index values: numpy's wrap-around of negative indices
        out = " ".join((str(int(t) + case["n"]) if t.lstrip("-").isdigit() and int(t) < 0 else t) for t in out.split())
        if out.split() != impl.split():
            ctx.disagree("SkaModel.Gen.WrapperGen partial_fit.native (translated from the current source) vs IndexClassifierWrapper.partial_fit",
                         dict(case, line=line), out, impl)


def correspond(ctx):
    rng = ctx.rng
    pending = []

    def flush():
        if not pending:
            return
        outs = vlib.run_driver([p[0] for p in pending])
        for (line, exps, case, speed), out in zip(pending, outs):
            compare(ctx, line, out, exps, case, speed)
        del pending[:]

    probes(ctx, pending)
    n_rand = 500 if not ctx.thorough else 4000
    for _ in range(n_rand):
        run_case(ctx, gen_case(rng), pending)
        if len(pending) >= 4000:
            flush()
    flush()
    if ctx.thorough:
        exhaustive(ctx, pending, flush)
        flush()
    gen_merge_correspond(ctx, 400 if not ctx.thorough else 4000)
    c = classes_()
    ctx.notes["spy_fit_calls"] = c.get("n_fit", 0)
    ctx.notes["spy_partial_fit_calls"] = c.get("n_pfit", 0)


def search(ctx):
    """Deeper failing-input search on the implementation alone (only when a tie broke): long random call
    sequences through the property oracle."""
    rng = ctx.rng
    pending = []
    for _ in range(3000):
        run_case(ctx, gen_case(rng, length=rng.randint(3, 12)), pending)
        del pending[:]
        if ctx.violations:
            return


def _decode(x):
    if isinstance(x, list):
        return [_decode(v) for v in x]
    if isinstance(x, dict):
        return {k: _decode(v) for k, v in x.items()}
    if x == "nan":
        return NAN
    return x


def replay(payload):
    """Re-run a recorded failing call sequence on the real code and print what happens."""
    ctx = vlib.Ctx("C19", "quick", 0)
    r = _decode(payload.get("replay", {}))
    case = r.get("case")
    if not case:
        print("nothing to replay")
        return 1
    if case.get("prefit") is not None:
        case["prefit"] = tuple(case["prefit"])
    case.setdefault("queries", [list(range(case["n"]))])
    if "query" in r:
        k = len(case["ops"]) - 1
        case["queries"] = [r["query"]] * (k + 1)
    print("classifier:", case["kind"], "| ignore_partial_fit:", case["ignore_pf"], "| enforce_unique_samples:", case["unique"],
          "| use_speed_up:", "both" if case["kind"].startswith("pwc") else case.get("speed"), "| pre-fitted on:", case.get("prefit"))
    for o in case["ops"]:
        print("  " + op_str(o))
    pending = []
    run_case(ctx, case, pending)
    for v in ctx.violations:
        print("REPRODUCED:", v["key"], "-", v["what"][:400])
    return 1 if ctx.violations else 0
