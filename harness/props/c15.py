"""C15 — regressor predictions are coherent with their predictive distribution.

Correspondence of the NIC posterior (maximum-likelihood update, conjugate combination, scale), the
wrapper fallback statistics / decision logic, the tuple shape of `predict` and the transposition of
`sample_y` with the Lean model `SkaModel/Core/Regressor.lean`; property oracle on the real outputs of
NICKernelRegressor, NadarayaWatsonRegressor, SklearnRegressor and SklearnNormalRegressor."""
import warnings

import numpy as np

from .. import vlib
from ..vlib import f2bits
from .c11 import canon, dy

LEAN_TARGETS = ["SkaModel.Props.C15"]
LEVEL = "proof"
RULE = (
    "cases: (fit, predict_target_distribution, predict with all four flag combinations, sample_y twice with one seed) of "
    "NICKernelRegressor / NadarayaWatsonRegressor with table-driven dyadic kernels (pairwise_kernels replaced by a recorded "
    "table, so N and k.y are exact) and with real rbf kernels (oracle only), priors incl. kappa_0 = 0 / nu_0 <= 2, training sets "
    "with 0, 1, 2 and more labels and optional weights; SklearnRegressor / SklearnNormalRegressor around LinearRegression, "
    "DecisionTreeRegressor, BayesianRidge, GaussianProcessRegressor and spy estimators that fit or raise, with 0/1/2+ labels. "
    "non-trivial = at least one labeled sample; distinct = distinct (regressor, config) tuples"
)
ASSUMPTIONS = [
    "kernels are non-negative with positive mass at every query point whenever labels exist (rbf underflow far from all data is a "
    "named runtime limit; rows of zero kernel mass are counted and excluded from the std clause)",
    "the clause 'at least two labeled samples' refers to the wrapper fallback statistics; for the kernel regressors finiteness of "
    "the std is demanded under a proper prior (kappa_0 > 0, nu_0 > 2, sigma_sq_0 > 0) and for NadarayaWatson with at least one label",
    "a fitted wrapped estimator returns a finite, non-negative std of its own (checked per case; BayesianRidge with constant labels "
    "and sample weights returns NaN by itself and is counted, not judged)",
    "the posterior std of the table-kernel cases is compared with exact rational arithmetic up to 1e-6 relative (incl. labels of "
    "order 1e9 with unit spread; the two-pass variance of the code is accurate to about 1e-9 there)",
    "bit-exact comparison of posterior parameters needs dyadic kernels / labels / weights and fewer than 8 labeled samples "
    "(numpy then sums left to right)",
]
TRUSTED = ["scipy.stats frozen distributions (mean/std/entropy/rvs) are functions of their parameters and the seed"]


def ref_post_std(prior, krow, ylab, wlab):
    """Exact (fractions.Fraction) posterior standard deviation of the predictive Student-t for one query point, or None when
    it is not defined (nu_post <= 2, no kernel mass, kappa_post = 0)."""
    from fractions import Fraction as Fr
    import math

    k0, n0, m0, s0 = (Fr(float(v)) for v in prior)
    k = [Fr(float(a)) * (Fr(float(b)) if wlab is not None else 1) for a, b in zip(krow, wlab if wlab is not None else krow)]
    y = [Fr(float(v)) for v in ylab]
    if len(y):
        N = sum(k)
        if N <= 0:
            return None
        mu = sum(a * b for a, b in zip(k, y)) / N
        var = sum(a * (b - mu) ** 2 for a, b in zip(k, y)) / N
        ku, nu_, mu_u, su = N, N, mu, var
    else:
        ku = nu_ = mu_u = su = Fr(0)
    kap, nu = k0 + ku, n0 + nu_
    if kap <= 0 or nu <= 2:
        return None
    scatter = n0 * s0 + nu_ * su + k0 * ku * (m0 - mu_u) ** 2 / kap
    sig = scatter / nu
    var_t = nu / (nu - 2) * (1 + kap) / kap * sig
    return math.sqrt(var_t) if var_t > 0 else 0.0


def fb(xs):
    return " ".join(f2bits(x) for x in np.asarray(xs, dtype=float).ravel())


def ofb(xs):
    return " ".join(f2bits(float(x) + 0.0) for x in np.asarray(xs, dtype=float).ravel())


def viol(ctx, cls, method, kind, what, cfg, pre=None):
    ctx.violate(f"C15/{cls}.{method}/{kind}" + (f"/{pre}" if pre else ""), what, dict(cfg, _cls=cls))


def same(a, b):
    a, b = np.asarray(a, dtype=float), np.asarray(b, dtype=float)
    return a.shape == b.shape and np.array_equal(a, b, equal_nan=True)


# ---------------------------------------------------------------------------------------------
# predict vs distribution, sample_y  (shared by all probabilistic regressors)

def check_predict_vs_dist(ctx, lines, expect, reg, Xq, cfg, clsname):
    rv = reg.predict_target_distribution(Xq)
    with np.errstate(all="ignore"):
        mean, std, ent = np.asarray(rv.mean(), dtype=float), np.asarray(rv.std(), dtype=float), np.asarray(rv.entropy(), dtype=float)
    nq = len(Xq)
    for rs in (False, True):
        for re in (False, True):
            with np.errstate(all="ignore"):
                out = reg.predict(Xq, return_std=rs, return_entropy=re)
            want = [mean] + ([std] if rs else []) + ([ent] if re else [])
            if not rs and not re:
                shape_ok = isinstance(out, np.ndarray)
                got = [out] if shape_ok else []
                impl = "single " + ofb(out) if shape_ok else "bad-shape"
            else:
                shape_ok = isinstance(out, tuple) and len(out) == len(want)
                got = list(out) if shape_ok else []
                impl = "tuple " + " ; ".join(ofb(o) for o in got) if shape_ok else "bad-shape"
            lines.append(f"predictout {int(rs)} {int(re)} {nq} {ofb(mean)} {ofb(std)} {ofb(ent)}")
            expect.append((impl, dict(cfg, what=f"predictout rs={rs} re={re}")))
            if not shape_ok:
                viol(ctx, clsname, "predict", "tuple-shape", f"predict(return_std={rs}, return_entropy={re}) returned {type(out).__name__}", cfg)
                continue
            for g, w_, nm in zip(got, want, ["mean"] + (["std"] if rs else []) + (["entropy"] if re else [])):
                if not same(g, w_):
                    viol(ctx, clsname, "predict", f"{nm}-differs-from-distribution",
                         f"predict(return_std={rs}, return_entropy={re}) {nm} = {np.asarray(g).tolist()} but the distribution has {w_.tolist()}", cfg)
                    break
    return rv, mean, std, ent


def edge_seed(seed):
    """a quarter of the cases use the smallest seeds 0 / 1 (0 is falsy in Python), derived from the case so that a replay
    uses the same one"""
    return seed if seed % 4 else (seed // 4) % 2


def check_sample_y(ctx, lines, expect, reg, Xq, cfg, clsname, rv_ok):
    if not rv_ok:
        ctx.count("sample_y_skipped_invalid_distribution")
        return
    ns, seed = cfg["n_samples"], edge_seed(cfg["seed"])
    ctx.count("sample_y_seed_" + ("0" if seed == 0 else ("1" if seed == 1 else "large")))
    draws = []
    orig = reg.predict_target_distribution

    def ptd(X):
        rv = orig(X)
        orig_rvs = rv.rvs

        def rvs(*a, **k):
            r = orig_rvs(*a, **k)
            draws.append(np.array(r, dtype=float).copy())
            return r

        rv.rvs = rvs
        return rv

    reg.predict_target_distribution = ptd
    try:
        s1 = reg.sample_y(Xq, n_samples=ns, random_state=seed)
        s2 = reg.sample_y(Xq, n_samples=ns, random_state=seed)
    finally:
        del reg.predict_target_distribution
    nq = len(Xq)
    if np.shape(s1) != (nq, ns):
        viol(ctx, clsname, "sample_y", "shape", f"sample_y returned shape {np.shape(s1)}, expected {(nq, ns)}", cfg)
        return
    if not same(s1, s2):
        viol(ctx, clsname, "sample_y", "not-reproducible", "two calls with the same random_state differ", cfg)
    if draws:
        lines.append(f"sampley {ns} {nq} {fb(draws[0])}")
        expect.append((" ; ".join(fb(r) for r in np.asarray(s1)), dict(cfg, what="sampley")))
    ctx.count("sample_y_checked")


# ---------------------------------------------------------------------------------------------
# A. NIC kernel regressors

def case_nic(ctx, lines, expect, cfg):
    import skactiveml.regressor._nic_kernel_regressor as M
    from skactiveml.regressor import NICKernelRegressor, NadarayaWatsonRegressor

    y = np.array([np.nan if v is None else v for v in cfg["y"]], dtype=float)
    n = len(y)
    w = None if cfg["w"] is None else np.array(cfg["w"], dtype=float)
    nw = cfg["nw"]
    k0, n0, m0, s0 = (0, 3, 0, 1) if nw else cfg["prior"]
    clsname = "NadarayaWatsonRegressor" if nw else "NICKernelRegressor"
    if nw:
        reg = NadarayaWatsonRegressor(metric="rbf", metric_dict={"gamma": 0.25})
    else:
        reg = NICKernelRegressor(metric="rbf", metric_dict={"gamma": 0.25}, kappa_0=k0, nu_0=n0, mu_0=m0, sigma_sq_0=s0)
    table = cfg.get("K")
    X = np.column_stack([np.arange(n, dtype=float), np.array(cfg["feat"], dtype=float)]) if n else np.zeros((0, 2))
    nq = cfg["nq"]
    Xq = np.column_stack([1000 + np.arange(nq, dtype=float), np.array(cfg["featq"], dtype=float)])
    try:
        reg.fit(X, y, sample_weight=w)
    except ValueError as e:
        if "must not be all zero" in str(e):
            ctx.count("nic_zero_weights_rejected")
            return
        raise
    lab = [i for i in range(n) if not np.isnan(y[i])]
    orig_pk = M.pairwise_kernels
    seenK = []
    if table is not None:
        T = np.array(table, dtype=float).reshape(nq, n)

        def pk(A, B, metric=None, **kw):
            K = np.array([[T[int(a[0]) - 1000, int(b[0])] for b in B] for a in A], dtype=float).reshape(len(A), len(B))
            seenK.append(K.copy())
            return K
    else:
        def pk(A, B, metric=None, **kw):
            K = orig_pk(A, B, metric=metric, **kw)
            seenK.append(np.array(K, dtype=float).copy())
            return K
    M.pairwise_kernels = pk
    try:
        with np.errstate(all="ignore"):
            upd = reg._estimate_update_params(Xq)
            post = M._combine_params(reg.prior_params_, upd)
            rv, mean, std, ent = check_predict_vs_dist(ctx, lines, expect, reg, Xq, cfg, clsname)
            K = seenK[0] if seenK else np.zeros((nq, 0))
            # ---- correspondence of the posterior (bit-exact on the dyadic table) ----
            if table is not None and len(lab) < 8:
                scale = np.broadcast_to(np.asarray(rv.kwds["scale"], dtype=float), (nq,))
                for q in range(nq):
                    wl = w[lab] if w is not None else np.zeros(len(lab))
                    lines.append(f"nicpost {int(w is not None)} {len(lab)} {fb(K[q])} {fb(y[lab])} {fb(wl)} "
                                 f"{f2bits(k0)} {f2bits(n0)} {f2bits(m0)} {f2bits(s0)}")
                    u = [np.broadcast_to(np.asarray(p, dtype=float), (nq,))[q] for p in (upd[0], upd[2], upd[3])]
                    pp = [np.broadcast_to(np.asarray(p, dtype=float), (nq,))[q] for p in post]
                    expect.append((f"{ofb(u)} | {ofb(pp)} | {ofb([scale[q]])}", dict(cfg, what="nicpost", q=q)))
            # ---- property oracle: std finite and >= 0 ----
            df = np.broadcast_to(np.asarray(rv.kwds["df"], dtype=float), (nq,))
            kap = np.broadcast_to(np.asarray(post[0], dtype=float), (nq,))
            Kw = K * w[lab].reshape(1, -1) if (w is not None and len(lab)) else K
            mass = Kw.sum(axis=1) if len(lab) else np.ones(nq)
            proper = (k0 > 0 and n0 > 2 and s0 > 0)
            for q in range(nq):
                if len(lab) and not mass[q] > 0:
                    ctx.count("zero_kernel_mass_row")
                    continue
                demanded = proper or (nw and len(lab) >= 1)
                if not demanded:
                    ctx.count("std_not_demanded_improper_prior")
                    continue
                ctx.count("std_clause_checked")
                if not (np.isfinite(std[q]) and std[q] >= 0):
                    viol(ctx, clsname, "predict", "std-not-finite-nonneg",
                         f"query {q}: std = {std[q]} (df = {df[q]}, kappa_post = {kap[q]}, scale = {np.asarray(rv.kwds['scale']).tolist()})", cfg)
                if not np.isfinite(mean[q]):
                    viol(ctx, clsname, "predict", "mean-not-finite", f"query {q}: mean = {mean[q]}", cfg)
            # ---- accuracy against exact rational arithmetic (loose: 1e-6 relative) ----
            if table is not None:
                for q in range(nq):
                    ref = ref_post_std((k0, n0, m0, s0), K[q], y[lab], None if w is None else w[lab])
                    if ref is None or not ref > 0:
                        continue
                    ctx.count("std_compared_with_exact_reference")
                    if not (np.isfinite(std[q]) and abs(std[q] - ref) <= 1e-6 * ref):
                        viol(ctx, clsname, "predict", "std-inaccurate",
                             f"query {q}: std = {std[q]!r} but exact rational arithmetic gives {ref!r} (labels {y[lab].tolist()}, "
                             f"kernel row {K[q].tolist()}, prior {[k0, n0, m0, s0]})", cfg)
            scale_all = np.broadcast_to(np.asarray(rv.kwds["scale"], dtype=float), (nq,))
            rv_ok = bool(np.all(np.isfinite(df)) and np.all(df > 0) and np.all(np.isfinite(scale_all)) and np.all(scale_all > 0)
                         and np.all(np.isfinite(np.broadcast_to(np.asarray(rv.kwds["loc"], dtype=float), (nq,)))))
            check_sample_y(ctx, lines, expect, reg, Xq, cfg, clsname, rv_ok)
    finally:
        M.pairwise_kernels = orig_pk
    ctx.case(("nic", repr(cfg)), len(lab) >= 1, sample=dict(kind=clsname, prior=[k0, n0, m0, s0], y=y, w=w, mean=mean, std=std))
    ctx.count(f"kind_{clsname}_" + ("table" if table is not None else "rbf") + f"_labels{min(len(lab), 3)}")


PRIORS = [(0.1, 2.5, 0, 1.0), (1.0, 3.0, 0.5, 2.0), (0.5, 4.0, -1, 0.25), (2, 5, 0, 0), (0, 0, 0, 1.0), (0, 3, 0, 1.0),
          (0.25, 1.0, 0, 1.0), (1, 2, 0, 1), (0.1, 2.5, 2.0, 1.0), (0, 2.5, 0, 1.0)]


def gen_nic_offset(rng):
    """labels of the order 1e8..2e9 with a spread of order 1: any one-pass variance formula cancels catastrophically."""
    base = rng.choice([1e8, 1e9, 2e9, -1e9])
    n = rng.randint(2, 7)
    y = [base + dy(rng, -8, 9, 4) if rng.random() < 0.85 else None for _ in range(n)]
    if sum(v is not None for v in y) < 2:
        y[0], y[1] = base + 0.25, base - 1.5
    nq = rng.randint(1, 3)
    r = rng.random()
    nw = r < 0.35
    prior = [0, 3, 0, 1.0] if r < 0.6 else ([0.5, 4.0, base, 1.0] if r < 0.8 else [0, 2.5, base, 0.5])
    vals = [0.125, 0.25, 0.5, 1, 1, 2]
    return dict(kind="nic", nw=nw, prior=prior, y=y, w=[dy(rng, 1, 9, 4) for _ in range(n)] if rng.random() < 0.3 else None,
                feat=[float(rng.randint(-3, 3)) for _ in range(n)], nq=nq, featq=[float(rng.randint(-3, 3)) for _ in range(nq)],
                n_samples=rng.randint(1, 3), seed=rng.randrange(2**31 - 1), K=[[rng.choice(vals) for _ in range(n)] for _ in range(nq)])


def gen_nic(rng, table=True):
    n = rng.choice([0, 1, 2, 3, 4, 5, 6, 7])
    mode = rng.choice(["none", "one", "two", "mix", "mix", "all"])
    y = []
    for i in range(n):
        lab = {"none": False, "one": i == 0, "two": i < 2, "all": True}.get(mode, rng.random() < 0.65)
        y.append(dy(rng, -8, 9, 4) if lab else None)
    nq = rng.randint(1, 3)
    cfg = dict(kind="nic", nw=rng.random() < 0.3, prior=list(rng.choice(PRIORS)), y=y,
               w=[dy(rng, 1, 9, 4) for _ in range(n)] if rng.random() < 0.4 else None,
               feat=[float(rng.randint(-3, 3)) for _ in range(n)], nq=nq, featq=[float(rng.randint(-3, 3)) for _ in range(nq)],
               n_samples=rng.randint(1, 4), seed=rng.randrange(2**31 - 1))
    if table:
        vals = [0.125, 0.25, 0.5, 1, 1, 2] + ([0] if rng.random() < 0.3 else [])
        cfg["K"] = [[rng.choice(vals) for _ in range(n)] for _ in range(nq)]
        if rng.random() < 0.08:
            cfg["K"][0] = [0.0] * n          # a query point without kernel mass
    return cfg


# ---------------------------------------------------------------------------------------------
# B. wrappers

def make_spy_reg(raises, with_std, with_sample):
    from sklearn.base import BaseEstimator, RegressorMixin
    from sklearn.exceptions import NotFittedError

    class Spy(RegressorMixin, BaseEstimator):
        def __init__(self, raises=False):
            self.raises = raises

        def fit(self, X, y, sample_weight=None):
            if self.raises or len(y) == 0:
                raise ValueError("spy regressor cannot be fitted")
            self.mean_ = float(np.max(y)) + 0.5
            return self

        def _chk(self):
            if not hasattr(self, "mean_"):
                raise NotFittedError("spy regressor not fitted")

    if with_std:
        def predict(self, X, return_std=False):
            self._chk()
            m = np.full(len(X), self.mean_)
            return (m, np.full(len(X), 0.75)) if return_std else m
    else:
        def predict(self, X):
            self._chk()
            return np.full(len(X), self.mean_)
    Spy.predict = predict
    if with_sample:
        def sample_y(self, X, n_samples=1, random_state=None):
            self._chk()
            return np.full((len(X), n_samples), self.mean_)
        Spy.sample_y = sample_y
    return Spy(raises=raises)


def make_estimator(name):
    from sklearn.gaussian_process import GaussianProcessRegressor
    from sklearn.linear_model import BayesianRidge, LinearRegression
    from sklearn.tree import DecisionTreeRegressor

    if name.startswith("spy"):
        return make_spy_reg(raises="raise" in name, with_std="std" in name, with_sample="sample" in name)
    return {"linreg": LinearRegression, "treereg": lambda: DecisionTreeRegressor(random_state=0), "bayesridge": BayesianRidge,
            "gp": lambda: GaussianProcessRegressor(random_state=0)}[name]()


NORMAL_OK = {"bayesridge", "gp", "spy_std", "spy_std_raise", "spy_std_sample", "spy_std_raise_sample"}


def case_wrap(ctx, lines, expect, cfg):
    from sklearn.exceptions import NotFittedError

    from skactiveml.regressor import SklearnNormalRegressor, SklearnRegressor

    y = np.array([np.nan if v is None else v for v in cfg["y"]], dtype=float)
    n = len(y)
    w = None if cfg["w"] is None else np.array(cfg["w"], dtype=float)
    normal = cfg["normal"]
    Wr = SklearnNormalRegressor if normal else SklearnRegressor
    clsname = Wr.__name__
    reg = Wr(make_estimator(cfg["estimator"]), random_state=0)
    X = np.array(cfg["feat"], dtype=float).reshape(n, 2) if n else np.zeros((0, 2))
    Xq = np.array(cfg["featq"], dtype=float).reshape(-1, 2)
    nq = len(Xq)
    try:
        reg.fit(X, y, **({} if w is None else dict(sample_weight=w)))
    except Exception as e:
        viol(ctx, clsname, "fit", "raises", f"fit raised {type(e).__name__}: {e} although the wrapper promises a fallback", cfg, cfg["estimator"])
        return
    lab = y[~np.isnan(y)]
    # fallback statistics vs model
    if len(lab) < 8:
        lines.append(f"labelstats {len(lab)} {fb(lab)}")
        expect.append((ofb([reg._label_mean, reg._label_std]), dict(cfg, what="labelstats")))
    # spy on the wrapped estimator's predict
    est = reg.estimator_
    rec = {}
    orig_predict = est.predict

    def sp(Xa, **kw):
        try:
            r = orig_predict(Xa, **kw)
        except NotFittedError:
            rec["unfitted"] = True
            raise
        rec["out"] = r
        return r

    est.predict = sp
    try:
        for rs in ((False, True) if (normal or cfg["estimator"] in NORMAL_OK) else (False,)):
            rec.clear()
            kw = dict(return_std=True) if rs else {}
            try:
                with np.errstate(all="ignore"):
                    out = SklearnRegressor.predict(reg, Xq, **kw)
            except Exception as e:
                viol(ctx, clsname, "predict", "raises", f"predict raised {type(e).__name__}: {e} instead of falling back", cfg, cfg["estimator"])
                return
            fitted = "unfitted" not in rec
            if fitted:
                eo = rec["out"]
                em, es = (eo if isinstance(eo, tuple) else (eo, None))
            else:
                em, es = np.zeros(nq), None
            got_m, got_s = (out if isinstance(out, tuple) else (out, None))
            lines.append(f"wrappred {int(fitted)} {int(rs)} {nq} {fb(em)} {int(es is not None)} {fb(es if es is not None else np.zeros(nq))} "
                         f"{len(lab)} {fb(lab)}" if len(lab) < 8 else "wrappred 1 0 0 0 0")
            expect.append(((ofb(got_m) + " | " + ("none" if got_s is None else ofb(got_s))) if len(lab) < 8 else " | none",
                           dict(cfg, what=f"wrappred rs={rs}")))
            ctx.count(f"wrap_{'delegated' if fitted else 'fallback'}_labels{min(len(lab), 3)}")
            # property oracle: documented defaults when the estimator could not be fitted
            if not fitted:
                want = 0.0 if len(lab) == 0 else float(np.mean(lab))
                if np.shape(got_m) != (nq,) or not np.allclose(got_m, want, rtol=1e-12, atol=1e-12):
                    viol(ctx, clsname, "predict", "fallback-mean", f"unfitted estimator, labels {lab.tolist()}: predict = {np.asarray(got_m).tolist()}, documented default {want}", cfg)
                if rs:
                    want_s = 1.0 if len(lab) < 2 else float(np.std(lab))
                    if got_s is None or np.shape(got_s) != (nq,) or not np.allclose(got_s, want_s, rtol=1e-12, atol=1e-12):
                        viol(ctx, clsname, "predict", "fallback-std", f"unfitted estimator, labels {lab.tolist()}: std = {None if got_s is None else np.asarray(got_s).tolist()}, documented default {want_s}", cfg)
    finally:
        del est.predict
    if normal:
        rv, mean, std, ent = check_predict_vs_dist(ctx, lines, expect, reg, Xq, cfg, clsname)
        unf = not hasattr(est, "mean_") and cfg["estimator"].startswith("spy")
        est_std_ok = True
        if not unf:
            try:
                with np.errstate(all="ignore"):
                    _, es_own = est.predict(Xq, return_std=True)
                est_std_ok = bool(np.all(np.isfinite(es_own)) and np.all(np.asarray(es_own) >= 0))
            except Exception:
                est_std_ok = True
            if not est_std_ok:
                ctx.count("wrapped_estimator_own_std_invalid")   # e.g. BayesianRidge with constant labels and weights: NaN std
        zero_std = unf and len(lab) >= 2 and float(np.std(lab)) == 0.0
        if est_std_ok and not (np.all(np.isfinite(std)) and np.all(std >= 0)):
            viol(ctx, clsname, "predict", "std-not-finite-nonneg", f"std = {std.tolist()} with labels {lab.tolist()}", cfg,
                 "fallback-with-zero-label-std" if zero_std else cfg["estimator"])
        if unf and len(lab) < 8:
            lines.append(f"normfallback {nq} {len(lab)} {fb(lab)}")
            expect.append((ofb(mean) + " | " + ofb(std), dict(cfg, what="normfallback")))
        if unf:
            want = 0.0 if len(lab) == 0 else float(np.mean(lab))
            if not np.allclose(mean, want, rtol=1e-12, atol=1e-12):
                viol(ctx, clsname, "predict", "fallback-mean", f"unfitted estimator, labels {lab.tolist()}: predict = {mean.tolist()}, documented default {want}",
                     cfg, "fallback-with-zero-label-std" if zero_std else None)
        scale = np.broadcast_to(np.asarray(rv.kwds["scale"], dtype=float), (nq,))
        check_sample_y(ctx, lines, expect, reg, Xq, cfg, clsname, bool(np.all(np.isfinite(scale)) and np.all(scale > 0)))
    elif "sample" in cfg["estimator"]:
        # SklearnRegressor.sample_y: delegate, or draw from N(label mean, label std)
        ns, seed = cfg["n_samples"], edge_seed(cfg["seed"])
        try:
            s1 = reg.sample_y(Xq, n_samples=ns, random_state=seed)
            s2 = reg.sample_y(Xq, n_samples=ns, random_state=seed)
        except Exception as e:
            viol(ctx, clsname, "sample_y", "raises", f"sample_y raised {type(e).__name__}: {e}", cfg, cfg["estimator"])
            s1 = None
        if s1 is not None:
            if np.shape(s1) != (nq, ns):
                viol(ctx, clsname, "sample_y", "shape", f"shape {np.shape(s1)}, expected {(nq, ns)}", cfg)
            elif not same(s1, s2):
                viol(ctx, clsname, "sample_y", "not-reproducible", "two calls with one seed differ", cfg)
            elif not hasattr(est, "mean_"):
                z = np.random.RandomState(seed).randn(nq, ns)
                lines.append(f"fallbacksample {nq} {ns} {fb(z)} {f2bits(reg._label_std)} {f2bits(reg._label_mean)}")
                expect.append((" ; ".join(ofb(r) for r in s1), dict(cfg, what="fallbacksample")))
            ctx.count("wrapper_sample_y_checked")
    ctx.case(("wrap", repr(cfg)), len(lab) >= 1, sample=dict(kind=clsname, estimator=cfg["estimator"], y=y, w=w,
                                                           label_mean=reg._label_mean, label_std=reg._label_std))
    ctx.count(f"kind_{clsname}_{cfg['estimator']}")


def gen_wrap(rng):
    n = rng.choice([0, 1, 2, 3, 4, 6])
    mode = rng.choice(["none", "one", "two", "mix", "all", "equal"])
    y = []
    for i in range(n):
        lab = {"none": False, "one": i == 0, "two": i < 2, "all": True, "equal": True}.get(mode, rng.random() < 0.6)
        v = 1.5 if mode == "equal" else rng.choice([dy(rng, -8, 9, 4), round(rng.uniform(-3, 3), 3)])
        y.append(v if lab else None)
    normal = rng.random() < 0.5
    names = sorted(NORMAL_OK) if normal else ["linreg", "treereg", "spy", "spy_raise", "spy_sample", "spy_raise_sample", "spy_std", "gp", "bayesridge"]
    est = rng.choice(names)
    accepts_w = est not in ("gp",)
    nq = rng.randint(1, 3)
    return dict(kind="wrap", normal=normal, estimator=est, y=y,
                w=[dy(rng, 1, 9, 4) for _ in range(n)] if (accepts_w and rng.random() < 0.35) else None,
                feat=[[float(rng.randint(-3, 3)), float(rng.randint(-3, 3))] for _ in range(n)],
                featq=[[float(rng.randint(-3, 3)), float(rng.randint(-3, 3))] for _ in range(nq)],
                n_samples=rng.randint(1, 4), seed=rng.randrange(2**31 - 1))


# ---------------------------------------------------------------------------------------------

RUNNERS = dict(nic=case_nic, wrap=case_wrap)


def run_case(ctx, lines, expect, cfg):
    with warnings.catch_warnings():
        warnings.simplefilter("ignore")
        RUNNERS[cfg["kind"]](ctx, lines, expect, cfg)


def fixed_cases():
    base = dict(kind="nic", nw=False, w=None, nq=2, featq=[0.0, 1.0], n_samples=3, seed=5)
    return [
        dict(base, prior=[0.1, 2.5, 0, 1.0], y=[], feat=[], K=[[], []]),
        dict(base, prior=[0.1, 2.5, 0, 1.0], y=[2.0], feat=[0.0], K=[[1.0], [0.5]]),
        dict(base, prior=[0.1, 2.5, 0, 1.0], y=[2.0, None, 4.0, 0.0], feat=[0.0, 1.0, 2.0, 3.0], K=[[1, 9, 0.5, 0.5], [0.25, 9, 0.25, 0.5]]),
        dict(base, nw=True, prior=[0, 3, 0, 1], y=[1.0, 3.0], feat=[0.0, 1.0], K=[[1, 1], [0.5, 0.25]], w=[1.0, 2.0]),
        dict(base, nw=True, prior=[0, 3, 0, 1], y=[1e9 + 0.25, 1e9 - 1.5, None, 1e9 + 1.0], feat=[0.0, 1.0, 2.0, 3.0],
             K=[[1, 0.5, 9, 0.5], [0.25, 1, 9, 2]]),
        dict(base, prior=[0.5, 4.0, 2e9, 1.0], y=[2e9 + 0.5, 2e9 - 0.5, 2e9 + 1.25], feat=[0.0, 1.0, 2.0], K=[[1, 1, 2], [0.125, 0.5, 0.25]]),
        dict(kind="wrap", normal=False, estimator="spy_raise", y=[], w=None, feat=[], featq=[[0.0, 0.0]], n_samples=2, seed=1),
        dict(kind="wrap", normal=True, estimator="spy_std_raise", y=[1.5], w=None, feat=[[0.0, 0.0]], featq=[[0.0, 0.0], [1.0, 1.0]], n_samples=2, seed=1),
        dict(kind="wrap", normal=True, estimator="spy_std_raise", y=[1.5, None, 1.5], w=None, feat=[[0.0, 0.0], [1.0, 1.0], [2.0, 1.0]],
             featq=[[0.0, 0.0], [1.0, 1.0]], n_samples=2, seed=1),
        dict(kind="wrap", normal=True, estimator="bayesridge", y=[1.5, None, 2.5], w=None, feat=[[0.0, 0.0], [1.0, 1.0], [2.0, 1.0]],
             featq=[[0.0, 0.0], [1.0, 1.0]], n_samples=2, seed=1),
    ]


def gen_any(rng):
    r = rng.random()
    if r < 0.06:
        return gen_nic_offset(rng)
    if r < 0.45:
        return gen_nic(rng, table=True)
    if r < 0.55:
        return gen_nic(rng, table=False)
    return gen_wrap(rng)


def correspond(ctx):
    rng = ctx.rng
    lines, expect = [], []
    for cfg in fixed_cases():
        run_case(ctx, lines, expect, cfg)
    for _ in range(1400 if not ctx.thorough else 24000):
        run_case(ctx, lines, expect, gen_any(rng))
    outs = vlib.run_driver(lines)
    for line, out, (impl, case) in zip(lines, outs, expect):
        if canon(out) != canon(impl):
            ctx.disagree("SkaModel.Core.Regressor vs skactiveml regressors (" + str(case.get("what")) + ")", dict(case, line=line[:400]), out[:400], impl[:400])
    ctx.notes["model_lines"] = len(lines)


def search(ctx):
    rng = ctx.rng
    lines, expect = [], []
    for _ in range(3000):
        run_case(ctx, lines, expect, gen_nic_offset(rng) if rng.random() < 0.6 else gen_any(rng))
        if ctx.violations:
            return


def replay(payload):
    ctx = vlib.Ctx("C15", "quick", 0)
    cfg = dict(payload.get("replay", {}))
    cfg.pop("_cls", None)
    if "y" in cfg:
        cfg["y"] = [None if (v is None or v == "nan") else v for v in cfg["y"]]
    lines, expect = [], []
    run_case(ctx, lines, expect, cfg)
    for v in ctx.violations:
        print("REPRODUCED:", v["key"], "--", v["what"][:300])
    return 1 if ctx.violations else 0
